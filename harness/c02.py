"""C02 — pg.List / pg.Dict behave as Python list / dict under every mutation history.

Case shape:
  {"kind": "list" | "dict", "init": <val>, "ops": [<op>, ...]}
Value encoding (JSON): null / true / false / int / "str" / [list] / {"d": [[key, val], ...]} (dict,
insertion order) / {"m": 0} (pg.MISSING_VALUE) / {"ins": val} (pg.Insertion, rebind values only).
Op encoding: {"op": <name>, ...arguments, "nf": true}   ("nf": run under pg.notify_on_change(False)).

Four-way differential (DESIGN §5.1, §6 C02):
  (a) builtin list/dict  + the documented extensions (function `ref_step`, the oracle's own copy of the Spec),
  (b) pg.List / pg.Dict,
  (c) Lean Spec  (`Pg.C02.specStep`),        (d) Lean Impl model (`Pg.C02.implStep`).
Correspondence: (a)=(c) validates the Spec, (b)=(d) validates the Impl model. Oracle: (a) versus (b) after
every operation + the read-back battery. A history stops at the first step where (a) and (b) differ
(afterwards the two containers hold different contents and "the same operation" has no meaning).
"""

import copy
import json
import math

from harness.common.framework import Prop

MISSING_J = {'m': 0}
ERRS = ('IndexError', 'KeyError', 'TypeError', 'ValueError')


# ------------------------------------------------------------------------------------------
# Value codec
# ------------------------------------------------------------------------------------------

class _Missing:
  """Stand-in of pg.MISSING_VALUE on the reference side (never imported from pyglove)."""

  def __repr__(self):
    return 'MISSING'

  def __eq__(self, other):
    return isinstance(other, _Missing) or type(other).__name__ == 'MissingValue'

  def __ne__(self, other):
    return not self.__eq__(other)

  def __hash__(self):
    return 0


REF_MISSING = _Missing()


def dec(j, missing, insertion=None):
  """JSON encoding -> Python value (fresh objects every call)."""
  if isinstance(j, list):
    return [dec(x, missing, insertion) for x in j]
  if isinstance(j, dict):
    if 'd' in j:
      return {k: dec(v, missing, insertion) for k, v in j['d']}
    if 'm' in j:
      return missing
    if 'ins' in j:
      return insertion(dec(j['ins'], missing, insertion))
    if 'f' in j:
      return -0.0 if j['f'] == '-0' else float(j['f'])
    raise ValueError('bad value encoding %r' % (j,))
  return j


def enc(v):
  """Python value (plain or symbolic) -> JSON encoding. Public iteration only."""
  if v is None or isinstance(v, (bool, int, str)):
    return v
  if isinstance(v, float):     # only integral floats cross the protocol; -0.0 has its own token
    if v == 0 and math.copysign(1.0, v) < 0:
      return {'f': '-0'}
    if v.is_integer():
      return {'f': int(v)}
    return {'other': 'float'}
  if isinstance(v, _Missing) or type(v).__name__ == 'MissingValue':
    return {'m': 0}
  if isinstance(v, dict):
    return {'d': [[k, enc(x)] for k, x in v.items()]}
  if isinstance(v, (list, tuple)):
    return [enc(x) for x in v]
  if type(v).__name__ == 'Insertion':
    return {'ins': enc(v.value)}
  return {'other': type(v).__name__}


def same(a, b):
  """Equality of two encodings as JSON text: Python's `==` would conflate True / 1 (and False / 0), which
  are exactly the equal-but-distinguishable values the property has to keep apart."""
  return json.dumps(a, sort_keys=True) == json.dumps(b, sort_keys=True)


def has_missing(j):
  if isinstance(j, list):
    return any(has_missing(x) for x in j)
  if isinstance(j, dict):
    if 'm' in j:
      return True
    if 'd' in j:
      return any(has_missing(v) for _, v in j['d'])
    if 'ins' in j:
      return has_missing(j['ins'])
  return False


def err_name(e):
  n = type(e).__name__
  return n if n in ERRS else 'Other:' + n


# ------------------------------------------------------------------------------------------
# Reference: builtin list / dict + the documented extensions
# ------------------------------------------------------------------------------------------

KEYFN = {None: None, 'len': len, 'neg': lambda v: -v, 'abs': abs, 'const': lambda v: 0}


class RefInsertion:
  def __init__(self, value):
    self.value = value


def poke(result, op):
  """Mutates the container an operator returned (the aliasing probe of the two-step histories)."""
  if op['op'] in NEW_OPS:
    if isinstance(result, list):
      result.append('<poke>')
    elif isinstance(result, dict):
      result['<poke>'] = 1


def _it(values, op):
  """The call form of an iterable argument: the list itself or a one-shot generator over it."""
  return (v for v in values) if op.get('gen') else values


def _slice(s):
  return slice(s[0], s[1], s[2])


def _purge(p):
  """Extension 1 on lists: the missing-value marker is never stored (assigning it deletes)."""
  if any(isinstance(x, _Missing) for x in p):
    p[:] = [x for x in p if not isinstance(x, _Missing)]


def ref_list_step(p, op):
  """Applies `op` to the plain list `p`; returns the result (raises what list raises)."""
  o = op['op']
  M = REF_MISSING
  d = lambda j: dec(j, M, RefInsertion)
  r = None
  if o == 'get':
    r = p[op['i']]
  elif o == 'getslice':
    r = p[_slice(op['s'])]
  elif o == 'len':
    r = len(p)
  elif o == 'contains':
    r = d(op['v']) in p
  elif o == 'index':
    r = p.index(d(op['v'])) if 'start' not in op else p.index(d(op['v']), op['start'], op['stop'])
  elif o == 'count':
    r = p.count(d(op['v']))
  elif o == 'get_bad':
    r = p['a']
  elif o == 'set_bad':
    p['a'] = 1
  elif o == 'del_bad':
    del p['a']
  elif o == 'set':
    p[op['i']] = d(op['v'])
  elif o == 'setslice':
    p[_slice(op['s'])] = _it(d(op['vs']), op)
  elif o == 'del':
    del p[op['i']]
  elif o == 'delslice':
    del p[_slice(op['s'])]
  elif o == 'append':
    p.append(d(op['v']))
  elif o == 'insert':
    p.insert(op['i'], d(op['v']))
  elif o == 'extend':
    p.extend(_it(d(op['vs']), op))
  elif o == 'pop':
    r = p.pop() if op['i'] is None else p.pop(op['i'])
  elif o == 'remove':
    p.remove(d(op['v']))
  elif o == 'clear':
    p.clear()
  elif o == 'sort':
    p.sort(key=KEYFN[op.get('key')], reverse=op['rev'])
  elif o == 'reverse':
    p.reverse()
  elif o == 'iadd':
    p += _it(d(op['vs']), op)
  elif o == 'imul':
    p *= op['n']
  elif o == 'add':
    r = p + list(d(op['vs']))
    _purge(r)
  elif o == 'mul':
    r = p * op['n']
  elif o == 'rmul':
    r = op['n'] * p
  elif o == 'copy':
    r = p.copy()
  elif o == 'copy_copy':
    r = copy.copy(p)
  elif o == 'list_of':
    r = list(p)
  elif o == 'radd':
    r = d(op['vs']) + p
  elif o == 'rebind':
    # Extensions 2 and 3 (list.py:347-364: applied in descending index order): an index past the end
    # appends, an Insertion inserts, MISSING deletes.
    if not op['pairs']:
      raise ValueError('There are no values to rebind.')
    if any(k < 0 for k, _ in op['pairs']):
      raise NotImplementedError('negative rebind keys are outside the documented API')
    for k, vj in sorted(op['pairs'], key=lambda kv: kv[0], reverse=True):
      v = d(vj)
      if isinstance(v, RefInsertion):
        p.insert(k, v.value)       # (list.insert appends when k >= len)
      elif k >= len(p):
        if not isinstance(v, _Missing):      # appending MISSING does nothing
          p.append(v)
      else:
        p[k] = v       # MISSING: deleted by the purge below (all deletions of one rebind take effect together)
  else:
    raise AssertionError(o)
  _purge(p)
  return r


def ref_dict_step(p, op):
  o = op['op']
  M = REF_MISSING
  d = lambda j: dec(j, M, RefInsertion)
  r = None

  def assign(k, v):     # extension 1: assigning MISSING deletes the key (no-op if absent)
    if isinstance(v, _Missing):
      p.pop(k, None)
    else:
      p[k] = v

  if o == 'get':
    r = p[op['k']]
  elif o == 'getd':
    r = p.get(op['k'], d(op['v']))
  elif o == 'contains':
    r = op['k'] in p
  elif o == 'len':
    r = len(p)
  elif o == 'set':
    assign(op['k'], d(op['v']))
  elif o == 'del':
    del p[op['k']]
  elif o == 'pop':
    r = p.pop(op['k'])
  elif o == 'popd':
    r = p.pop(op['k'], d(op['v']))
  elif o == 'popitem':
    r = list(p.popitem())
  elif o == 'clear':
    p.clear()
  elif o == 'setdefault':
    v = d(op['v'])
    if isinstance(v, _Missing):
      r = p[op['k']] if op['k'] in p else v
    else:
      r = p.setdefault(op['k'], v)
  elif o == 'setdefault1':
    r = p.setdefault(op['k'])
  elif o == 'get1':
    r = p.get(op['k'])
  elif o in ('update', 'ior', 'update_pairs', 'update_kw', 'ior_pairs'):
    # dict.update(other, **kw): the entries of `other` in order, then the keyword arguments in order
    for k, vj in op['pairs'] + op.get('kw', []):
      assign(k, d(vj))
  elif o == 'copy':
    r = p.copy()
  elif o == 'copy_copy':
    r = copy.copy(p)
  elif o == 'dict_of':
    r = dict(p)
  elif o == 'or':
    r = p | {k: d(vj) for k, vj in op['pairs']}
  elif o == 'ror':
    r = {k: d(vj) for k, vj in op['pairs']} | p
  elif o == 'rebind':
    if not op['pairs'] and not op.get('kw'):
      raise ValueError('There are no values to rebind.')
    for k, vj in op['pairs'] + op.get('kw', []):
      assign(k, d(vj))
  else:
    raise AssertionError(o)
  return r


# ------------------------------------------------------------------------------------------
# Implementation runner: the same operation on pg.List / pg.Dict
# ------------------------------------------------------------------------------------------

def pg_list_step(pg, x, op):
  o = op['op']
  d = lambda j: dec(j, pg.MISSING_VALUE, pg.Insertion)
  r = None
  if o == 'get':
    r = x[op['i']]
  elif o == 'getslice':
    r = x[_slice(op['s'])]
  elif o == 'len':
    r = len(x)
  elif o == 'contains':
    r = d(op['v']) in x
  elif o == 'index':
    r = x.index(d(op['v'])) if 'start' not in op else x.index(d(op['v']), op['start'], op['stop'])
  elif o == 'count':
    r = x.count(d(op['v']))
  elif o == 'get_bad':
    r = x['a']
  elif o == 'set_bad':
    x['a'] = 1
  elif o == 'del_bad':
    del x['a']
  elif o == 'set':
    x[op['i']] = d(op['v'])
  elif o == 'setslice':
    x[_slice(op['s'])] = _it(d(op['vs']), op)
  elif o == 'del':
    del x[op['i']]
  elif o == 'delslice':
    del x[_slice(op['s'])]
  elif o == 'append':
    x.append(d(op['v']))
  elif o == 'insert':
    x.insert(op['i'], d(op['v']))
  elif o == 'extend':
    x.extend(_it(d(op['vs']), op))
  elif o == 'pop':
    r = x.pop() if op['i'] is None else x.pop(op['i'])
  elif o == 'remove':
    x.remove(d(op['v']))
  elif o == 'clear':
    x.clear()
  elif o == 'sort':
    x.sort(key=KEYFN[op.get('key')], reverse=op['rev'])
  elif o == 'reverse':
    x.reverse()
  elif o == 'iadd':
    x += _it(d(op['vs']), op)
  elif o == 'imul':
    x *= op['n']
  elif o == 'add':
    vs = d(op['vs'])
    form = op.get('form')          # the right operand as a list / pg.List / tuple / iterator
    r = x + (pg.List(vs) if form == 'pg' else tuple(vs) if form == 'tuple' else iter(vs) if form == 'iter' else vs)
  elif o == 'mul':
    r = x * op['n']
  elif o == 'rmul':
    r = op['n'] * x
  elif o == 'copy':
    r = x.copy()
  elif o == 'copy_copy':
    r = copy.copy(x)
  elif o == 'list_of':
    r = list(x)
  elif o == 'radd':
    r = d(op['vs']) + x
  elif o == 'rebind':
    x.rebind({k: d(vj) for k, vj in op['pairs']})
  else:
    raise AssertionError(o)
  return r, x


def pg_dict_step(pg, x, op):
  o = op['op']
  d = lambda j: dec(j, pg.MISSING_VALUE, pg.Insertion)
  r = None
  if o == 'get':
    r = x[op['k']]
  elif o == 'getd':
    r = x.get(op['k'], d(op['v']))
  elif o == 'contains':
    r = op['k'] in x
  elif o == 'len':
    r = len(x)
  elif o == 'set':
    x[op['k']] = d(op['v'])
  elif o == 'del':
    del x[op['k']]
  elif o == 'pop':
    r = x.pop(op['k'])
  elif o == 'popd':
    r = x.pop(op['k'], d(op['v']))
  elif o == 'popitem':
    r = list(x.popitem())
  elif o == 'clear':
    x.clear()
  elif o == 'setdefault':
    r = x.setdefault(op['k'], d(op['v']))
  elif o == 'setdefault1':
    r = x.setdefault(op['k'])
  elif o == 'get1':
    r = x.get(op['k'])
  elif o == 'update':
    x.update({k: d(vj) for k, vj in op['pairs']}, **{k: d(vj) for k, vj in op.get('kw', [])})
  elif o == 'update_pairs':
    pairs = [(k, d(vj)) for k, vj in op['pairs']]
    x.update(iter(pairs) if op.get('gen') else pairs, **{k: d(vj) for k, vj in op.get('kw', [])})
  elif o == 'update_kw':
    x.update(**{k: d(vj) for k, vj in op['kw']})
  elif o == 'ior':
    x |= {k: d(vj) for k, vj in op['pairs']}
  elif o == 'ior_pairs':
    x |= [(k, d(vj)) for k, vj in op['pairs']]
  elif o == 'copy':
    r = x.copy()
  elif o == 'copy_copy':
    r = copy.copy(x)
  elif o == 'dict_of':
    r = dict(x)
  elif o == 'or':
    r = x | {k: d(vj) for k, vj in op['pairs']}
  elif o == 'ror':
    r = {k: d(vj) for k, vj in op['pairs']} | x
  elif o == 'rebind':
    kw = {k: d(vj) for k, vj in op.get('kw', [])}
    if op['pairs'] or not kw:
      x.rebind({k: d(vj) for k, vj in op['pairs']}, **kw)
    else:
      x.rebind(**kw)
  else:
    raise AssertionError(o)
  return r, x


READ_OPS = {'get', 'getslice', 'len', 'contains', 'index', 'count', 'get_bad', 'getd', 'get1', 'add', 'mul', 'rmul', 'copy',
            'copy_copy', 'list_of', 'radd', 'dict_of', 'or', 'ror'}
# Operators that return a NEW container: (documented result type on the pg side)
NEW_OPS = {'add': 'sym', 'mul': 'sym', 'rmul': 'sym', 'copy': 'sym', 'copy_copy': 'sym', 'getslice': 'list',
           'list_of': 'list', 'radd': 'list', 'dict_of': 'dict', 'or': 'dict', 'ror': 'dict'}
LIST_MUT = ['set', 'setslice', 'del', 'delslice', 'append', 'insert', 'extend', 'pop', 'remove', 'clear',
            'sort', 'reverse', 'iadd', 'imul', 'rebind']


def all_symbolic(pg, x, top=True):
  """Extension 4: every nested plain container has become a symbolic one."""
  if isinstance(x, list):
    return isinstance(x, pg.List) and all(all_symbolic(pg, v, False) for v in list.__iter__(x))
  if isinstance(x, dict):
    return isinstance(x, pg.Dict) and all(all_symbolic(pg, v, False) for v in dict.values(x))
  return True


def battery(pg, kind, x, p):
  """Read-back battery: names of the read paths on which pg container `x` differs from plain `p`."""
  bad = []

  def chk(name, f):
    try:
      ok = f()
    except Exception as e:   # pylint: disable=broad-except
      ok = False
      name = '%s(%s)' % (name, type(e).__name__)
    if not ok:
      bad.append(name)

  chk('len', lambda: len(x) == len(p))
  chk('eq', lambda: (x == p) and (p == x) and not (x != p))
  chk('to_json', lambda: same(enc(pg.to_json(x)), enc(pg.to_json(p))))
  chk('symbolic-children', lambda: all_symbolic(pg, x))
  if kind == 'list':
    n = len(p)
    chk('iter', lambda: same(enc(list(iter(x))), enc(p)))
    chk('getitem', lambda: all(same(enc(x[i]), enc(p[i])) for i in range(-n, n)))
    chk('in', lambda: all((v in x) for v in p) and ('<absent>' not in x))
    for s in (slice(None, None, -1), slice(1, None), slice(None, -1), slice(None, None, 2), slice(-2, None, -2),
              slice(n, 0, -1), slice(1, n + 3, 3)):
      chk('slice[%s:%s:%s]' % ('' if s.start is None else ('n' if s.start == n and n > 2 else s.start),
                               '' if s.stop is None else ('n+3' if s.stop == n + 3 else s.stop),
                               '' if s.step is None else s.step),
          lambda s=s: same(enc(x[s]), enc(p[s])))
    chk('reversed', lambda: same(enc(list(reversed(x))), enc(list(reversed(p)))))
  else:
    chk('iter', lambda: same(list(iter(x)), list(iter(p))))
    chk('keys', lambda: same(list(x.keys()), list(p.keys())))
    chk('reversed', lambda: same(list(reversed(x)), list(reversed(p))))
    chk('popitem-order', lambda: same(list(dict.copy(x).popitem())[0:1], list(dict(p).popitem())[0:1]) if p else len(x) == 0)
    chk('values', lambda: same(enc(list(x.values())), enc(list(p.values()))))
    chk('items', lambda: same(enc([list(kv) for kv in x.items()]), enc([list(kv) for kv in p.items()])))
    chk('getitem', lambda: all(same(enc(x[k]), enc(p[k])) for k in p))
    chk('get', lambda: all(same(enc(x.get(k)), enc(p.get(k))) for k in list(p) + ['<absent>']))
    chk('in', lambda: all(k in x for k in p) and ('<absent>' not in x))
  return bad


def slice_class(s, n):
  """Coarse class of a slice argument (for signatures and the histogram)."""
  start, stop, step = s
  if step == 0:
    return 'step0'
  sg = 'neg' if (step is not None and step < 0) else ('pos1' if step in (None, 1) else 'posk')
  a, b, _ = slice(start, stop, step).indices(n)
  if sg == 'pos1' and a > b:
    return 'pos1-start>stop'
  return sg


def classify(kind, op, n_before, diff):
  """A short stable signature of one divergence between reference and pg."""
  o = op['op']
  tag = '%s.%s' % (kind, o)
  if 's' in op:
    tag += '[%s]' % slice_class(op['s'], n_before)
  if op.get('nf'):
    tag += ':notify-off'
  return '%s:%s' % (tag, diff)


# ------------------------------------------------------------------------------------------
# Generator
# ------------------------------------------------------------------------------------------

ATOMS = [0, 1, 2, 3, -1, 7, True, False, None, 'a', 'b', '', 'a.b', 'x[0]', 'é', 'zz',
         {'f': 1}, {'f': 0}, {'f': '-0'}, {'f': 2}]
# Equal-but-distinguishable values (1 == 1.0 == True, 0 == 0.0 == -0.0 == False; equal sort keys):
# what a stable sort, remove / index / count / `in` must tell apart.
TIE_POOLS = {
    'num': [1, True, {'f': 1}, 0, False, {'f': 0}, {'f': '-0'}, 2, {'f': 2}, -1, {'f': -1}, 3],
    'str': ['a', 'b', 'ab', 'ba', '', 'zz', 'é', 'c', 'aa', 'a'],
    'len': ['ab', 'ba', [1, 2], [2, 1], {'d': [['k', 1]]}, {'d': [['j', 2]]}, [], {'d': []}, '', [[]], ['a'],
            [True], [1], [{'f': 1}]],
}
NESTED = [[], [1, 2], ['a'], {'d': []}, {'d': [['k', 1]]}, [[1], {'d': [['a', [2]]]}],
          {'d': [['x', {'d': [['y', 0]]}], [3, [True]]]}, [None, [[]]]]
KW_KEYS = ['a', 'b', 'c', 'k', 'd', 'x', 'y', 'zz', 'é', 'w']
RESERVED_KW = {'value_spec', 'onchange_callback', 'allow_partial', 'accessor_writable', 'sealed', 'root_path',
               'pass_through', 'as_object_attributes_container', 'other', 'self', 'raise_on_no_change',
               'notify_parents', 'skip_notification', 'path_value_pairs', ''}
KEYS = ['a', 'b', 'c', 'k', 'a.b', 'x[0]', '', 0, 1, 2, -1, 10, 'd', 'é', True, False, True, False, 1, 0]


def simple_key(k):
  """A dict key that `KeyPath.from_value` reads as a one-component path with that very key."""
  if isinstance(k, int):
    return True
  return bool(k) and not any(c in k for c in '.[]') and not k.lstrip('-').isdigit()


def incomparable(a, b):
  try:
    sorted([a, b])
    sorted([b, a])
  except TypeError:
    return True
  return False


class Gen:
  def __init__(self, rng):
    self.r = rng
    self.pool = None          # name of the tie pool of the current history (None: general vocabulary)

  def val(self, allow_missing=False, nested_p=0.25):
    r = self.r
    if allow_missing and r.chance(0.07):
      return dict(MISSING_J)
    if self.pool and r.chance(0.92):
      return copy.deepcopy(r.choice(TIE_POOLS[self.pool]))
    if r.chance(nested_p):
      return copy.deepcopy(r.choice(NESTED))
    return copy.deepcopy(r.choice(ATOMS))

  def vals(self, lo=0, hi=4, allow_missing=False):
    return [self.val(allow_missing) for _ in range(self.r.randint(lo, hi))]

  def index(self, n):
    r = self.r
    k = r.below(10)
    if k < 5 and n > 0:
      return r.randint(-n, n - 1)
    return r.choice([-n - 1, -n, -1, 0, n - 1, n, n + 1, -n - 2, n + 2])

  def bound(self, n):
    r = self.r
    if r.chance(0.25):
      return None
    return r.randint(-n - 2, n + 2)

  def slice(self, n):
    r = self.r
    step = r.weighted([(5, None), (3, 1), (3, -1), (2, 2), (2, -2), (1, 3), (1, -3), (1, 0)])
    return [self.bound(n), self.bound(n), step]

  def sort_args(self, p):
    """(key, reverse) for a sort of the reference list `p`, or None. A key function that raises leaves the
    list as it is (any length); a failing comparison leaves lists longer than 2 in an unspecified order,
    so it is only issued on incomparable pairs."""
    r = self.r
    if self.pool == 'len':
      key = r.weighted([(6, 'len'), (2, 'const'), (1, None), (1, 'neg')])
    elif self.pool == 'num':
      key = r.weighted([(5, None), (2, 'neg'), (2, 'abs'), (2, 'const'), (1, 'len')])
    else:
      key = r.weighted([(6, None), (2, 'len'), (2, 'const'), (1, 'neg'), (1, 'abs')])
    rev = r.chance(0.5)
    try:
      keys = [KEYFN[key](v) for v in p] if key else list(p)
    except TypeError:
      return (key, rev) if r.chance(0.3) else None
    if all(isinstance(k, (bool, int, float)) for k in keys) or all(isinstance(k, str) for k in keys):
      return key, rev
    if len(keys) < 2:
      return key, rev
    try:     # keys that are containers compare lexicographically: outside the Lean Spec layer
      sorted(keys)
      sorted(reversed(keys))
    except TypeError:
      if len(p) == 2 and r.chance(0.5):
        return key, rev
    return None

  def present(self, p, allow_missing=False):
    if p and self.r.chance(0.7):
      return enc(self.r.choice(p))
    return self.val(allow_missing)

  def list_op(self, p):
    r = self.r
    n = len(p)
    tie = 5 if self.pool else 1      # tie histories: mostly sorts and equality-based operations
    o = r.weighted([
        (6, 'set'), (8, 'setslice'), (4, 'del'), (5, 'delslice'), (6, 'append'), (6, 'insert'), (5, 'extend'),
        (5, 'pop'), (4 * tie, 'remove'), (1, 'clear'), (3 * tie * 2, 'sort'), (2, 'reverse'), (3, 'iadd'), (2, 'imul'),
        (5, 'rebind'), (4, 'get'), (6, 'getslice'), (1, 'len'), (2 * tie, 'contains'), (2 * tie, 'index'), (2 * tie, 'count'),
        (3, 'add'), (2, 'mul'), (1, 'rmul'), (1, 'copy'), (1, 'copy_copy'), (1, 'list_of'), (1, 'radd'), (1, 'bad')])
    op = {'op': o}
    if o in ('set', 'insert'):
      op.update(i=self.index(n), v=self.val(allow_missing=True))
    elif o in ('get', 'del'):
      op.update(i=self.index(n))
    elif o == 'pop':
      op.update(i=None if r.chance(0.3) else self.index(n))
    elif o == 'setslice':
      s = self.slice(n)
      op.update(s=s)
      if s[2] not in (None, 1, 0) and r.chance(0.75):
        k = len(range(*slice(*s).indices(n)))       # extended slice: mostly the right length
        op.update(vs=[self.val(r.chance(0.1)) for _ in range(k)])
      else:
        op.update(vs=self.vals(0, 4, allow_missing=r.chance(0.15)))
    elif o in ('getslice', 'delslice'):
      op.update(s=self.slice(n))
    elif o == 'append':
      op.update(v=self.val(allow_missing=True))
    elif o in ('extend', 'iadd', 'add', 'radd'):
      op.update(vs=self.vals(0, 3, allow_missing=(o != 'radd' and r.chance(0.15))))
      if o == 'add':
        if r.chance(0.35):
          op['vs'] = []                     # nothing to concatenate: still a new list
        op['form'] = r.choice(['list', 'pg', 'tuple', 'iter'])
    elif o in ('remove', 'contains', 'index', 'count'):
      op.update(v=self.present(p))
      if o == 'index' and r.chance(0.5):       # index(x, start, stop): both bounds, negative / out of range
        op.update(start=self.index(n), stop=self.index(n) if r.chance(0.7) else n + 5)
    elif o == 'sort':
      a = self.sort_args(p)
      if a is None:
        return self.list_op(p)
      op.update(rev=a[1], key=a[0])
    elif o in ('imul', 'mul', 'rmul'):
      op.update(n=r.choice([-1, 0, 1, 2, 2, 3]))
    elif o == 'rebind':
      ks = r.sample(list(range(0, n + 3)), min(n + 3, r.weighted([(5, 1), (3, 2), (2, 3), (1, 0)])))
      pairs = []
      for k in ks:
        v = self.val(allow_missing=True)
        if r.chance(0.3) and v != MISSING_J:      # Insertion(MISSING) is meaningless
          v = {'ins': v}
        pairs.append([k, v])
      op.update(pairs=pairs)
    elif o == 'bad':
      op['op'] = r.choice(['get_bad', 'set_bad', 'del_bad'])
    if op['op'] in ('extend', 'iadd', 'setslice') and r.chance(0.3):
      op['gen'] = True                            # the values arrive as a generator
    if op['op'] not in READ_OPS and r.chance(0.08):
      op['nf'] = True
    return op

  def key(self, p):
    if p and self.r.chance(0.6):
      return self.r.choice(list(p))
    return self.r.choice(KEYS)

  def pairs(self, p, lo=0, hi=3, allow_missing=True, simple=False, kw=False, dups=False):
    """Key/value pairs. kw: keys usable as keyword arguments (strings, half of them new); dups: an iterable
    of pairs may name a key twice."""
    out, seen = [], set()
    for _ in range(self.r.randint(lo, hi)):
      k = self.key(p)
      if kw:
        k = self.r.choice(KW_KEYS) if self.r.chance(0.6) or not isinstance(k, str) or k in RESERVED_KW else k
      if (k in seen and not (dups and self.r.chance(0.5))) or (simple and not simple_key(k)):
        continue
      seen.add(k)
      out.append([k, self.val(allow_missing)])
    return out

  @staticmethod
  def no_missing_on_repeats(op):
    """A key named twice in one call (positional entry and keyword, or twice in an iterable of pairs) whose
    earlier value is MISSING is outside the domain: the reference deletes and re-inserts the key, pg merges
    the arguments first (see C02_dict_counterexample_update_merge). Such values are replaced by None."""
    allp = op['pairs'] + op.get('kw', [])
    for i, (k, v) in enumerate(allp):
      if v == MISSING_J and any(k2 == k for k2, _ in allp[i + 1:]):
        allp[i][1] = None

  def dict_op(self, p):
    r = self.r
    o = r.weighted([
        (8, 'set'), (4, 'del'), (4, 'pop'), (3, 'popd'), (3, 'popitem'), (1, 'clear'), (4, 'setdefault'),
        (2, 'setdefault1'), (6, 'update'), (4, 'update_pairs'), (2, 'update_kw'), (2, 'ior'), (2, 'ior_pairs'),
        (4, 'rebind'), (3, 'get'), (2, 'getd'), (1, 'get1'), (2, 'contains'), (1, 'len'), (2, 'copy'), (1, 'copy_copy'),
        (1, 'dict_of'), (2, 'or'), (1, 'ror')])
    op = {'op': o}
    if o in ('set', 'setdefault', 'popd', 'getd'):
      op.update(k=self.key(p), v=self.val(allow_missing=(o in ('set', 'setdefault'))))
    elif o in ('del', 'pop', 'get', 'get1', 'contains', 'setdefault1'):
      op.update(k=self.key(p))
    elif o in ('or', 'ror'):
      op.update(pairs=self.pairs(p, allow_missing=False))
    elif o in ('ior', 'ior_pairs'):
      op.update(pairs=self.pairs(p, dups=(o == 'ior_pairs')))
      self.no_missing_on_repeats(op)
    elif o in ('update', 'update_pairs'):
      # every call form: update(mapping), update(pairs_iterable), each with and without keyword arguments
      op.update(pairs=self.pairs(p, dups=(o == 'update_pairs')))
      if r.chance(0.5):
        op.update(kw=self.pairs(p, lo=1, kw=True))
      if o == 'update_pairs' and r.chance(0.3):
        op['gen'] = True
      if r.chance(0.12):       # dict.update takes its mapping positionally only: these are ordinary keys
        k = r.choice(['other', 'self'])
        if all(k2 != k for k2, _ in op.get('kw', [])):
          op.setdefault('kw', []).append([k, self.val()])
      self.no_missing_on_repeats(op)
    elif o == 'update_kw':
      op.update(pairs=[], kw=self.pairs(p, lo=1, kw=True))
    elif o == 'rebind':
      # `rebind` takes key *paths*; only keys that are not path expressions are plain keys
      op.update(pairs=self.pairs(p, simple=True))
      if r.chance(0.35):
        op.update(kw=self.pairs(p, lo=1, kw=True, simple=True))
        if r.chance(0.3):
          op['pairs'] = []
      self.no_missing_on_repeats(op)
    if o not in READ_OPS and r.chance(0.08):
      op['nf'] = True
    return op

  def history(self, kind=None, max_ops=30):
    r = self.r
    kind = kind or r.weighted([(65, 'list'), (35, 'dict')])
    self.pool = None
    if kind == 'list' and r.chance(0.3):
      self.pool = r.choice(['num', 'num', 'str', 'len'])
    if kind == 'list':
      init = self.vals(0, 6) if not self.pool else self.vals(2, 7)
      p = dec(init, REF_MISSING)
    else:
      init = {'d': self.pairs({}, 0, 4, allow_missing=False)}
      p = dec(init, REF_MISSING)
      init_kw = self.pairs(p, 1, 3, allow_missing=False, kw=True) if r.chance(0.4) else None
      if init_kw:
        for k, vj in init_kw:
          p[k] = dec(vj, REF_MISSING)
    ops = []
    for _ in range(r.randint(1, max_ops)):
      op = self.list_op(p) if kind == 'list' else self.dict_op(p)
      ops.append(op)
      try:     # track the reference state so that indices / keys are drawn relative to it
        (ref_list_step if kind == 'list' else ref_dict_step)(p, op)
      except Exception:   # pylint: disable=broad-except
        pass
    if self.pool:
      return {'kind': kind, 'init': init, 'ops': ops, 'src': 'tie-' + self.pool}
    if kind == 'dict' and init_kw:
      return {'kind': kind, 'init': init, 'init_kw': init_kw, 'ops': ops}      # Dict(mapping, **kw)
    return {'kind': kind, 'init': init, 'ops': ops}


def grid_cases(max_len, lo, hi):
  """Exhaustive (start, stop, step) grid for get / set / del slices on lists of length 0..max_len."""
  bounds = [None] + list(range(lo, hi + 1))
  steps = [None] + list(range(lo, hi + 1))
  for n in range(max_len + 1):
    init = list(range(10, 10 + n))
    # one single-operation case per (n, op, start, stop, step[, size]): every op runs on a fresh list
    for a in bounds:
      for o in ('getslice', 'delslice', 'setslice'):
        for b in bounds:
          for c in steps:
            s = [a, b, c]
            if o == 'setslice':
              k = 0 if c == 0 else len(range(*slice(a, b, c).indices(n)))
              for m in sorted({k, 0, k + 1, max(0, k - 1)}):
                yield {'kind': 'list', 'init': init, 'src': 'grid',
                       'ops': [{'op': o, 's': s, 'vs': list(range(70, 70 + m))}]}
            else:
              yield {'kind': 'list', 'init': init, 'src': 'grid', 'ops': [{'op': o, 's': s}]}


# ------------------------------------------------------------------------------------------

class C02(Prop):
  id = 'C02'
  props_modules = ['PgProps.C02']
  driver = 'drv_c02'
  translators = []
  case_timeout_s = 20
  rule = ('histories of 1-30 operations over the whole list / dict API (28 list ops, 17 dict ops; quick 4000, thorough 100000 histories), generated '
          'while tracking the reference state so that indices are biased to -len-2 .. len+2, slices carry '
          'None / negative / zero steps, values are atoms (int, bool, None, str incl. path-like strings) and '
          'nested plain containers, ~7 % MISSING arguments, ~8 % of mutations under notify_on_change(False); '
          'plus an exhaustive (start, stop, step) grid for get / set / del slices on short lists. '
          'Non-trivial: the history contains at least one mutation that succeeds on the reference and changes '
          'its contents; distinct: by the whole case.')
  trusted_base = [
      'CPython list / dict (reference of the property; also validates the Lean Spec layer PyList / PyDict)',
      'harness ref_step: the four documented extensions on top of the builtin containers (the oracle\'s copy of the Spec clauses)',
      'modelled, not verified: the Impl model (write primitive, _on_change purge, slice handling, rebind order, '
      'Dict write primitive) is tied to the code by correspondence only',
      'sort: key in {None, len, -x, abs, const}; a sort whose comparison fails only on 2-element lists (CPython leaves longer lists in an unspecified order on TypeError)',
  ]
  assumptions = ['dict keys are str, int or bool (True == 1 as a key; floats are rejected by pg.Dict and outside the property); values are None/bool/int/integral float/-0.0/str and nested list/dict of these',
                 'operations are applied to one root container; nested containers are only read back']

  # -- generation ----------------------------------------------------------------------------
  def generate(self, rng, tier):
    g = Gen(rng)
    n = 4000 if tier == 'quick' else 100000
    for _ in range(n):
      yield g.history()
    if tier == 'quick':
      yield from grid_cases(3, -4, 4)
    else:
      yield from grid_cases(6, -7, 7)

  # -- execution -----------------------------------------------------------------------------
  def impl(self, case):
    import pyglove as pg     # pylint: disable=import-outside-toplevel
    kind = case['kind']
    if case.get('init_kw'):
      kw = lambda m: {k: dec(v, m) for k, v in case['init_kw']}
      p = dict(dec(case['init'], REF_MISSING), **kw(REF_MISSING))
      x = pg.Dict(dec(case['init'], pg.MISSING_VALUE), **kw(pg.MISSING_VALUE))
    else:
      p = dec(case['init'], REF_MISSING)
      x = (pg.List if kind == 'list' else pg.Dict)(dec(case['init'], pg.MISSING_VALUE))
    ref_step = ref_list_step if kind == 'list' else ref_dict_step
    pg_step = pg_list_step if kind == 'list' else pg_dict_step
    spec_steps, impl_steps = [], []
    fail = None
    changed = False
    for idx, op in enumerate(case['ops']):
      n_before = len(p)
      before = enc(p)
      rr = r = None
      try:
        rr = ref_step(p, op)
        a = {'r': enc(rr), 'e': None}
        poke(rr, op)            # a following mutation of the result ...
      except NotImplementedError:
        break
      except Exception as e:   # pylint: disable=broad-except
        a = {'r': None, 'e': err_name(e)}
      a['s'] = enc(p)
      if a['e'] is None and not same(a['s'], before):
        changed = True
      try:
        if op.get('nf'):
          with pg.notify_on_change(False):
            r, x = pg_step(pg, x, op)
        else:
          r, x = pg_step(pg, x, op)
        b = {'r': enc(r), 'e': None}
      except Exception as e:   # pylint: disable=broad-except
        b = {'r': None, 'e': err_name(e)}
      alias = None
      if b['e'] is None and op['op'] in NEW_OPS:
        if r is x:
          alias = 'result-is-receiver'
        else:
          try:
            poke(r, op)         # ... must not change the receiver (checked by the contents comparison below)
          except Exception as e:   # pylint: disable=broad-except
            alias = 'result-not-mutable(%s)' % type(e).__name__
      b['s'] = enc(list(iter(x))) if kind == 'list' else {'d': [[k, enc(v)] for k, v in x.items()]}
      spec_steps.append(a)
      impl_steps.append(b)
      diff = None
      if a['e'] != b['e']:
        diff = 'error-class(%s->%s)' % (a['e'], b['e'])
      elif alias:
        diff = alias
      elif not same(a['s'], b['s']):
        diff = ('receiver-changed-through-result' if op['op'] in NEW_OPS else
                'missing-placeholder' if has_missing(b['s']) else 'contents')
      elif not same(a['r'], b['r']):
        diff = 'result'
      else:
        bad = battery(pg, kind, x, p)
        if bad:
          diff = 'readback:' + bad[0]
        elif a['e'] is None and op['op'] in NEW_OPS and not (
            type(r) is type(x) if NEW_OPS[op['op']] == 'sym' else
            isinstance(r, list) if NEW_OPS[op['op']] == 'list' else isinstance(r, dict)):
          diff = 'result-type'
      if diff and case.get('no_oracle'):
        # an input outside the property's domain (e.g. MISSING nested inside an argument): only the
        # correspondence of the two models with the two implementations is checked
        break
      if diff:
        fail = {'step': idx, 'op': op, 'signature': classify(kind, op, n_before, diff),
                'what': '%s on %s: reference %s, pg %s' % (json.dumps(op), json.dumps(before),
                                                           json.dumps(a), json.dumps(b))}
        break
    return {'model': {'spec': spec_steps, 'impl': impl_steps}, 'fail': fail, 'changed': changed}

  def compare(self, case, impl_out, model_out):
    n = len(impl_out['model']['spec'])
    for side in ('spec', 'impl'):
      a = impl_out['model'][side]
      b = model_out.get(side, [])[:n]
      if not same(a, b):
        for i, (u, v) in enumerate(zip(a, b)):
          if not same(u, v):
            return '%s side, step %d %s: %s=%s lean=%s' % (
                side, i, json.dumps(case['ops'][i]), 'builtin' if side == 'spec' else 'pg',
                json.dumps(u), json.dumps(v))
        return '%s side: %d steps vs %d' % (side, len(a), len(b))
    return None

  def oracle(self, case, impl_out):
    f = impl_out.get('fail')
    if f:
      return {'signature': f['signature'], 'what': 'step %d: %s' % (f['step'], f['what'])}
    return None

  def nontrivial(self, case, impl_out):
    return bool(impl_out.get('changed'))

  def describe(self, case, impl_out):
    src = case.get('src', 'history')
    h = ['src:' + src, '%s:kind:%s' % (src, case['kind']), '%s:ops:%d' % (src, 10 * (len(case['ops']) // 10))]
    steps = impl_out['model']['spec']
    for op, st in zip(case['ops'], steps):
      k = '%s.%s' % (case['kind'], op['op'])
      h.append('op:' + k)
      if st['e']:
        h.append('err:%s:%s' % (k, st['e']))
      if 's' in op:
        h.append('slice:' + slice_class(op['s'], 3))
      if op.get('nf'):
        h.append('notify-off')
    if not impl_out.get('changed'):
      h.append('%s:trivial' % src)
    if impl_out.get('fail'):
      h.append('diverged')
    return h

  def shrink_candidates(self, case):
    ops = case['ops']
    for i in range(len(ops)):
      yield dict(case, ops=ops[:i] + ops[i + 1:])
    if case['kind'] == 'list' and case['init']:
      yield dict(case, init=case['init'][:-1])
    if case['kind'] == 'dict' and case['init']['d']:
      yield dict(case, init={'d': case['init']['d'][:-1]})


PROP = C02()
