"""C12 — DNA views are lossless and stay aligned with the specification.

Case shape:
  {"op": "views", "spec": <spec with names / locations / literal values>,
   "dnas": [<member tree>, ...],
   "chains": [{"start": <member tree>, "ops": [{"op": "next"|"clone"|"renumber"|"redict"|"rejson"|
               {"op": "swap", "path": [...], "i": int, "j": int} | {"op": "random", "script": [...]}]}]}

Implementation observables (public API only): to_numbers (flat / nested), DNA.from_numbers,
DNA(nested, spec=...), to_json / pg.from_json (compact and verbose), to_dict / DNA.from_dict for the
option grid, dna[...] lookups, node.spec.id / subchoice_index of every node, next_dna, random_dna,
clone, pg.evolution.mutators.Swap.
"""

import json
import random as _random
import re

from harness.common.framework import Prop, CaseTimeout
from harness import c11_geno as G
from harness import c11 as H
from translate import t_c12

KEY_TYPES = ['id', 'name_or_id']
VALUE_TYPES = ['value', 'dna', 'choice', 'literal', 'choice_and_literal']
MULTI = ['subchoice', 'parent', 'both']
GRID = [(kt, vt, mk) for kt in KEY_TYPES for vt in VALUE_TYPES for mk in MULTI]


# ------------------------------------------------------------------------------------------
# generation helpers
# ------------------------------------------------------------------------------------------

def decorate(spec, rng):
  """Adds locations, names and literal values to a generated spec (in place)."""
  counter = [0]

  def fresh(prefix):
    counter[0] += 1
    return '%s%d' % (prefix, counter[0])

  def point(p, in_multi):
    r = rng.below(10)
    if r < 7:
      p['loc'] = [fresh('k')]
    elif r < 9:
      p['loc'] = [fresh('k'), rng.below(3)]
    else:
      p['loc'] = [fresh('k'), fresh('m')]
    if rng.chance(0.35):
      p['name'] = fresh('nm')
    if p['t'] == 'c':
      n = len(p['cands'])
      m = rng.below(10)
      if m < 3:
        p['lits'] = ['v%d' % i for i in range(n)]
      elif m < 5:
        p['lits'] = [10 + i for i in range(n)]
      elif m < 6:
        p['lits'] = [('s%d' % i) if i % 2 else 100 + i for i in range(n)]
      elif m < 8:
        # float literals, some of them very close to each other (tiny learning rates, epsilons)
        pool = [1e-7, 3e-7, 1e-6, 1e-3, 0.25, 0.2500004, 0.5, 0.1, 2.5, 1.5e10, 0.30000000000000004, 0.3]
        start = rng.below(len(pool))
        vals = [pool[(start + i) % len(pool)] for i in range(n)]
        p['lits'] = [{'f': list(v.as_integer_ratio())} for v in vals]
        if n >= 3 and rng.chance(0.3):
          p['lits'][n - 1] = 'relu'
      for c in p['cands']:
        for q in c:
          point(q, in_multi or p['k'] > 1)

  if spec['t'] == 's':
    for p in spec['elems']:
      point(p, False)
  else:
    point(spec, False)
    if rng.chance(0.5):
      spec['loc'] = []
  return spec


def swap_sites(spec, tree):
  """Paths of the multi-choice container nodes of a member in DFS pre-order, with (k, sorted)."""
  out = []

  def pt(p, d, path):
    if p['t'] != 'c':
      return
    if p['k'] == 1:
      kids(p['cands'][d[0]], d[1], path)
    else:
      out.append((path, p['k'], p['s']))
      for i, sub in enumerate(d[1]):
        kids(p['cands'][sub[0]], sub[1], path + (i,))

  def kids(cand, ks, path):
    if len(cand) == 1 and cand[0]['t'] == 'c' and cand[0]['k'] > 1:
      q = cand[0]
      for i, sub in enumerate(ks):
        kids(q['cands'][sub[0]], sub[1], path + (i,))
    else:
      for i, (q, d) in enumerate(zip(cand, ks)):
        pt(q, d, path + (i,))

  elems = G.elems_of(spec)
  if spec['t'] != 's' or len(elems) == 1:
    if elems:
      pt(elems[0], tree, ())
  else:
    for i, (q, d) in enumerate(zip(elems, tree[1])):
      pt(q, d, (i,))
  return out


class ScriptedRandom2(H.ScriptedRandom):
  def shuffle(self, x):       # Swap shuffles its candidate nodes: the oracle answers "unchanged"
    return None


def nest_j(x):
  if isinstance(x, tuple):
    return {'t': [nest_j(y) for y in x]}
  if isinstance(x, list):
    return {'l': [nest_j(y) for y in x]}
  if isinstance(x, float):
    return {'v': {'f': list(x.as_integer_ratio())}}
  return {'v': x}


_CHOICE_LIT = re.compile(r'^(\d+)/(\d+) \((.*)\)$', re.S)


def canon_value(v):
  from pyglove.core import geno
  if isinstance(v, str):
    # 'i/n (literal)' with a float literal: the model prints the exact ratio, Python its repr
    m = _CHOICE_LIT.match(v)
    if m and any(c in m.group(3) for c in '.e') and not m.group(3)[:1].isalpha():
      try:
        f = float(m.group(3))
        if repr(f) == m.group(3):
          return '%s/%s (%d/%d)' % ((m.group(1), m.group(2)) + f.as_integer_ratio())
      except ValueError:
        pass
    return v
  if isinstance(v, geno.DNA):
    return {'dna': H.tree_of(v)}
  if isinstance(v, float):
    return {'f': list(v.as_integer_ratio())}
  if isinstance(v, list):
    return [canon_value(x) for x in v]
  return v


def canon_dict(d):
  items = []
  for k, v in d.items():
    if not isinstance(k, str):
      k = str(k.id)
    items.append([k, canon_value(v)])
  return sorted(items, key=lambda kv: kv[0])


def beliefs(dna):
  from pyglove.core import geno
  out = []

  def walk(n):
    s = n.spec
    if s is None or not isinstance(s, geno.DecisionPoint):
      out.append(None)
    elif s.is_categorical and s.num_choices > 1 and not s.is_subchoice:
      out.append(None)     # multi-choice container
    else:
      out.append([str(s.id), getattr(s, 'subchoice_index', None)])
    for c in n.children:
      walk(c)
  walk(dna)
  return out


def lookups(d, spec):
  """Every public look-up on a bound DNA: by decision point, id, name; decision_ids; named_decisions.
  Returns (canonical results, identity) where identity says that every node handed out belongs to `d`."""
  from pyglove.core import geno
  res, ident = [], True

  def canon(v):
    nonlocal ident
    if isinstance(v, geno.DNA):
      if v.root is not d:
        ident = False
      return H.tree_of(v)
    if isinstance(v, list):
      return [canon(x) for x in v]
    return v

  for dp in spec.decision_points:
    for key in (dp, str(dp.id)) + ((dp.name,) if dp.name else ()):
      try:
        res.append(canon(d[key]))
      except CaseTimeout:
        raise
      except Exception as e:   # pylint: disable=broad-except
        res.append('error:' + type(e).__name__)
  try:
    res.append(sorted(str(k) for k in d.decision_ids))
    res.append(sorted((k, canon(v)) for k, v in d.named_decisions.items()))
  except CaseTimeout:
    raise
  except Exception as e:   # pylint: disable=broad-except
    res.append('error:' + type(e).__name__)
  return res, ident


def lookup_tables(d, spec):
  """The look-up structures themselves, in the dictionaries' own order (compared with the Lean model)."""
  from pyglove.core import geno

  def lv(v):
    if isinstance(v, geno.DNA):
      return {'one': H.tree_of(v)}
    if isinstance(v, list):
      return {'many': [None if x is None else H.tree_of(x) for x in v]}
    return None

  def item(key):
    try:
      return lv(d[key])
    except CaseTimeout:
      raise
    except KeyError:
      return 'KeyError'
    except Exception as e:   # pylint: disable=broad-except
      return 'error:' + type(e).__name__

  return {
      'by_id': [[str(k), lv(v)] for k, v in d._decision_by_id.items()],   # pylint: disable=protected-access
      'named': [[k, lv(v)] for k, v in d.named_decisions.items()],
      'ids': [str(k) for k in d.decision_ids],
      'items': [[item(dp), item(str(dp.id))] + ([item(dp.name)] if dp.name else [])
                for dp in spec.decision_points]}


class C12(Prop):
  id = 'C12'
  props_modules = ['PgProps.C12']
  driver = 'drv_c12'
  translators = [t_c12.run]
  case_timeout_s = 240
  jobs_quick = 8
  rule = ('specs as in C11 (random trees incl. float points, depth<=3, size bound<=300) decorated with '
          'locations (1-2 keys, str and int), names (35 %) and literal values (str / int / mixed, 60 %); '
          'per spec 3-5 members (first, last, random), each exported through flat / nested numbers, compact and '
          'verbose JSON and the 30 to_dict option triples (2 key types x 5 value types x 3 multi-choice modes; '
          'dna_spec keys are checked by the oracle), and producer chains of 1-5 operations from '
          '{next, clone, renumber, redict, rejson, swap, random, mutators.Uniform, recombinators.Uniform / KPoint} '
          '(for the evolution operators the model is given the raw tree they return and predicts its bindings); '
          'plus a family of conditional choices nested in conditional choices with all their members, and named float '
          'points inside the candidates of non-distinct multi-choices (several positions active, name_or_id keys); '
          'all look-ups (dna[dp], dna[id], dna[name], decision_ids, named_decisions) are made before and after every step; '
          'every decision point of the spec (active or not) must be answerable by id and by decision point, and every id a '
          'bound node advertises must resolve on that node; specs are built in steps (every part is inspected - decision_ids, '
          'get(id) - before it is composed); float literal values incl. pairs closer than 1e-6; permutation points '
          '(manyof(k) of k candidates with nested decisions) with from_dict of moved bound sub-DNAs and the PartiallyMapped / '
          'Order / Cycle crossovers as producers; a member with every float at 0.0 / its bound. Non-trivial: the member has at least 2 nodes; '
          'distinct: by case JSON.')
  trusted_base = [
      'harness/c11_geno.py reference of members (case generation) and swap_sites (which node Swap picks)',
      'Swap is driven by a scripted random source (shuffle = identity, sample = recorded pair)',
      'to_dict / from_dict are modelled (look-ups by id / name with list popping, candidate_index incl. its two regular '
      'expressions for ASCII digits), compared on the 30 option triples, and from_dict(to_dict(...)) = d is a Lean theorem '
      'for every triple under the decidable condition dictCond (evaluated by the driver; where it holds the code must round-trip)',
      'the verbose JSON form and the look-up structures (_decision_by_id, named_decisions, decision_ids, dna[dp/id/name]) are '
      'modelled and compared on every DNA (named_decisions only when no two decision points render to the same id: the '
      'code keys its intermediate dictionary by spec object, the model by id); node identity of look-up results is '
      'checked on the code only',
      'cache discipline: T-CACHE (translate/t_c12.py) lists every write to the two caches in pyglove/core/geno; that pg '
      'symbolic objects call _on_bound after every rebind and build clones through __init__ is trusted (and exercised by '
      'the look-ups made before and after every producer step)',
      'modelled, not verified: to_numbers, from_numbers, compact form and its parser, use_spec beliefs, ids '
      '(compared verbatim on every run)',
      'float literal values, hints, userdata, metadata and format() are outside the model',
  ]
  assumptions = ['decision-point names and location keys are plain identifiers (no dots / brackets)',
                 'a decision-point name is used by one definition only (enforced by Space._validate_space)',
                 'DNA objects are only built through the DNA constructor']

  # -- generation -------------------------------------------------------------------------
  def make_case(self, spec, rng, n_members=3, n_chains=2, all_members=False, permute_w=None, max_all=40):
    finite = G.is_finite(spec)
    if permute_w is None:
      permute_w = 3 if any(p['t'] == 'c' and p['k'] > 1 and not p['s'] for p in G.points(spec)) else 0
    members = []
    if finite and G.size_bound(spec) <= 300:
      allm = sorted(G.ref_all(spec), key=lambda t: repr(G.freeze(t)))
      members += [allm[0], allm[-1]]
      if all_members and len(allm) <= 40:
        members += allm if len(allm) <= max_all else [allm[i * len(allm) // max_all] for i in range(max_all)]
    for _ in range(n_members):
      members.append(G.ref_member(spec, rng))
    if not finite:
      members.append(G.ref_member(spec, rng, floats='edge'))   # floats that are exactly 0.0 / on their bound
    uniq, seen = [], set()
    for m in members:
      k = G.freeze(m)
      if k not in seen:
        seen.add(k)
        uniq.append(m)
    chains = []
    for _ in range(n_chains):
      start = rng.choice(uniq)
      cur = start
      ops = []
      opaque = False
      for _ in range(rng.randint(1, 5)):
        kind = rng.weighted([(3, 'next'), (2, 'clone'), (2, 'renumber'), (2, 'redict'), (1, 'rejson'),
                             (4, 'swap'), (2, 'random'), (5, 'uniform'), (3, 'recombine'), (permute_w, 'permute')])
        if kind == 'next' and not finite:
          kind = 'clone'
        if kind == 'permute':
          # sub-DNAs that are already bound move to other positions of their multi-choice: from_dict with moved
          # bound DNA values, and the permutation crossovers (which do the same)
          ops.append({'op': 'permute', 'kind': rng.choice(['redict', 'redict', 'pmx', 'order', 'cycle']),
                      'seed': rng.below(1 << 20), 'other': G.ref_member(spec, rng)})
          opaque = True
          continue
        if kind in ('uniform', 'recombine') and not G.points(spec):
          kind = 'clone'         # Uniform raises 'Immutable DNA' by design on a space without decisions
        if opaque and kind in ('swap', 'next'):
          kind = 'uniform' if G.points(spec) else 'clone'   # the reference no longer knows the current tree
        if kind == 'uniform':
          ops.append({'op': 'uniform', 'seed': rng.below(1 << 20)})
          opaque = True
          continue
        if kind == 'recombine':
          ops.append({'op': 'recombine', 'kind': rng.choice(['uniform', 'kpoint']), 'seed': rng.below(1 << 20),
                      'other': G.ref_member(spec, rng)})
          opaque = True
          continue
        if kind == 'swap':
          sites = [s for s in swap_sites(spec, cur) if not s[2]]
          if not sites:
            kind = 'renumber'
          else:
            path, k, _ = sites[0]
            i, j = rng.sample(list(range(k)), 2)
            ops.append({'op': 'swap', 'path': list(path), 'i': i, 'j': j})
            node = cur
            def sw(n):
              cs = list(n[1])
              cs[i], cs[j] = cs[j], cs[i]
              return [n[0], cs]
            cur = G.replace_at(cur, path, sw)
            continue
        if kind == 'random':
          if G.has_custom(spec):
            kind = 'clone'
          else:
            cur, script = G.ref_random(spec, rng)
            ops.append({'op': 'random', 'script': script})
            opaque = False
            continue
        if kind == 'next':
          ops.append({'op': 'next'})
          break          # the reference does not compute successors; end the chain here
        ops.append({'op': kind})
      chains.append({'start': start, 'ops': ops})
    return {'op': 'views', 'spec': spec, 'dnas': uniq, 'chains': chains}

  def generate(self, rng, tier):
    n = 55 if tier == 'quick' else 1500
    for i in range(n):
      allow_inf = (i % 4 == 3)
      spec = None
      for _ in range(40):
        spec = G.gen_spec(rng, allow_inf, 300)
        if G.has_custom(spec):
          continue
        if allow_inf and G.is_finite(spec):
          continue          # this stream must contain a float decision point
        if G.has_multi(spec) or rng.chance(0.4):
          break
      if G.has_custom(spec):
        spec = G.S([G.C(2, [[], [], []], True, False)])
      yield self.make_case(decorate(spec, rng), rng)
    # conditional choices inside conditional choices whose chosen candidate holds several decisions
    inner = [[G.C(2, [[], [], []], True, False)], [G.C(2, [[], []], False, True)],
             [G.C(1, [[], []]), G.C(1, [[], []])], [G.C(1, [[], []]), G.C(2, [[], [], []], True, True)],
             [G.C(1, [[], [G.C(2, [[], []], False, False)]])], [G.C(3, [[], [], []], True, False)]]
    import copy
    nested = []
    for x in inner:
      one = G.C(1, [copy.deepcopy(x), []])
      two = G.C(1, [[], [copy.deepcopy(one)]])
      three = G.C(1, [[copy.deepcopy(two)], []])
      nested += [one, two, three, G.S([copy.deepcopy(two), G.C(1, [[], []])]),
                 G.C(2, [[copy.deepcopy(one)], [], []], True, False)]
    for p in (nested if tier == 'quick' else nested * 3):
      yield self.make_case(decorate(copy.deepcopy(p), rng), rng, n_members=2, n_chains=2, all_members=True,
                           max_all=6 if tier == 'quick' else 40)
    # a NAMED float decision point inside the candidates of a multi-choice, several positions active
    for rep in range(1 if tier == 'quick' else 6):
      for k in (2, 3):
        for srt in (False, True):
          fl = lambda nm: G.F([0, 1], [1, 1], name=nm, loc=['r'])
          a = G.C(k, [[fl('rate')], [], [G.C(1, [[], []], loc=['z'])]], False, srt, loc=['x'])
          b = G.C(k, [[fl('rate'), G.C(1, [[], []], name='opt', loc=['o'])], []], False, srt, name='mc', loc=['y'])
          c = G.S([copy.deepcopy(a), G.C(1, [[], [G.F([0, 1], [2, 1], name='lr', loc=['w'])]], loc=['u'])])
          d = G.C(1, [[copy.deepcopy(a)], []], loc=['top'])
          for spec in (a, b, c, d):
            yield self.make_case(copy.deepcopy(spec), rng, n_members=3 if tier == 'quick' else 8, n_chains=2)
    # a NAMED multi-choice reached through several sub-choices of an outer (non-distinct) multi-choice
    for rep in range(1 if tier == 'quick' else 4):
      for k in (2, 3):
        inner = G.C(2, [[], [], []], rng.chance(0.5), False, name='m', loc=['in'])
        outer = G.C(k, [[copy.deepcopy(inner)], []], False, rng.chance(0.5), loc=['out'])
        twice = G.root_of([[0, G.kids_l([G.ref_member(inner, rng)])] for _ in range(k)])
        for spec in (outer, G.S([copy.deepcopy(outer), G.C(1, [[], []], name='z', loc=['z'])])):
          case = self.make_case(copy.deepcopy(spec), rng, n_members=2, n_chains=1)
          t = twice if spec is outer else G.root_of([twice, [0, []]])
          case['dnas'] = [t] + case['dnas'][:3]
          yield case
    # permutation points (manyof(k) of k candidates, distinct, unsorted) whose candidates carry nested decisions
    for rep in range(1 if tier == 'quick' else 8):
      for k in (2, 3, 4):
        cands = [[G.C(1, [[], [], []], loc=['op'])] if rng.chance(0.7) else
                 rng.choice([[], [G.C(1, [[], []], loc=['a']), G.C(1, [[], []], loc=['b'])],
                             [G.F([0, 1], [1, 1], loc=['r'])]]) for _ in range(k)]
        perm = G.C(k, cands, True, False, loc=['perm'], name='pm' if rng.chance(0.4) else None)
        for spec in (perm, G.S([G.F([0, 1], [1, 1], loc=['lr']), copy.deepcopy(perm)]),
                     G.C(1, [[copy.deepcopy(perm)], []], loc=['top'])):
          spec = copy.deepcopy(spec)
          yield self.make_case(spec, rng, n_members=2, n_chains=3, permute_w=30)
    fam = [p for p in G.family_points(max_n=3, max_k=3) if G.size_bound(p) <= 60]
    picked = rng.sample(fam, 24) if tier == 'quick' else fam
    for p in picked:
      import copy
      yield self.make_case(decorate(copy.deepcopy(p), rng), rng, n_members=2, n_chains=2)

  def search_cases(self, rng, tier, broken):
    # quick: one more pass of the (light) quick generator, so that the search ends within about a minute
    for _ in range(1 if tier == 'quick' else 2):
      yield from self.generate(rng.fork(), tier)

  def model_request(self, case):
    return case

  def model_request_with_impl(self, case, impl_out):
    """The mutators / recombinators draw from random.Random: the model is given the raw tree they
    returned and predicts the node bindings and views of that tree (alignment), not the tree."""
    chains = []
    for ch, steps in zip(case['chains'], impl_out['model']['chains']):
      ops = []
      for i, op in enumerate(ch['ops']):
        if op['op'] in ('uniform', 'recombine', 'permute'):
          st = steps[i] if i < len(steps) else None
          if st is None or 'error' in st:
            break
          ops.append({'op': 'given', 'tree': st['norm']})
        else:
          ops.append(op)
      chains.append({'start': ch['start'], 'ops': ops})
    return dict(case, chains=chains)

  # -- implementation ---------------------------------------------------------------------
  def views(self, spec, spec_j, d, history=True):
    from pyglove.core import geno
    import pyglove.core.symbolic as pg_sym
    out, obs = {}, {}
    out['norm'] = H.tree_of(d)
    flat = d.to_numbers()
    out['flat'] = [{'f': list(v.as_integer_ratio())} if isinstance(v, float) else v for v in flat]
    nested = d.to_numbers(flatten=False)
    out['nested'] = nest_j(nested)
    compact = d.to_json(compact=True, type_info=False)
    out['compact'] = nest_j(compact)
    # the verbose form: value + children of the root, every child as ITS to_json() (compact dicts)
    vj = d.to_json(compact=False)
    out['verbose'] = {
        'value': ({'f': list(vj['value'].as_integer_ratio())} if isinstance(vj['value'], float) else vj['value']),
        'children': [
            nest_j(pg_sym.from_json(c['value'])) if isinstance(c, dict) and c.get('format') == 'compact'
            else {'not-compact': sorted(c) if isinstance(c, dict) else str(type(c))}
            for c in vj['children']]}

    def attempt(fn):
      try:
        r = fn()
        return None if r is None else H.tree_of(r)
      except CaseTimeout:
        raise
      except Exception as e:   # pylint: disable=broad-except
        return 'error:' + type(e).__name__
    out['from_numbers'] = attempt(lambda: geno.DNA.from_numbers(flat, spec))
    out['parse_nested'] = attempt(lambda: geno.DNA(nested))
    out['parse_compact'] = attempt(lambda: geno.DNA(compact))
    out['parse_verbose'] = attempt(lambda: pg_sym.from_json(d.to_json(compact=False)))
    out['beliefs'] = beliefs(d)
    out['lookup_tables'] = lookup_tables(d, spec)
    dicts = []
    for kt, vt, mk in GRID:
      dicts.append(canon_dict(d.to_dict(key_type=kt, value_type=vt, multi_choice_key=mk)))
    out['dicts'] = dicts
    # oracle-only observations
    obs['bind_nested'] = attempt(lambda: geno.DNA(nested, spec=spec))
    obs['json_compact'] = attempt(lambda: pg_sym.from_json(d.to_json()))
    obs['json_verbose'] = attempt(lambda: pg_sym.from_json(d.to_json(compact=False)))
    back = []
    for kt, vt, mk in GRID + [('dna_spec', vt, mk) for vt in ('value', 'dna') for mk in MULTI]:
      dd = d.to_dict(key_type=kt, value_type=vt, multi_choice_key=mk)
      back.append(attempt(lambda: geno.DNA.from_dict(dict(dd), spec, use_ints_as_literals=(vt == 'literal'))))
    obs['from_dict'] = back
    out['from_dicts'] = [None if isinstance(x, str) else x for x in back[:len(GRID)]]
    obs['spec_keys_equal_id_keys'] = all(
        canon_dict(d.to_dict(key_type='dna_spec', value_type=vt, multi_choice_key=mk)) ==
        canon_dict(d.to_dict(key_type='id', value_type=vt, multi_choice_key=mk))
        for vt in ('value', 'choice') for mk in MULTI)
    # lookups: by id / by decision point / by name against a DNA rebuilt from the raw numbers
    look = []
    try:
      rebuilt = geno.DNA.from_numbers(flat, spec)
    except CaseTimeout:
      raise
    except Exception as e:   # pylint: disable=broad-except
      rebuilt = None
      look.append(['from_numbers(to_numbers(d))', 'error:' + type(e).__name__, ''])
    for dp in (spec.decision_points if rebuilt is not None else []):
      for key in (dp, str(dp.id)) + ((dp.name,) if dp.name else ()):
        def get(x):
          try:
            return canon_value(x[key])
          except CaseTimeout:
            raise
          except Exception as e:   # pylint: disable=broad-except
            return 'error:' + type(e).__name__
        a, b = get(d), get(rebuilt)
        look.append(True if a == b else [str(key)[:40], a, b])
        if isinstance(a, str) and a.startswith('error:'):
          # every decision point of the spec can be looked up: the decision made there, None if inactive
          (obs.setdefault('name_lookup_raises', []) if key is dp.name else
           obs.setdefault('lookup_raises', [])).append([str(dp.id), 'by ' + (
               'name %r' % key if key is dp.name else 'id' if isinstance(key, str) else 'decision point'), a])
    obs['lookups'] = look
    if rebuilt is not None and history:
      obs['view_history'] = self.view_history(spec, d, flat)
      obs['crash_history'] = self.crash_history(spec, d, flat)
    # the ids every bound node advertises resolve on that node
    bad_ids, bad_sub = [], []

    def walk(n):
      if n.spec is not None:
        try:
          ids = list(n.decision_ids)
        except CaseTimeout:
          raise
        except Exception as e:   # pylint: disable=broad-except
          ids = []
          bad_ids.append([str(getattr(n.spec, 'id', '?')), 'decision_ids', type(e).__name__])
        for k in ids:
          try:
            n[k]
          except CaseTimeout:
            raise
          except Exception as e:   # pylint: disable=broad-except
            sub = getattr(n.spec, 'is_categorical', False) and n.spec.is_subchoice
            (bad_sub if sub and str(k) == str(n.spec.parent_spec.id) else bad_ids).append(
                [str(n.spec.id), str(k), type(e).__name__])
      for c in n.children:
        walk(c)
    walk(d)
    obs['node_ids_unresolved'] = bad_ids[:5]
    obs['subchoice_node_parent_id_unresolved'] = bad_sub[:5]
    obs['lookups_identity'] = lookups(d, spec)[1]
    return out, obs

  def view_history(self, spec, d, flat):
    """A history on ONE DNA object: every dictionary view, (the returned dicts and lists are scribbled on),
    look-ups by name / id / decision point, every view again - each view must be the view of a DNA freshly
    rebuilt from the raw numbers."""
    from pyglove.core import geno
    combos = [(kt, vt, mk, ia) for kt in KEY_TYPES + ['dna_spec'] for vt in VALUE_TYPES for mk in MULTI
              for ia in (False, True)]

    def view(x, c, scribble=False):
      try:
        v = x.to_dict(key_type=c[0], value_type=c[1], multi_choice_key=c[2], include_inactive_decisions=c[3])
        out = canon_dict(v)
        if scribble:
          for val in v.values():
            if isinstance(val, list):
              val.append('scribble')
          v['scribble'] = 0
        return out
      except CaseTimeout:
        raise
      except Exception as e:   # pylint: disable=broad-except
        return 'error:' + type(e).__name__

    h = H.mk_dna(H.tree_of(d))
    h.use_spec(spec)
    fresh = geno.DNA.from_numbers(flat, spec)
    want = [view(fresh, c) for c in combos]
    bad = []
    first = [view(h, c, scribble=True) for c in combos]
    lookups(h, spec)
    second = [view(h, c, scribble=True) for c in combos]
    lookups(h, spec)
    third = [view(h, c) for c in combos]
    for c, w, a, b2, c3 in zip(combos, want, first, second, third):
      for label, got in (('first', a), ('after look-ups', b2), ('third', c3)):
        if got != w:
          bad.append([list(c), label, str(got)[:200], str(w)[:200]])
          break
    return bad[:3]

  def crash_history(self, spec, d, flat):
    """A crash-point history on ONE object: look-ups on the still unbound DNA (they raise), use_spec,
    the same look-ups again - they must be those of a DNA freshly rebuilt from the raw numbers."""
    from pyglove.core import geno
    u = H.mk_dna(H.tree_of(d))
    raised = []
    for dp in spec.decision_points:
      for key in ((dp.name,) if dp.name else ()) + (str(dp.id),):
        try:
          u[key]
          raised.append(False)
        except CaseTimeout:
          raise
        except Exception:   # pylint: disable=broad-except
          raised.append(True)
    for fn in (lambda: u.named_decisions, lambda: u.decision_ids, lambda: u.to_dict()):
      try:
        fn()
      except CaseTimeout:
        raise
      except Exception:   # pylint: disable=broad-except
        pass
    try:
      u.use_spec(spec)
      la, ident = lookups(u, spec)
      lb, _ = lookups(geno.DNA.from_numbers(flat, spec), spec)
      return {'same': la == lb and ident, 'detail': None if la == lb else
              [[str(x)[:80], str(y)[:80]] for x, y in zip(la, lb) if x != y][:2]}
    except CaseTimeout:
      raise
    except Exception as e:   # pylint: disable=broad-except
      return {'same': False, 'detail': 'error:' + type(e).__name__}

  def step_views(self, spec, d):
    from pyglove.core import geno
    o = {'norm': H.tree_of(d), 'beliefs': beliefs(d),
         'dict': canon_dict(d.to_dict()),
         'dict2': canon_dict(d.to_dict(key_type='name_or_id', value_type='choice_and_literal', multi_choice_key='both'))}
    try:
      rebuilt = geno.DNA.from_numbers(d.to_numbers(), spec)
    except CaseTimeout:
      raise
    except Exception:   # pylint: disable=broad-except
      return o, {'same_as_rebuilt': False}
    la, ident = lookups(d, spec)
    lb, _ = lookups(rebuilt, spec)
    ob = {'lookups_same': la == lb, 'lookups_identity': ident,
          'same_as_rebuilt': (beliefs(rebuilt) == o['beliefs'] and canon_dict(rebuilt.to_dict()) == o['dict']
                              and canon_dict(rebuilt.to_dict(key_type='name_or_id', value_type='choice_and_literal',
                                                             multi_choice_key='both')) == o['dict2'])}
    return o, ob

  def permute(self, spec, cur, op):
    """A DNA assembled by DNA.from_dict from sub-DNAs that are already bound to OTHER positions of their
    multi-choice: directly (two values of the dictionary view exchanged), or by a permutation crossover."""
    from pyglove.core import geno
    from pyglove.ext.evolution import recombinators
    r = _random.Random(op['seed'])
    if op['kind'] == 'redict':
      dd = cur.to_dict(value_type='dna')
      groups = {}
      for dp in spec.decision_points:
        if dp.is_categorical and dp.is_subchoice and not dp.parent_spec.sorted and str(dp.id) in dd:
          groups.setdefault(str(dp.parent_spec.id), []).append(str(dp.id))
      groups = [g for g in groups.values() if len(g) >= 2]
      if not groups:
        return cur.clone(deep=True)
      g = r.choice(groups)
      i, j = r.sample(range(len(g)), 2)
      dd[g[i]], dd[g[j]] = dd[g[j]], dd[g[i]]
      return geno.DNA.from_dict(dd, spec)
    other = H.mk_dna(op['other'])
    other.use_spec(spec)
    cls = {'pmx': recombinators.PartiallyMapped, 'order': recombinators.Order, 'cycle': recombinators.Cycle}[op['kind']]
    outs = cls(seed=op['seed']).recombine([cur, other], geno.AttributeDict(), 0)
    outs = sorted(outs, key=lambda x: repr(x.to_numbers()))
    moved = [x for x in outs if x.to_numbers() != cur.to_numbers()]
    return (moved or outs)[0]

  def impl(self, case):
    from pyglove.core import geno
    import pyglove.core.symbolic as pg_sym
    from pyglove.ext.evolution import mutators
    spec_j = case['spec']
    spec = H.build_spec(spec_j, touch=True)
    out, obs = {'dnas': [], 'chains': []}, {'dnas': [], 'chains': []}
    # no two decision points render to the same id: then the spec-keyed intermediate dictionary of
    # named_decisions is the id-keyed one of the model, and the look-up tables are compared
    all_ids = [str(dp.id) for dp in spec.decision_points]
    out['ids_unique'] = len(set(all_ids)) == len(all_ids)
    out['dp_names'] = [{'name': dp.name} for dp in spec.decision_points]
    for t in case['dnas']:
      d = H.mk_dna(t)
      d.use_spec(spec)
      o, ob = self.views(spec, spec_j, d, history=len(out['dnas']) < 3)
      out['dnas'].append(o)
      obs['dnas'].append(ob)
    for ch in case['chains']:
      cur = H.mk_dna(ch['start'])
      cur.use_spec(spec)
      steps, sobs = [], []
      for op in ch['ops']:
        try:
          k = op['op']
          lookups(cur, spec)     # look-ups BEFORE the step (they fill the caches of the DNA)
          if k == 'next':
            cur = spec.next_dna(cur)
          elif k == 'clone':
            cur = cur.clone(deep=True)
          elif k == 'renumber':
            cur = geno.DNA.from_numbers(cur.to_numbers(), spec)
          elif k == 'redict':
            cur = geno.DNA.from_dict(cur.to_dict(), spec)
          elif k == 'rejson':
            cur = geno.DNA(pg_sym.from_json(cur.to_json()).to_json(compact=True, type_info=False), spec=spec)
          elif k == 'swap':
            m = mutators.Swap()
            m._random = ScriptedRandom2([{'sample': [op['i'], op['j']]}])   # pylint: disable=protected-access
            cur = m.mutate(cur)
          elif k == 'random':
            cur = spec.random_dna(H.ScriptedRandom(op['script']))
          elif k == 'uniform':
            cur = mutators.Uniform(seed=op['seed']).mutate(cur)
          elif k == 'recombine':
            from pyglove.ext.evolution import recombinators
            other = H.mk_dna(op['other'])
            other.use_spec(spec)
            r = (recombinators.Uniform(seed=op['seed']) if op['kind'] == 'uniform'
                 else recombinators.KPoint(1, seed=op['seed']))
            cur = r.recombine([cur, other], geno.AttributeDict(), 0)[0]
          elif k == 'permute':
            cur = self.permute(spec, cur, op)
          if cur is None:
            steps.append(None)
            break
          o, ob = self.step_views(spec, cur)
          steps.append(o)
          sobs.append(ob)
        except CaseTimeout:
          raise
        except Exception as e:   # pylint: disable=broad-except
          steps.append({'error': '%s in %s: %s' % (type(e).__name__, op['op'], str(e)[:120])})
          break
      out['chains'].append(steps)
      obs['chains'].append(sobs)
    return {'model': out, 'obs': obs}

  def compare(self, case, impl_out, model_out):
    a, b = impl_out['model'], model_out
    diffs = []

    def chk(name, x, y):
      if x != y:
        diffs.append('%s: impl=%s model=%s' % (name, str(x)[:260], str(y)[:260]))

    def sort_dict(d):
      return sorted(d, key=lambda kv: kv[0]) if isinstance(d, list) else d

    for i, (da, db) in enumerate(zip(a['dnas'], b['dnas'])):
      for k in ('norm', 'flat', 'nested', 'compact', 'verbose', 'from_numbers', 'parse_nested', 'parse_compact',
                'parse_verbose', 'beliefs'):
        chk('dna%d.%s' % (i, k), da[k], db.get(k))
      if db.get('dicts') is not None:
        for (kt, vt, mk), x, y in zip(GRID, da['dicts'], db['dicts']):
          chk('dna%d.to_dict(%s,%s,%s)' % (i, kt, vt, mk), x, sort_dict(y))
        for (kt, vt, mk), x, y in zip(GRID, da['from_dicts'], db.get('from_dicts') or []):
          chk('dna%d.from_dict(to_dict(%s,%s,%s))' % (i, kt, vt, mk), x, y)
        if a.get('ids_unique'):
          def norm_items(t):
            # dna[name] of an INACTIVE named decision point: KeyError before fix C12-F400, None after it
            if not t or not t.get('items'):
              return t
            dead = {k for k, v in t.get('named', []) if v is None}
            names = [p.get('name') for p in dp_names]
            items = []
            for it, nm in zip(t['items'], names):
              items.append(it[:2] + ['inactive-name'] if len(it) == 3 and nm in dead and it[2] in (None, 'KeyError')
                           else it)
            return dict(t, items=items)
          dp_names = a.get('dp_names') or []
          ta, tb = norm_items(da['lookup_tables']), norm_items(db.get('lookup_tables') or {})
          for k in ('by_id', 'named', 'ids', 'items'):
            chk('dna%d.lookup_tables.%s' % (i, k), ta[k], (tb or {}).get(k))
        # C12_dict_roundtrip: where the model's decidable condition holds the CODE must round-trip
        for (kt, vt, mk), x, cond in zip(GRID, da['from_dicts'], db.get('dict_conds') or []):
          if cond and x != da['norm']:
            diffs.append('dna%d: dictCond(%s,%s,%s) holds but from_dict(to_dict) = %s' % (i, kt, vt, mk, x))
    for i, (ca, cb) in enumerate(zip(a['chains'], b['chains'])):
      for j, (sa, sb) in enumerate(zip(ca, cb)):
        if sa is None or sb is None:
          chk('chain%d.step%d' % (i, j), sa, sb)
          continue
        if 'error' in sa:
          chk('chain%d.step%d' % (i, j), sa, sb)
          continue
        op = case['chains'][i]['ops'][j]['op']
        chk('chain%d.step%d(%s).norm' % (i, j, op), sa['norm'], sb.get('norm'))
        chk('chain%d.step%d(%s).beliefs' % (i, j, op), sa['beliefs'], sb.get('beliefs'))
        chk('chain%d.step%d(%s).dict' % (i, j, op), sa['dict'], sort_dict(sb.get('dict')))
        chk('chain%d.step%d(%s).dict2' % (i, j, op), sa['dict2'], sort_dict(sb.get('dict2')))
      if not any(isinstance(x, dict) and 'error' in x for x in ca):
        chk('chain%d.len' % i, len(ca), len(cb))
    return '; '.join(diffs[:4]) if diffs else None

  # -- the property itself ------------------------------------------------------------------
  def view_ok(self, spec, vt, kt):
    """Is from_dict(to_dict(...)) promised to be the identity for this spec / option pair?"""
    for p in G.points(spec):
      if p['t'] == 'c' and p.get('lits') is not None and vt == 'literal':
        lits = [json.dumps(x, sort_keys=True) if isinstance(x, dict) else x for x in p['lits']]
        if len(set(map(str, lits))) != len(lits) or len(set(lits)) != len(lits):
          return False
    return True

  def oracle(self, case, out):
    spec = case['spec']
    m, obs = out['model'], out['obs']
    for t, o, ob in zip(case['dnas'], m['dnas'], obs['dnas']):
      me = o['norm']
      if o['from_numbers'] != me:
        return {'signature': 'from-numbers-not-inverse', 'what': 'from_numbers(to_numbers(%s)) = %s' % (me, o['from_numbers'])}
      if ob['bind_nested'] != me:
        return {'signature': 'nested-numbers-not-inverse',
                'what': 'DNA(d.to_numbers(flatten=False)=%s, spec) = %s for d = %s' % (o['nested'], ob['bind_nested'], me)}
      if ob['json_compact'] != me or ob['json_verbose'] != me:
        return {'signature': 'json-not-inverse', 'what': 'from_json(to_json(d)) = %s / %s for d = %s' % (
            ob['json_compact'], ob['json_verbose'], me)}
      grid = GRID + [('dna_spec', vt, mk) for vt in ('value', 'dna') for mk in MULTI]
      for (kt, vt, mk), back in zip(grid, ob['from_dict']):
        if back != me and self.view_ok(spec, vt, kt):
          return {'signature': 'from-dict-not-inverse:%s' % vt,
                  'what': 'from_dict(to_dict(key_type=%s, value_type=%s, multi_choice_key=%s)) = %s for d = %s, spec %s'
                          % (kt, vt, mk, back, me, G.spec_key(spec)[:400])}
      if not ob['spec_keys_equal_id_keys']:
        return {'signature': 'dna-spec-keys-differ', 'what': 'to_dict(key_type=dna_spec) differs from key_type=id'}
      if not ob.get('lookups_identity', True):
        return {'signature': 'lookup-foreign-node', 'what': 'a look-up on %s handed out a node of another DNA' % me}
      if ob.get('view_history'):
        return {'signature': 'view-differs-in-history',
                'what': 'on one DNA object (views, look-ups, views again) to_dict%s differs from the view of a freshly '
                        'rebuilt DNA (%s): %s vs %s; d = %s, spec %s' % (
                            tuple(ob['view_history'][0][0]), ob['view_history'][0][1], ob['view_history'][0][2],
                            ob['view_history'][0][3], me, G.spec_key(spec)[:400])}
      if ob.get('crash_history') and not ob['crash_history']['same']:
        return {'signature': 'lookup-stale-after-failed-lookup',
                'what': 'look-ups on the unbound DNA (raise), use_spec, look-ups again: they differ from those of a '
                        'rebuilt DNA: %s; d = %s, spec %s' % (ob['crash_history']['detail'], me, G.spec_key(spec)[:400])}
      if ob.get('lookup_raises'):
        return {'signature': 'lookup-raises',
                'what': 'dna[key] raises for a decision point of the spec: %s (d = %s, spec %s)' % (
                    ob['lookup_raises'][:3], me, G.spec_key(spec)[:400])}
      if ob.get('node_ids_unresolved'):
        return {'signature': 'node-ids-unresolved',
                'what': 'node.decision_ids lists ids that node[id] cannot resolve: %s (d = %s, spec %s)' % (
                    ob['node_ids_unresolved'][:3], me, G.spec_key(spec)[:400])}
      bad = [x for x in ob['lookups'] if x is not True]
      if bad:
        return {'signature': 'lookup-differs-from-rebuilt', 'what': 'd[key] differs from rebuilt[key]: %s' % bad[:3]}
    for ch, steps, sobs in zip(case['chains'], m['chains'], obs['chains']):
      for op, st in zip(ch['ops'], steps):
        if st is not None and 'error' in st:
          return {'signature': 'producer-raises:' + op['op'], 'what': st['error']}
      for op, ob in zip(ch['ops'], sobs):
        if ob.get('lookups_same') is False or ob.get('lookups_identity') is False:
          return {'signature': 'lookup-stale-after:' + op['op'],
                  'what': 'after %s, dna[decision point / id / name], decision_ids or named_decisions differ from '
                          'those of the DNA rebuilt from the raw numbers, or hand out a node of another DNA '
                          '(same=%s, identity=%s; start %s, ops %s)' % (
                              op['op'], ob.get('lookups_same'), ob.get('lookups_identity'), ch['start'], ch['ops'])}
        if not ob['same_as_rebuilt']:
          return {'signature': 'misaligned-after:' + op['op'],
                  'what': 'after %s the views / node bindings differ from those of a DNA rebuilt from the raw numbers '
                          '(start %s, ops %s)' % (op['op'], ch['start'], ch['ops'])}
    # last (a known finding must not hide anything else)
    for o, ob in zip(m['dnas'], obs['dnas']):
      if ob.get('subchoice_node_parent_id_unresolved'):
        return {'signature': 'subchoice-node-parent-id-unresolved',
                'what': 'the node bound to sub-choice i >= 1 of a multi-choice lists the multi-choice id in '
                        'decision_ids, but node[that id] raises: %s, d = %s' % (
                            ob['subchoice_node_parent_id_unresolved'][:3], o['norm'])}
    for o, ob in zip(m['dnas'], obs['dnas']):
      if ob.get('name_lookup_raises'):
        return {'signature': 'lookup-by-name-inactive-raises',
                'what': 'dna[name] raises for an inactive named decision point (dna[id] answers None): %s, d = %s' % (
                    ob['name_lookup_raises'][:3], o['norm'])}
    return None

  def nontrivial(self, case, out):
    if 'model' not in out:
      return False
    return any(len(list(G.nodes(t))) >= 2 for t in case['dnas'])

  def describe(self, case, out):
    if 'model' not in out:
      return ['timeout']
    spec = case['spec']
    h = ['finite' if G.is_finite(spec) else 'non-finite', 'depth:%d' % G.depth(spec)]
    for p in G.points(spec):
      if p['t'] == 'c':
        h.append('point:' + ('single' if p['k'] == 1 else 'multi'))
        h.append('lits:' + ('none' if p.get('lits') is None else type(p['lits'][0]).__name__))
      else:
        h.append('point:float')
      h.append('named' if p.get('name') else 'unnamed')
      h.append('loc-keys:%d' % len(p.get('loc') or []))
    for t in case['dnas']:
      n = len(list(G.nodes(t)))
      h.append('dna-nodes:' + ('1' if n == 1 else '2-4' if n < 5 else '5-9' if n < 10 else '>=10'))
    for ch, steps in zip(case['chains'], out['model']['chains']):
      for op, st in zip(ch['ops'], steps):
        h.append('op:' + op['op'] + (':end' if st is None else ':error' if 'error' in st else ''))
    return h

  def shrink_candidates(self, case):
    if len(case['dnas']) + len(case['chains']) > 1:
      for d in case['dnas']:
        yield dict(case, dnas=[d], chains=[])
      for ch in case['chains']:
        yield dict(case, dnas=[], chains=[ch])
    for ch in case['chains']:
      if len(ch['ops']) > 1 and not case['dnas'] and len(case['chains']) == 1:
        yield dict(case, chains=[dict(ch, ops=ch['ops'][:-1])])


PROP = C12()
