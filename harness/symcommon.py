"""Shared machinery of the symbolic-forest checks (C01, C07).

A case is a *history*: {"ops": [raw op, ...]} where every reference to the state is relative to
the state the operation meets (node number modulo the number of nodes, "existing key number j",
"len + d" indices), because cases are generated before anything is executed. `Runner` resolves
these descriptions against the real pyglove objects; lean/Driver/SymGlue.lean resolves them
against the model state with the same rules.

Raw values (VE):  null | "M" (MISSING) | int | ["s", n] (the text 's<n>') | ["q"] (fresh plain
object) | ["r", n] (existing node number n) | ["d", [sealed, accW, partial], [[key, VE]...]] |
["l", flags, [VE...]] | ["o", cls, flags, [[field number, VE]...]].
Keys: ["k", j] (the text 'k<j>') | ["i", j] | ["e", j] (existing key number j of the container) |
["abs", i] | ["len", d] | ["neg", d] (integers relative to the container's length).

After every step the runner dumps every node reachable from every handle it holds (roots in a
canonical order) and evaluates C01 on the real objects.
"""

import contextlib
import operator

DEFAULT_FLAGS = [False, True, False]
LIST_OPS = ('lset', 'ldel', 'lappend', 'linsert', 'lextend', 'liadd', 'lpop', 'lremove', 'lclear',
            'lsort', 'lreverse', 'limul', 'lslice', 'ldelslice')
DICT_OPS = ('dset', 'ddel', 'dpop', 'dpopitem', 'dclear', 'dsetdefault', 'dupdate', 'dior')
OBJ_OPS = ('oset',)
TL_OPS = ('tlset', 'tlappend', 'tlins', 'tldel', 'tlpop')     # lists typed `List(Object(C0))`


class Opq:
  """A non-symbolic leaf object with mutable inner state (identity is what the dumps show)."""

  def __init__(self):
    self.inner = [0]

  def __eq__(self, other):
    return isinstance(other, Opq) and self.inner == other.inner

  def __ne__(self, other):
    return not self.__eq__(other)

  __hash__ = object.__hash__


class Aliased(Exception):
  pass


_ENV = {}
_STR = {}


def env():
  """pyglove and the test classes, created once per worker process."""
  if not _ENV:
    import pyglove as pg   # pylint: disable=import-outside-toplevel

    @pg.members([('k0', pg.typing.Any(default=None)), ('k1', pg.typing.Any(default=None))])
    class C0(pg.Object):
      allow_symbolic_assignment = True

    @pg.members([('k0', pg.typing.Any(default=None)), ('k1', pg.typing.Any(default=None)),
                 ('k2', pg.typing.Any(default=None))])
    class C1(pg.Object):
      allow_symbolic_assignment = True

    _ENV.update(pg=pg, classes=[C0, C1], tl_spec=pg.typing.List(pg.typing.Object(C0)))
  return _ENV


def tree_cfg():
  """Which behaviour of the tree under test the model has to mirror (fixes that are not in the
  pinned tree yet are detected by their witness)."""
  pg = env()['pg']
  l = pg.List([0, 0])
  x = pg.Dict()
  l[1:2] = [x]
  return {'f225': l[1] is x}


def _prefix(a, b):
  return len(a) <= len(b) and all(x == y and type(x) is type(y) for x, y in zip(a, b))


# keys that look like path expressions (a key is one path component, whatever it contains)
SPECIAL_KEYS = {4: 'm.c', 5: 'w[0]', 6: 'a b', 7: 'x]y.'}
SPECIAL_KEYS_REV = {v: k for k, v in SPECIAL_KEYS.items()}


def key_text(j):
  return SPECIAL_KEYS.get(j, 'k%d' % j)


class Runner:
  """Executes a history on the real pyglove."""

  def __init__(self):
    e = env()
    self.pg = e['pg']
    self.classes = e['classes']
    self.tl_spec = e['tl_spec']
    self.roots = []
    self.serial = {}      # id(obj) -> serial number
    self.keep = []        # keeps every object ever seen alive (id() stays unique)
    self.opq_serial = {}

  # -- structure ---------------------------------------------------------------------------
  def is_node(self, v):
    return isinstance(v, self.pg.Symbolic)

  def kind(self, n):
    pg = self.pg
    if isinstance(n, pg.List):
      return 'l' if n.value_spec is None else 'tl'
    if isinstance(n, pg.Dict):
      return 'd'
    for i, c in enumerate(self.classes):
      if type(n) is c:
        return ['o', i]
    if type(n) is pg.Ref:
      return ['o', 2]
    if type(n) is pg.symbolic.ValueFromParentChain:
      return ['o', 3]
    return ['?', type(n).__name__]

  def children(self, n):
    return list(n.sym_items())

  def all_nodes(self):
    out, seen = [], set()

    def rec(n):
      if id(n) in seen:
        raise Aliased()
      seen.add(id(n))
      out.append(n)
      for _, c in self.children(n):
        if self.is_node(c):
          rec(c)
    for r in self.roots:
      rec(r)
    return out

  def sid(self, o):
    if id(o) not in self.serial:
      self.serial[id(o)] = len(self.serial)
      self.keep.append(o)
    return self.serial[id(o)]

  # -- resolution (mirror of SymGlue.lean) ---------------------------------------------------
  def pick(self, nodes, fam, n):
    if fam == 'd':
      c = [x for x in nodes if self.kind(x) == 'd']
    elif fam == 'l':
      c = [x for x in nodes if self.kind(x) == 'l']
    elif fam == 'tl':
      c = [x for x in nodes if self.kind(x) == 'tl']
    elif fam == 'o':
      c = [x for x in nodes if self.kind(x) in (['o', 0], ['o', 1])]
    else:
      c = nodes
    return c[n % len(c)] if c else None

  def resolve_key(self, cont, j):
    its = self.children(cont) if cont is not None else []
    ln = len(its)
    tag, n = j[0], j[1]
    if tag == 'k':
      return key_text(abs(n))
    if tag in ('i', 'abs'):
      return n
    if tag == 'len':
      return ln + n
    if tag == 'neg':
      return -ln + n
    if tag == 'e':
      if its:
        return its[abs(n) % ln][0]
      return 0 if (cont is not None and self.kind(cont) in ('l', 'tl')) else key_text(0)
    return key_text(0)

  def resolve_idx(self, cont, j):
    k = self.resolve_key(cont, j)
    return k if isinstance(k, int) else 0

  def subtree_ids(self, n):
    out = set()

    def rec(x):
      out.add(id(x))
      for _, c in self.children(x):
        if self.is_node(c):
          rec(c)
    rec(n)
    return out

  def resolve_ve(self, cx, used, j):
    """-> resolved VE: ('atom', value) | ('ref', obj) | ('node', kind, flags, [(key, ve)])."""
    pg = self.pg
    if j is None:
      return ('atom', None)
    if j == 'M':
      return ('atom', pg.MISSING_VALUE)
    if isinstance(j, int):
      return ('atom', j)
    tag = j[0]
    if tag == 's':
      # one string object per text (like None and small ints), so that `is` agrees with `==`
      return ('atom', _STR.setdefault(abs(j[1]), 's%d' % abs(j[1])))
    if tag == 'q':
      return ('opq',)
    if tag == 'T':
      return ('tup', abs(j[1]) % 4)
    if tag == 'tl':
      # a typed list is constructed from fresh instances of C0
      items = []
      for i, x in enumerate(j[1]):
        e = self.resolve_ve(cx, used, x)
        if e[0] == 'node' and e[1] == ['o', 0]:
          e = ('node', ['o', 0], e[2], [(k, self.plain_only(y)) for k, y in e[3]])
        else:
          e = ('node', ['o', 0], list(DEFAULT_FLAGS), [])
        items.append((i, e))
      return ('tlist', items)
    if tag == 'I':
      return ('inferred',)
    if tag == 'R':
      if len(j) == 1:
        return ('mkref', None)
      nodes = cx['nodes']
      if not nodes:
        return ('atom', None)
      o = nodes[abs(j[1]) % len(nodes)]
      if id(o) in used or (not cx['unsafe'] and self.same_root(cx, o)):
        return ('atom', None)
      return ('mkref', o)
    if tag == 'r':
      nodes = cx['nodes']
      if not nodes:
        return ('atom', None)
      o = nodes[abs(j[1]) % len(nodes)]
      diverges = False
      if cx['target'] is not None and o.sym_parent is None:
        # F30 / F78: moving `o` under a container one of whose believed ancestors lives in `o`
        sub = self.subtree_ids(o)
        c, steps = cx['target'], 0
        while c is not None and steps <= cx['fuel']:
          if id(c) in sub:
            diverges = True
            break
          c = c.sym_parent
          steps += 1
      self_ref = (type(o) is pg.Ref and self.is_node(o.value) and self.same_root(cx, o.value))
      # (a spec-bound list is not offered by itself: an object field that receives it rewrites
      # the offered list's allow_partial before the copy is made — F121, outside the model)
      if id(o) in used or self.kind(o) == 'tl' or ((diverges or self_ref) and not cx['unsafe']):
        return ('atom', None)
      if o.sym_parent is None:
        # a parentless node will be moved: its whole subtree is then out of reach for this call
        used.update(self.subtree_ids(o))
      used.add(id(o))
      return ('ref', o)
    if tag == 'd':
      items = []
      for k, v in j[2]:
        key = self.resolve_key(None, k)
        if any(key == x[0] and type(key) is type(x[0]) for x in items):
          continue
        items.append((key, self.resolve_ve(cx, used, v)))
      return ('node', 'd', list(j[1]), items)
    if tag == 'l':
      return ('node', 'l', list(j[1]), [(i, self.resolve_ve(cx, used, v)) for i, v in enumerate(j[2])])
    if tag == 'o':
      cls = abs(j[1]) % 2
      items = []
      for fi, v in j[3]:
        key = key_text(abs(fi) % (cls + 2))
        if any(key == x[0] for x in items):
          continue
        items.append((key, self.resolve_ve(cx, used, v)))
      fl = list(j[2])
      return ('node', ['o', cls], [fl[0], True, fl[2]], items)
    return ('atom', None)

  def believed_root(self, o, fuel):
    steps = 0
    while o.sym_parent is not None and steps <= fuel:
      o = o.sym_parent
      steps += 1
    return o

  def same_root(self, cx, o):
    """does `o` (believe to) live in the tree written to?"""
    if cx['target'] is None:
      return False
    return self.believed_root(o, cx['fuel']) is self.believed_root(cx['target'], cx['fuel'])

  def plain_only(self, ve):
    """values without offered nodes (inside the construction of a typed list)."""
    if ve[0] == 'atom':
      return ve
    if ve[0] == 'node' and ve[1] in ('d', 'l'):
      return ('node', ve[1], list(DEFAULT_FLAGS), [(k, self.plain_only(x)) for k, x in ve[3]])
    return ('atom', None)

  def for_typed(self, ve):
    """what is offered to a typed list: an instance of C0 (new, with plain field values, or
    existing) — anything else becomes the rejected value 1."""
    if ve[0] == 'node' and ve[1] == ['o', 0]:
      return ('node', ['o', 0], ve[2], [(k, self.plain_only(x)) for k, x in ve[3]])
    if ve[0] == 'ref' and self.kind(ve[1]) == ['o', 0]:
      return ve
    return ('atom', 1)

  def sanitize(self, ve):
    """what survives pg.from_json(pg.to_json(v)): plain values, containers with default flags."""
    if ve[0] == 'atom' and isinstance(ve[1], (int, str)) and not isinstance(ve[1], bool):
      return ve
    if ve[0] == 'tlist':
      return ('node', 'l', list(DEFAULT_FLAGS), [(k, self.sanitize(x)) for k, x in ve[1]])
    if ve[0] == 'node':
      _, kind, _, items = ve
      if isinstance(kind, list) and kind[1] >= 2:
        return ('atom', None)
      return ('node', kind, list(DEFAULT_FLAGS), [(k, self.sanitize(x)) for k, x in items])
    return ('atom', None)

  def build(self, ve, top=False):
    """Python value of a resolved VE. Containers with default flags stay plain Python
    containers (pyglove converts them when it formalizes the value); flagged containers and
    objects are constructed here."""
    pg = self.pg
    if ve[0] == 'atom':
      return ve[1]
    if ve[0] == 'opq':
      return Opq()
    if ve[0] == 'tup':
      return tuple(Opq() for _ in range(ve[1]))
    if ve[0] == 'inferred':
      return pg.symbolic.ValueFromParentChain()
    if ve[0] == 'tlist':
      return pg.List([self.build(x) for _, x in ve[1]], value_spec=self.tl_spec)
    if ve[0] == 'mkref':
      return pg.Ref(ve[1] if ve[1] is not None else [1, 2])
    if ve[0] == 'ref':
      return ve[1]
    _, kind, flags, items = ve
    vals = [(k, self.build(v)) for k, v in items]
    if kind == 'd':
      if flags == DEFAULT_FLAGS and not top:
        return dict(vals)
      return pg.Dict(dict(vals), sealed=flags[0], accessor_writable=flags[1], allow_partial=flags[2])
    if kind == 'l':
      if flags == DEFAULT_FLAGS and not top:
        return [v for _, v in vals]
      return pg.List([v for _, v in vals], sealed=flags[0], accessor_writable=flags[1], allow_partial=flags[2])
    cls = self.classes[kind[1]]
    return cls(sealed=flags[0], allow_partial=flags[2], **dict(vals))

  def holds_inferred(self, cont, k):
    for ck, cv in self.children(cont):
      if ck == k and type(ck) is type(k):
        return type(cv) is self.pg.symbolic.ValueFromParentChain
    return False

  def resolve_path(self, cur, specs):
    out = []
    for j in specs:
      k = self.resolve_key(cur, j)
      out.append(k)
      nxt = None
      if cur is not None:
        kk = k
        if self.kind(cur) in ('l', 'tl') and isinstance(k, int) and k < 0:
          kk = k + len(cur)
        for ck, cv in self.children(cur):
          if ck == kk and type(ck) is type(kk):
            nxt = cv if self.is_node(cv) else None
            break
      cur = nxt
    return out

  # -- one step ----------------------------------------------------------------------------------
  def step(self, j):
    """Executes one raw operation. Returns the outcome string."""
    pg = self.pg
    name = j['op']
    nodes = self.all_nodes()
    self.pre_nodes = nodes
    self.result_new = None
    fam = ('d' if name in DICT_OPS else 'l' if name in LIST_OPS else 'o' if name in OBJ_OPS
           else 'tl' if name in TL_OPS else '*')
    target = None if name in ('new', 'newjson') else self.pick(nodes, fam, abs(j.get('t', 0)))
    self.last_target = target
    cx = {'nodes': nodes, 'target': target, 'unsafe': bool(j.get('unsafe')), 'fuel': len(nodes)}
    used = set()
    notify = j.get('n', True)

    def v(field):
      return self.resolve_ve(cx, set(), j.get(field))

    def drop_own(dest, ve):
      # F79 guard: an existing child of list `dest` is not offered as an insertion into `dest`
      # (F79 is repaired: elements of a list may be offered as insertions into it)
      return ve

    def vs(field):
      u = set()
      return [self.resolve_ve(cx, u, x) for x in j.get(field, [])]

    if name == 'new':
      ve = v('v')
      if ve[0] != 'node':
        return 'skip'
      self.result_new = self.build(ve, top=True)
      return 'ok'
    if name == 'newjson':
      # deserialization: the value travels through JSON (python form or text)
      ve = self.sanitize(v('v'))
      if ve[0] != 'node':
        return 'skip'
      value = self.build(ve, top=True)
      if j.get('str'):
        self.result_new = pg.from_json_str(pg.to_json_str(value))
      else:
        self.result_new = pg.from_json(pg.to_json(value))
      return 'ok'
    if target is None:
      return 'skip'
    t = target
    ln = len(self.children(t))
    del used

    # `pop` evaluates the value it returns; an un-inferable inferred value raises there: skipped
    if name in ('lpop', 'tlpop'):
      idx_pop = self.resolve_idx(t, j['key'])
      kk = idx_pop + ln if idx_pop < 0 else idx_pop
      if self.holds_inferred(t, kk):
        return 'skip'
    if name == 'dpop':
      key_pop = self.resolve_key(t, j['key'])
      if self.holds_inferred(t, key_pop):
        return 'skip'

    def call():
      if name == 'clone':
        self.result_new = t.clone(deep=bool(j.get('deep', False)))
      elif name in ('dset', 'lset'):
        t[self.resolve_key(t, j['key'])] = self.build(v('v'))
      elif name == 'tlset':
        t[self.resolve_key(t, j['key'])] = self.build(self.for_typed(v('v')))
      elif name == 'tlappend':
        t.append(self.build(self.for_typed(v('v'))))
      elif name == 'tlins':
        t.insert(self.resolve_idx(t, j['key']), self.build(self.for_typed(v('v'))))
      elif name == 'tldel':
        del t[self.resolve_key(t, j['key'])]
      elif name == 'oset':
        cls = self.kind(t)[1]
        setattr(t, key_text(abs(j['key']) % (cls + 2)), self.build(v('v')))
      elif name in ('ddel', 'ldel'):
        del t[self.resolve_key(t, j['key'])]
      elif name == 'lappend':
        t.append(self.build(v('v')))
      elif name == 'linsert':
        t.insert(self.resolve_idx(t, j['key']), self.build(drop_own(t, v('v'))))
      elif name == 'lextend':
        t.extend([self.build(x) for x in vs('vs')])
      elif name == 'liadd':
        operator.iadd(t, [self.build(x) for x in vs('vs')])
      elif name in ('lpop', 'tlpop'):
        t.pop(idx_pop)
      elif name == 'lremove':
        t.remove(j.get('a', 0))
      elif name == 'lclear':
        t.clear()
      elif name == 'lsort':
        raw = list(j.get('ranks') or [0])
        ranks = iter([raw[i % len(raw)] for i in range(ln)])
        t.sort(key=lambda _: next(ranks), reverse=bool(j.get('rev', False)))
      elif name == 'lreverse':
        t.reverse()
      elif name == 'limul':
        operator.imul(t, j.get('times', 0))
      elif name in ('lslice', 'ldelslice'):
        def opt(field):
          spec = j.get(field)
          return None if spec is None else self.resolve_idx(t, spec)
        sl = slice(opt('a'), opt('b'), j.get('step'))
        if name == 'ldelslice':
          del t[sl]
        else:
          t[sl] = [self.build(drop_own(t, x)) for x in vs('vs')]
      elif name == 'seal':
        t.seal(bool(j.get('flag', True)))
      elif name == 'dpop':
        t.pop(key_pop)
      elif name == 'dpopitem':
        t.popitem()
      elif name == 'dclear':
        t.clear()
      elif name == 'dsetdefault':
        t.setdefault(self.resolve_key(t, j['key']), self.build(v('v')))
      elif name in ('dupdate', 'dior'):
        u = set()
        items = []
        for k, val in j.get('kvs', []):
          key = self.resolve_key(t, k)
          if any(key == x[0] and type(key) is type(x[0]) for x in items):
            continue
          items.append((key, self.resolve_ve(cx, u, val)))
        d = {k: self.build(x) for k, x in items}
        if name == 'dior':
          operator.ior(t, d)
        else:
          t.update(d)
      elif name == 'rebind':
        is_list = self.kind(t) in ('l', 'tl')
        u = set()
        pairs = []
        for pspec, ins, val in j.get('pairs', []):
          path = self.resolve_path(t, pspec)
          if is_list:
            path = [path[0]] if path and isinstance(path[0], int) else [0]
          if not path or any(_prefix(path, p[0]) or _prefix(p[0], path) for p in pairs):
            continue     # paths of one rebind are prefix-independent
          ve = self.resolve_ve(cx, u, val)
          parent = t
          for k in path[:-1]:
            parent = parent.sym_getattr(k) if (parent is not None and self.is_node(parent)
                                               and parent.sym_hasattr(k)) else None
          if parent is None or not self.is_node(parent):
            parent = None
          ins = ins and parent is not None and self.kind(parent) in ('l', 'tl')
          if parent is not None and self.kind(parent) == 'tl':
            ve = self.for_typed(ve)
          if ins:
            ve = drop_own(parent, ve)
          pairs.append((path, ins, ve, parent))
        d = {}
        for path, ins, ve, parent in pairs:
          value = self.build(ve)
          if ins:
            value = pg.Insertion(value)
          d[pg.KeyPath(path)] = value
        skip = j.get('skip')
        t.rebind(d, skip_notification=skip if isinstance(skip, bool) else None)
      else:
        raise AssertionError('unknown op %s' % name)

    try:
      with contextlib.ExitStack() as stack:
        stack.enter_context(pg.notify_on_change(bool(notify)))
        if name == 'clone':
          # cloning inside scoped flags must not leak the scope into the clone
          sc_ = j.get('scope') or {}
          if 'partial' in sc_:
            stack.enter_context(pg.allow_partial(bool(sc_['partial'])))
          if 'sealed' in sc_:
            stack.enter_context(pg.as_sealed(bool(sc_['sealed'])))
          if 'accw' in sc_:
            stack.enter_context(pg.allow_writable_accessors(bool(sc_['accw'])))
        call()
      return 'ok'
    except (IndexError, KeyError, ValueError, TypeError, AttributeError, AssertionError,
            pg.WritePermissionError) as e:
      return type(e).__name__

  # -- after a step ------------------------------------------------------------------------------
  def update_roots(self):
    """Surviving old roots in their order, then nodes that the step detached (in their pre-step
    order), then the brand-new result of the step."""
    known, seen = [], set()
    stack = list(self.pre_nodes) + ([self.result_new] if self.result_new is not None else [])
    for n in stack:
      if id(n) not in seen:
        seen.add(id(n))
        known.append(n)
    i = 0
    contained = {}
    while i < len(known):
      n = known[i]
      i += 1
      for _, c in self.children(n):
        if self.is_node(c):
          contained[id(c)] = contained.get(id(c), 0) + 1
          if id(c) not in seen:
            seen.add(id(c))
            known.append(c)
      # an object created by the call that still holds (or claims) a known node is reachable
      # through `sym_parent`
      p = n.sym_parent
      if p is not None and id(p) not in seen and self.is_node(p):
        seen.add(id(p))
        known.append(p)
    pre_index = {id(n): k for k, n in enumerate(self.pre_nodes)}
    old_root_ids = {id(r) for r in self.roots}
    roots = [r for r in self.roots if id(r) not in contained]
    others = []
    for n in known:
      if id(n) in contained or id(n) in old_root_ids:
        continue
      if id(n) in pre_index:
        key = pre_index[id(n)]
      else:
        sub = [pre_index[x] for x in self.subtree_ids(n) if x in pre_index]
        if not sub and n is not self.result_new:
          continue      # unreachable garbage
        key = len(pre_index) + 1 + min(sub + [len(pre_index)])
      others.append((key, len(others), n))
    roots += [n for _, _, n in sorted(others, key=lambda x: (x[0], x[1]))]
    # nodes that this step removed from a tree or replaced (they were stored in a container
    # before and are held by nobody now)
    self.removed = [n for _, _, n in others if id(n) in pre_index]
    self.roots = roots
    return any(c > 1 for c in contained.values())

  def atom(self, v):
    pg = self.pg
    if v is None:
      return None
    if isinstance(v, Opq):
      if id(v) not in self.opq_serial:
        self.opq_serial[id(v)] = len(self.opq_serial)
        self.keep.append(v)
      return ['q', self.opq_serial[id(v)]]
    if isinstance(v, tuple):
      out = []
      for x in v:
        if id(x) not in self.opq_serial:
          self.opq_serial[id(x)] = len(self.opq_serial)
          self.keep.append(x)
        out.append(self.opq_serial[id(x)])
      return ['t', out]
    if v == pg.MISSING_VALUE and not isinstance(v, (int, str)):
      return 'M'
    if isinstance(v, bool):
      return ['?', 'bool']
    if isinstance(v, int):
      return v
    if isinstance(v, str):
      return ['s', int(v[1:])] if v[:1] == 's' and v[1:].isdigit() else ['?', 'str']
    return ['?', type(v).__name__]

  def key_j(self, k):
    if isinstance(k, int):
      return ['i', k]
    if isinstance(k, str) and k in SPECIAL_KEYS_REV:
      return ['k', SPECIAL_KEYS_REV[k]]
    if isinstance(k, str) and k[:1] == 'k' and k[1:].isdigit():
      return ['k', int(k[1:])]
    return ['?', repr(k)]

  def dump_tree(self, n):
    p = n.sym_parent
    kind = self.kind(n)
    if kind == ['o', 2]:
      v = n.value
      if self.is_node(v):
        kind = ['o', 2, ['n', self.serial.get(id(v), -1)]]
      else:
        if id(v) not in self.opq_serial:
          self.opq_serial[id(v)] = len(self.opq_serial)
          self.keep.append(v)
        kind = ['o', 2, ['q', self.opq_serial[id(v)]]]
    return {'id': self.sid(n), 'kind': kind,
            'parent': None if p is None else (self.serial[id(p)] if id(p) in self.serial else -1),
            'path': [self.key_j(k) for k in n.sym_path.keys],
            'flags': [bool(n.is_sealed), bool(n.accessor_writable), bool(n.allow_partial)],
            'items': [[self.key_j(k), self.dump_tree(c) if self.is_node(c) else self.atom(c)]
                      for k, c in self.children(n)]}

  def dump(self):
    for n in self.all_nodes():     # serials in a deterministic order, parents before use
      self.sid(n)
    return [self.dump_tree(r) for r in self.roots]

  # -- the property on the real objects ----------------------------------------------------------
  def check_c01(self):
    """None, or (kind, description) for the first node that violates C01."""
    pg = self.pg
    seen = {}
    for r in self.roots:
      base = list(r.sym_path.keys)
      stack = [r]
      while stack:
        n = stack.pop()
        if id(n) in seen:
          return ('two-places', 'node object %r is reachable twice' % (n.sym_path,))
        seen[id(n)] = True
        for k, c in self.children(n):
          if not self.is_node(c):
            continue
          if c.sym_parent is not n:
            return ('stale-parent', 'child at %r[%r]: sym_parent is %s' % (
                str(n.sym_path), k, 'None' if c.sym_parent is None else 'another object'))
          want = list(n.sym_path.keys) + [k]
          if list(c.sym_path.keys) != want:
            return ('stale-path', 'child stored at %r reports path %r' % (want, list(c.sym_path.keys)))
          rel = list(c.sym_path.keys)[len(base):]
          try:
            got = r.sym_get(pg.KeyPath(rel))
          except Exception as e:   # pylint: disable=broad-except
            return ('lookup', 'root.sym_get(%r) raised %s' % (rel, type(e).__name__))
          if got is not c:
            return ('lookup', 'root.sym_get(%r) is not the node that reports that path' % (rel,))
          stack.append(c)
    return None


# ------------------------------------------------------------------------------------------------
# Canonical form of a dump (used for both sides)
# ------------------------------------------------------------------------------------------------

def canon(dump):
  ids, opq = {}, {}

  def number(t):
    if isinstance(t, dict):
      ids.setdefault(t['id'], len(ids))
      for _, c in t['items']:
        number(c)
  for r in dump:
    number(r)

  def conv(t):
    if isinstance(t, dict):
      p = t['parent']
      kind = t['kind']
      if isinstance(kind, list) and len(kind) == 3:
        tg = kind[2]
        if isinstance(tg, list):          # implementation side: ['n', serial] | ['q', serial]
          tg = ['n', ids.get(tg[1], -1)] if tg[0] == 'n' else ['q', opq.setdefault(('p', tg[1]), len(opq))]
        else:                             # model side: one id space for nodes and plain objects
          tg = ['n', ids[tg]] if tg in ids else ['q', opq.setdefault(('p', tg), len(opq))]
        kind = [kind[0], kind[1], tg]
      return [ids[t['id']], kind, None if p is None else ids.get(p, -1), t['path'], t['flags'],
              [[k, conv(c)] for k, c in t['items']]]
    if isinstance(t, list) and t and t[0] == 'q':
      return ['q', opq.setdefault(('p', t[1]), len(opq))]
    if isinstance(t, list) and len(t) == 2 and t[0] == 't' and isinstance(t[1], list):
      return ['t', [opq.setdefault(('p', x), len(opq)) for x in t[1]]]
    return t
  return [conv(r) for r in dump]


def run_history(case, check=True, extra=None):
  """Runs the whole history on the real code. Returns {'model': [per-step records], 'fail': …}."""
  import signal   # pylint: disable=import-outside-toplevel
  from harness.common.framework import CaseTimeout   # pylint: disable=import-outside-toplevel
  r = Runner()
  steps = []
  fail = None
  for i, j in enumerate(case['ops']):
    try:
      if j.get('unsafe'):
        # witness of a non-terminating call: short time box for this step
        # (the handler installed by the framework raises CaseTimeout)
        left = signal.setitimer(signal.ITIMER_REAL, 4)[0]
      out = r.step(j)
      if j.get('unsafe'):
        signal.setitimer(signal.ITIMER_REAL, max(left, 1) if left else 0)
    except CaseTimeout:
      fail = {'step': i, 'op': j, 'kind': 'hang', 'what': 'the call did not return within its time box'}
      break
    try:
      aliased = r.update_roots()
      rec = {'out': out, 'dump': canon(r.dump())}
    except Aliased:
      aliased = True
      rec = {'out': out, 'dump': None}
    steps.append(rec)
    if extra is not None:
      extra(r, i, j, out)
    if aliased:
      fail = {'step': i, 'op': j, 'kind': 'two-places', 'what': 'one node object is stored in two places'}
      break
    if check:
      bad = r.check_c01()
      if not bad:
        for n in getattr(r, 'removed', []):
          if n.sym_parent is not None:
            bad = ('not-detached', 'the node removed / replaced by this call still reports a parent '
                   '(sym_path %r)' % str(n.sym_path))
            break
      if not bad:
        # a tree that is stored nowhere must not claim to be inside another one
        for n in r.roots:
          if r.is_node(n) and n.sym_parent is not None:
            bad = ('claims-parent', 'a tree that no container holds reports a parent (sym_path %r)'
                   % str(n.sym_path))
            break
      if bad:
        fail = {'step': i, 'op': j, 'kind': bad[0], 'what': bad[1]}
        break
  return {'model': steps, 'fail': fail}
