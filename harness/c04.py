"""C04 — value-spec algebra: generator, implementation runner, oracle.

Case shape: {"a": <spec description>, "b": <spec description>, "values": [<value>, ...]}
(descriptions and values: harness/typing_vocab.py).  `a` plays child / receiver, `b` base / other.

Implementation observables (public API only): spec.apply(v[, allow_partial]) result or exception
class, a.is_compatible(b), a.extend(b) result (spec state read through public properties) or
exception class, the spec state before / after apply.
"""

import copy
import json

from harness.common.framework import Prop
from harness import typing_vocab as tv

ERRS = ('TypeError', 'ValueError', 'KeyError')


def _apply(spec, pyv, partial):
  try:
    return ['ok', None], spec.apply(pyv, allow_partial=partial)
  except (TypeError, ValueError, KeyError) as e:
    return ['err', type(e).__name__], None


def dispatch_mismatches(spec, values):
  """Union dispatch: a value that IS an instance of a candidate's value type goes to the first such
  candidate (in declaration order), whatever converters exist for the candidates listed before it."""
  import pyglove as pg
  bad = []
  if not isinstance(spec, pg.typing.Union) or spec.frozen:
    return bad
  for v in values:
    pv = tv.to_py(v)
    if pv is None or pg.MISSING_VALUE == pv:
      continue
    cand = None
    for c in spec.candidates:
      if c.value_type is not None and isinstance(pv, c.value_type):
        cand = c
        break
    if cand is None:
      continue
    r0, o0 = _apply(cand, tv.to_py(v), False)
    r1, o1 = _apply(spec, tv.to_py(v), False)
    e0 = ['ok', tv.from_py(o0)] if r0[0] == 'ok' else r0
    e1 = ['ok', tv.from_py(o1)] if r1[0] == 'ok' else r1
    if e0 != e1:
      bad.append([v, e0, e1])
  return bad


def apply_all(spec, values):
  """[[apply(v), apply(apply(v)), apply(v, allow_partial=True)], ...] in wire format."""
  out = []
  for v in values:
    r0, obj = _apply(spec, tv.to_py(v), False)
    again = None
    if r0[0] == 'ok':
      r0 = ['ok', tv.from_py(obj)]
      r1, obj1 = _apply(spec, obj, False)
      again = ['ok', tv.from_py(obj1)] if r1[0] == 'ok' else r1
    r2, obj2 = _apply(spec, tv.to_py(v), True)
    if r2[0] == 'ok':
      r2 = ['ok', tv.from_py(obj2)]
    out.append([r0, again, r2])
  return out


def strip_rx(desc):
  """The description without Str regular expressions (outside the claim of the property)."""
  d = dict(desc)
  if d['k'] == 'str':
    d['rx'] = None
  if 'elem' in d:
    d['elem'] = strip_rx(d['elem'])
  if 'elems' in d:
    d['elems'] = [strip_rx(e) for e in d['elems']]
  if d.get('fields'):
    d['fields'] = [[k, strip_rx(f)] for k, f in d['fields']]
  if 'cands' in d:
    d['cands'] = [strip_rx(c) for c in d['cands']]
  return d


def accepts_norx(desc, values):
  """Acceptance of each value by the spec with its Str regexes removed (None if it cannot be built)."""
  try:
    spec = tv.build(strip_rx(desc))
  except (TypeError, ValueError, KeyError):
    return None
  return [_apply(spec, tv.to_py(v), False)[0][0] == 'ok' for v in values]


def state_to_desc(st, unfreeze=False):
  """A description that rebuilds a spec from its observed state."""
  F = st[-1]
  k = st[0]
  d = {'k': k, 'n': 1 if F[0] else 0}
  if F[1] != ['M']:
    d['d'] = F[1]
  if F[2] and not unfreeze:
    d['fz'] = True
  if k == 'int':
    d['lo'], d['hi'] = st[1], st[2]
  elif k == 'float':
    d['lo'], d['hi'] = st[1], st[2]
  elif k == 'str':
    d['rx'] = st[1]
  elif k == 'enum':
    d['vals'] = st[1]
    d['n'] = 0
  elif k == 'any':
    d['n'] = 0
  elif k == 'list':
    d['elem'], d['mn'], d['mx'] = state_to_desc(st[1], unfreeze), st[2], st[3]
  elif k == 'tuple':
    if st[3] == st[2]:
      d['elems'] = [state_to_desc(e, unfreeze) for e in st[1]]
    else:
      d['elem'], d['mn'], d['mx'] = state_to_desc(st[1][0], unfreeze), st[2], st[3]
  elif k == 'dict':
    d['fields'] = None if st[1] is None else [[key, state_to_desc(f, unfreeze)] for key, f in st[1]]
    if st[1] is not None:
      d.pop('d', None)
  elif k == 'obj':
    d['cls'] = st[1]
  elif k == 'union':
    d['cands'] = [state_to_desc(c, unfreeze) for c in st[1]]
  return d


def default_invalid(st):
  """Does some (nested) default of this spec state fail the spec's own constraints?  Decided by the
  real constructors: rebuilding the spec, unfrozen, from its state re-applies every default."""
  try:
    tv.build(strip_rx(state_to_desc(st, unfreeze=True)))
    return False
  except (TypeError, ValueError, KeyError):
    return True


def fake_fixed_tuple(st):
  """A tuple spec whose min_size == max_size although it has a single (variable-length) element spec."""
  k = st[0]
  if k == 'tuple':
    if st[3] == st[2] and len(st[1]) != st[2]:
      return True
    return any(fake_fixed_tuple(e) for e in st[1])
  if k == 'list':
    return fake_fixed_tuple(st[1])
  if k == 'union':
    return any(fake_fixed_tuple(c) for c in st[1])
  if k == 'dict' and st[1] is not None:
    return any(fake_fixed_tuple(f) for _, f in st[1])
  return False


def aligned(cst, bst):
  """Pairs (child sub-state, base sub-state) at corresponding positions."""
  yield cst, bst
  if cst[0] != bst[0]:
    if bst[0] == 'union':
      for b in bst[1]:
        if b[0] == cst[0]:
          yield from aligned(cst, b)
    return
  k = cst[0]
  if k == 'list':
    yield from aligned(cst[1], bst[1])
  elif k == 'tuple':
    for i, c in enumerate(cst[1]):
      if bst[1]:
        yield from aligned(c, bst[1][i] if len(bst[1]) == len(cst[1]) else bst[1][0])
  elif k == 'dict' and cst[1] is not None and bst[1] is not None:
    for key, f in cst[1]:
      for bkey, g in bst[1]:
        if key == bkey:
          yield from aligned(f, g)
  elif k == 'union':
    for c in cst[1]:
      for b in bst[1]:
        if b[0] == c[0] or c[0] == 'enum':
          yield from aligned(c, b)


def dynamic_key_order_differs(rst, ost):
  """Two aligned dict specs that both have >= 2 dynamic (StrKey) fields, listed in different orders:
  keys are resolved to the FIRST matching StrKey in declaration order, but Schema.is_compatible
  compares the fields key by key (finding F110)."""
  for r, o in aligned(rst, ost):
    if r[0] == 'dict' and o[0] == 'dict' and r[1] is not None and o[1] is not None:
      rk = [f[0] for f in r[1] if f[0][0] == 'k']
      ok = [f[0] for f in o[1] if f[0][0] == 'k']
      if len(rk) >= 2 and len(ok) >= 2 and rk != ok and sorted(map(str, rk)) == sorted(map(str, ok)):
        return True
  return False


def dict_default_gap(rst, ost):
  """Receiver and other have a dict field of the same key where only the other's has a default."""
  for r, o in aligned(rst, ost):
    if r[0] == 'dict' and o[0] == 'dict' and r[1] is not None and o[1] is not None:
      for key, f in r[1]:
        for okey, g in o[1]:
          if key == okey and key[0] == 'c' and not f[-1][2] and (g[-1][1] != ['M'] or g[-1][2]) and (f[-1][1] != g[-1][1] or g[-1][2]):
            return True
  return False


def union_int_and_float(st):
  """A union (at any depth) with both a candidate that takes ints as they are and a float candidate."""
  k = st[0]
  if k == 'union':
    kinds = [c[0] for c in st[1]]
    prims = [c[0] for c in st[1] if c[0] in ('int', 'bool', 'float', 'enum', 'any', 'str')]
    numeric = [k for k in prims if k in ('int', 'bool', 'float')]
    if len(prims) >= 2 and (len(numeric) >= 2 or 'enum' in prims or 'any' in prims):
      return True
    return any(union_int_and_float(c) for c in st[1])
  if k == 'list':
    return union_int_and_float(st[1])
  if k == 'tuple':
    return any(union_int_and_float(e) for e in st[1])
  if k == 'dict' and st[1] is not None:
    return any(union_int_and_float(f) for _, f in st[1])
  return False


def frozen_foreign_default(st):
  """A frozen Int spec (at any depth) whose frozen value is a bool (`Int().freeze(True)`)."""
  F = st[-1]
  k = st[0]
  if F[2] and k == 'int' and F[1][0] == 'b':
    return True
  if k == 'list':
    return frozen_foreign_default(st[1])
  if k in ('tuple', 'union'):
    return any(frozen_foreign_default(c) for c in st[1])
  if k == 'dict' and st[1] is not None:
    return any(frozen_foreign_default(f) for _, f in st[1])
  return False


def frozen_dict_default(d):
  if d.get('fz') and d.get('d') is not None and '["d"' in json.dumps(d['d']):
    return True
  subs = []
  if 'elem' in d:
    subs.append(d['elem'])
  subs += d.get('elems', []) + d.get('cands', []) + [f for _, f in (d.get('fields') or [])]
  return any(frozen_dict_default(x) for x in subs)


def multi_key_dict(v):
  if v[0] == 'd':
    return len(v[1]) >= 2 or any(multi_key_dict(x) for _, x in v[1])
  if v[0] in ('l', 't'):
    return any(multi_key_dict(x) for x in v[1])
  return False


def default0(desc):
  """The value `set_default` is called with by the constructor (None: not comparable)."""
  if desc.get('n') == 2 and desc['k'] in ('dict', 'union'):
    return None                      # Dict.noneable() overwrites the default with None (also inside a Union)
  if desc.get('d') is not None:
    return desc['d']
  return None


def fields_of(st):
  return st[1] if st[0] == 'dict' and st[1] is not None else None


def key_matches(env_rx, key, name):
  if key[0] == 'c':
    return key[1] == name
  if key[1] is None:
    return True
  import re
  return re.compile(tv.REGEX_POOL[key[1]]).match(name) is not None


def project(v, cst, bst):
  """Restricts a value accepted by the extended spec `cst` to the fields it shares with the base
  `bst` (the property compares 'for the fields they share')."""
  if v[0] == 'd' and fields_of(cst) is not None and fields_of(bst) is not None:
    bf = fields_of(bst)
    cf = fields_of(cst)
    items = []
    for k, x in v[1]:
      bconst = [f for f in bf if f[0][0] == 'c' and f[0][1] == k]
      cconst = [f for f in cf if f[0][0] == 'c' and f[0][1] == k]
      if cconst and not bconst:
        continue           # a field the child added (it shadows the base's dynamic key)
      bmatch = bconst or [f for f in bf if f[0][0] == 'k' and key_matches(None, f[0], k)]
      if not bmatch:
        continue
      cmatch = [f for f in cf if f[0][0] == 'c' and f[0][1] == k] or [f for f in cf if f[0][0] == 'k' and key_matches(None, f[0], k)]
      items.append([k, project(x, cmatch[0][1], bmatch[0][1]) if cmatch else x])
    return ['d', items]
  if cst[0] == 'union' and bst[0] == 'union':
    tag = {'d': 'dict', 'l': 'list', 't': 'tuple'}.get(v[0])
    for c in cst[1]:
      for b in bst[1]:
        if c[0] == b[0] == tag:
          return project(v, c, b)
    return v
  if v[0] == 'l' and cst[0] == 'list' and bst[0] == 'list':
    return ['l', [project(x, cst[1], bst[1]) for x in v[1]]]
  if v[0] == 't' and cst[0] == 'tuple' and bst[0] == 'tuple':
    n = len(v[1])
    out = []
    for i, x in enumerate(v[1]):
      ce, be = tuple_elem(cst, i, n), tuple_elem(bst, i, n)
      out.append(project(x, ce, be) if ce is not None and be is not None else x)
    return ['t', out]
  return v


def tuple_elem(st, i, n):
  elems, mn, mx = st[1], st[2], st[3]
  if not elems:
    return None
  if mx == mn and len(elems) == n:
    return elems[i]
  return elems[0]


def added_fields(cst, bst):
  """Does the extended spec declare dict keys the base does not (at any depth)?"""
  if cst[0] != bst[0]:
    return False
  if cst[0] == 'dict':
    cf, bf = fields_of(cst), fields_of(bst)
    if cf is None or bf is None:
      return cf is not None and bf is None and False
    bkeys = [json.dumps(f[0]) for f in bf]
    if any(json.dumps(f[0]) not in bkeys for f in cf):
      return True
    for f in cf:
      for g in bf:
        if f[0] == g[0] and added_fields(f[1], g[1]):
          return True
    return False
  if cst[0] == 'list':
    return added_fields(cst[1], bst[1])
  if cst[0] == 'tuple':
    ce, be = cst[1], bst[1]
    if not be:
      return False
    return any(added_fields(c, be[i] if len(be) == len(ce) else be[0]) for i, c in enumerate(ce))
  if cst[0] == 'union':
    return any(added_fields(c, b) for c in cst[1] for b in bst[1] if c[0] == b[0])
  return False


def atoms_of(v, acc):
  if v[0] in ('l', 't'):
    for x in v[1]:
      atoms_of(x, acc)
  elif v[0] == 'd':
    for _, x in v[1]:
      atoms_of(x, acc)
  else:
    acc.append(v)
  return acc


def spec_atoms(st, frozen_only, acc):
  """Atoms of frozen defaults (frozen_only) or of frozen defaults and enum values of a spec state."""
  F = st[-1]
  if F[2]:
    atoms_of(F[1], acc)
  k = st[0]
  if k == 'enum' and not frozen_only:
    for v in st[1]:
      atoms_of(v, acc)
  if k == 'list':
    spec_atoms(st[1], frozen_only, acc)
  elif k in ('tuple', 'union'):
    for c in st[1]:
      spec_atoms(c, frozen_only, acc)
  elif k == 'dict' and st[1] is not None:
    for _, c in st[1]:
      spec_atoms(c, frozen_only, acc)
  return acc


def num_of(a):
  if a[0] == 'b':
    return (1 if a[1] else 0, 0)
  if a[0] == 'i':
    return (a[1], 0)
  if a[0] == 'f':
    return (a[1], a[2])
  return None


def cross_type_equal(x, y):
  """x == y in Python although their types differ (1 == 1.0 == True)."""
  nx, ny = num_of(x), num_of(y)
  if nx is None or ny is None or x[0] == y[0]:
    return False
  return nx[0] * 2 ** ny[1] == ny[0] * 2 ** nx[1]


def has_frozen(st):
  return bool(spec_atoms(st, True, [])) or _any_frozen(st)


def _any_frozen(st):
  if st[-1][2]:
    return True
  k = st[0]
  if k == 'list':
    return _any_frozen(st[1])
  if k in ('tuple', 'union'):
    return any(_any_frozen(c) for c in st[1])
  if k == 'dict' and st[1] is not None:
    return any(_any_frozen(c) for _, c in st[1])
  return False


def has_missing(v):
  if v[0] == 'M':
    return True
  if v[0] in ('l', 't'):
    return any(has_missing(x) for x in v[1])
  if v[0] == 'd':
    return any(has_missing(x) for _, x in v[1])
  return False


class C04(Prop):
  id = 'C04'
  props_modules = ['PgProps.C04']
  driver = 'drv_c04'
  translators = []
  case_timeout_s = 20
  rule = ('spec pairs generated related: a base spec from the grammar int/float ranges, str (regex pool), '
          'bool, enum (5 value pools), any, object (4 classes), list, tuple fixed/variable, dict (const keys '
          '+ optional dynamic StrKey), union, each with noneable/default/frozen flags, nesting depth <= 2; the '
          'child is the base with one parameter narrowed / widened / toggled (possibly nested), or rarely an '
          'unrelated spec; roles swapped in half of the cases. Values: all boundary and near-miss values of '
          'both specs, None, MISSING, wrong types, ints for float specs. Non-trivial: both specs constructible '
          'and at least one value accepted by one of them; distinct: by (a, b, values).')
  trusted_base = [
      'readback of a real spec object through its public properties = the Lean `Spec` (harness/typing_vocab.py)',
      'modelled, not verified: apply / is_compatible / extend of the 11 modelled spec classes (tied by '
      'correspondence); Callable/Functor/Type specs, user transforms, forward references, CustomTyping values '
      'and converters other than int->float are outside the model',
      'regular expressions are an opaque predicate (table computed by Python re for the strings of the case)',
      'user classes compare by a copy-stable key (harness classes define __eq__), subclass relation is a parameter',
      'fixed-length tuples are built from explicit element lists (Tuple(spec, size=n) shares one spec object '
      'between fields; the model has no aliasing)',
  ]
  assumptions = ['values contain finite floats only (no NaN/inf); dict keys are strings',
                 'equal dict values are presented in equal key order where a frozen default is compared']

  # -- generation --------------------------------------------------------------------------
  def generate(self, rng, tier):
    self.setup_impl()
    n = 900 if tier == 'quick' else 30000
    g = tv.SpecGen(rng)
    made = 0
    while made < n:
      extra_values, fixed_order = [], False
      if rng.chance(0.07):
        child, base = tv.frozen_pair(g)        # frozen x frozen pairs (mostly over an Enum base)
      elif rng.chance(0.05):
        # single-dynamic-field schema against the schema-less Dict(), bare or nested
        child, base, extra_values = tv.free_dict_pair(g)
      elif rng.chance(0.05):
        # Enum child over a constrained non-Enum base, candidates inside and outside the constraint
        child, base = tv.enum_over_base_pair(g)
        fixed_order = True
      elif rng.chance(0.04):
        child, base = tv.tuple_pair(g)         # fixed tuple over variable tuple at the size bounds
      elif rng.chance(0.04):
        # per-position tuple against a `size=` tuple (shared element spec) with a differing later element
        child, base, extra_values = tv.shared_tuple_pair(g)
        fixed_order = True
      elif rng.chance(0.04):
        # variable tuple (min >= 1, no max) over a variable base with a max_size: the max must be inherited
        child, base, extra_values = tv.var_tuple_pair(g)
        fixed_order = rng.chance(0.8)
      else:
        base = g.spec(rng.weighted([(2, 0), (5, 1), (3, 2)]))
        child = g.mutate(base)
        if rng.chance(0.3):
          child = g.mutate(child)
      ok = True
      for d in (base, child):
        try:
          tv.build(d)
        except (TypeError, ValueError, KeyError):
          ok = False
      if not ok:
        if rng.chance(0.1):
          made += 1
          yield {'a': child, 'b': base, 'values': []}     # constructor-rejected stream
        continue
      a, b = (child, base) if (fixed_order or rng.chance(0.6)) else (base, child)
      values = extra_values + g.boundary(a) + g.boundary(b) + [['N'], ['M']] + copy.deepcopy(rng.sample(tv.WRONG, 2))
      seen, uniq = set(), []
      for v in values:
        key = json.dumps(v)
        if key not in seen:
          seen.add(key)
          uniq.append(v)
      if frozen_dict_default(a) or frozen_dict_default(b):
        # stated assumption: where a frozen default containing a dict is compared, equal dicts come
        # in equal key order (the model compares dict items in order)
        uniq = [v for v in uniq if not multi_key_dict(v)]
      if len(uniq) > 24:
        uniq = uniq[:8] + rng.sample(uniq[8:], 16)
      made += 1
      yield {'a': a, 'b': b, 'values': uniq}

  # -- execution ---------------------------------------------------------------------------
  def states(self, case):
    """(state a, state b) of the real specs, or None if a constructor raises."""
    try:
      return tv.readback(tv.build(case['a'])), tv.readback(tv.build(case['b']))
    except (TypeError, ValueError, KeyError):
      return None

  def model_request(self, case):
    self.setup_impl()
    st = self.states(case)
    if st is None:
      return None
    req = {'op': 'pair', 'a': st[0], 'b': st[1], 'values': case['values'],
           'env': tv.env_for(list(st), case['values'])}
    for name in ('a', 'b'):
      d0 = default0(case[name])
      if d0 is not None:
        req[name + '_default0'] = d0
    return req

  def impl(self, case):
    out = {}
    specs = {}
    for name in ('a', 'b'):
      try:
        specs[name] = tv.build(case[name])
      except (TypeError, ValueError, KeyError) as e:
        out['ctor_' + name] = type(e).__name__
    if len(specs) < 2:
      out['model'] = None
      return out
    a, b = specs['a'], specs['b']
    sa, sb = tv.readback(a), tv.readback(b)
    values = case['values']
    m = {}
    m['apply_a'] = apply_all(a, values)
    m['apply_b'] = apply_all(b, values)
    out['dispatch'] = dispatch_mismatches(a, values) + dispatch_mismatches(b, values)
    out['unchanged_a'] = tv.readback(a) == sa
    out['unchanged_b'] = tv.readback(b) == sb
    m['compat_ab'] = bool(a.is_compatible(b))
    m['compat_ba'] = bool(b.is_compatible(a))
    a2, b2 = tv.build(case['a']), tv.build(case['b'])
    try:
      c = a2.extend(b2)
      sc = tv.readback(c)
      ext = {'spec': sc, 'apply': apply_all(c, values), 'base_compat': bool(b2.is_compatible(c))}
      r, obj = _apply(c, copy.deepcopy(c.default), True)
      out['selfdefault_c'] = ['ok', tv.from_py(obj)] if r[0] == 'ok' else r
      out['base_unchanged'] = tv.readback(b2) == sb
    except (TypeError, ValueError, KeyError) as e:
      ext = {'err': type(e).__name__}
    m['extend'] = ext
    m['wf_a'] = True
    m['wf_b'] = True
    for name, spec, st in (('a', a, sa), ('b', b, sb)):
      m['default_' + name] = ['ok', st[-1][1]] if default0(case[name]) is not None else None
      r, obj = _apply(spec, copy.deepcopy(spec.default), True)
      m['selfdefault_' + name] = ['ok', tv.from_py(obj)] if r[0] == 'ok' else r
    out['model'] = m
    out['norx_a'] = accepts_norx(case['a'], values)
    out['norx_b'] = accepts_norx(case['b'], values)
    out['state_a'], out['state_b'] = sa, sb
    return out

  def compare(self, case, impl_out, model_out):
    a = impl_out.get('model')
    if a is None:
      return None
    b = copy.deepcopy(model_out)
    if isinstance(b.get('extend'), dict):
      b['extend'].pop('wf', None)
    if a != b:
      for k in a:
        if a[k] != b.get(k):
          if k.startswith('apply_'):
            for i, (x, y) in enumerate(zip(a[k], b[k])):
              if x != y:
                return '%s value %s: impl=%s model=%s' % (k, json.dumps(case['values'][i]), json.dumps(x), json.dumps(y))
          if k == 'extend' and 'apply' in a[k] and 'apply' in b.get(k, {}) and a[k]['spec'] == b[k]['spec']:
            for i, (x, y) in enumerate(zip(a[k]['apply'], b[k]['apply'])):
              if x != y:
                return 'extend.apply value %s: impl=%s model=%s' % (json.dumps(case['values'][i]), json.dumps(x), json.dumps(y))
          return '%s: impl=%s model=%s' % (k, json.dumps(a[k])[:300], json.dumps(b.get(k))[:300])
      return 'model has extra keys'
    return None

  # -- the property itself --------------------------------------------------------------------
  def oracle(self, case, out):
    """The first failure of the property on this case; a failure that is not a listed finding takes
    precedence over listed ones (so that a known defect cannot mask a new one in the same case)."""
    fails = []
    self.oracle_all(case, out, fails)
    if not fails:
      return None
    known = self.known_signatures()
    for f in fails:
      if f['signature'] not in known:
        return f
    return fails[0]

  _known = None

  def known_signatures(self):
    if C04._known is None:
      from harness.common import framework
      sigs = set()
      for e in framework.load_findings(self.id):
        if e.get('status') == 'known':
          sigs.update(e.get('signature', '').split('|'))
      C04._known = sigs
    return C04._known

  def oracle_all(self, case, out, fails):
    m = out.get('model')
    if m is None:
      return None
    values = case['values']
    sa, sb = out['state_a'], out['state_b']

    def fail(sig, what):
      if len(fails) < 24 and sig not in [f['signature'] for f in fails]:
        fails.append({'signature': sig, 'what': what})

    for v, e0, e1 in out.get('dispatch') or []:
      fail('union-exact-candidate-bypassed',
           'the union applied to %s gives %s, but its first candidate of exactly that type gives %s' % (
               json.dumps(v), json.dumps(e1), json.dumps(e0)))
    # applying never changes the spec
    for name in ('a', 'b'):
      if not out['unchanged_' + name]:
        fail('spec-changed-by-apply:' + out['state_' + name][0], 'apply changed the state of spec %s' % name)
    # idempotence
    tables = [('a', sa, m['apply_a']), ('b', sb, m['apply_b'])]
    ext = m['extend']
    if 'spec' in ext:
      tables.append(("extended", ext['spec'], ext['apply']))
    for name, st, tab in tables:
      for v, (r0, again, _) in zip(values, tab):
        if r0[0] == 'ok' and again != r0:
          kind = st[0]
          if kind == 'union' and frozen_foreign_default(st):
            kind = 'union-candidate-frozen-at-value-of-other-type'
          fail('not-idempotent:' + kind,
                      'spec %s %s: apply(%s) = %s but applying the result again gives %s' % (
                          name, json.dumps(st), json.dumps(v), json.dumps(r0[1]), json.dumps(again)))
    # a spec's own default is acceptable to it
    for name, st in (('a', sa), ('b', sb)):
      sd = m['selfdefault_' + name]
      if sd != ['ok', st[-1][1]]:
        fail('default-unacceptable:' + st[0], 'default %s of spec %s %s: apply gives %s' % (
            json.dumps(st[-1][1]), name, json.dumps(st), json.dumps(sd)))
    # compatibility is sound
    for recv, oth, flag, rt, ot in (('a', 'b', m['compat_ab'], m['apply_a'], m['apply_b']),
                                    ('b', 'a', m['compat_ba'], m['apply_b'], m['apply_a'])):
      if not flag:
        continue
      rst, ost = out['state_' + recv], out['state_' + oth]
      norx = out.get('norx_' + recv) or [r[0][0] == 'ok' for r in rt]
      for v, x, y, acc in zip(values, rt, ot, norx):
        if has_missing(v):
          continue           # MISSING_VALUE marks absence; it is not a candidate value
        if y[0][0] == 'ok' and not acc:
          fail('compat-unsound:' + self.classify(rst, ost, v),
                      '%s.is_compatible(%s) is True, %s accepts %s, %s raises %s  [%s=%s; %s=%s]' % (
                          recv, oth, oth, json.dumps(v), recv, x[0][1], recv, json.dumps(rst), oth, json.dumps(ost)))
    # extension only narrows
    if 'spec' in ext:
      sc = ext['spec']
      if not out.get('base_unchanged', True):
        fail('base-changed-by-extend', 'extend changed the base spec')
      import pyglove  # noqa: F401  (the projection below re-applies the base spec)
      b_real = tv.build(strip_rx(case['b']))
      for v, y in zip(values, ext['apply']):
        if y[0][0] != 'ok' or has_missing(v):
          continue
        pv = project(v, sc, sb)
        r, _ = _apply(b_real, tv.to_py(pv), False)
        if r[0] != 'ok':
          fail('extend-unsound:' + self.classify_ext(sc, sb, case['a'], v),
                      'a.extend(b) = %s accepts %s but the base %s raises %s on %s' % (
                          json.dumps(sc), json.dumps(v), json.dumps(sb), r[1], json.dumps(pv)))
      if not ext['base_compat'] and not added_fields(sc, sb):
        fail('extend-base-not-compatible:' + self.classify_bc(sc, sb),
                    'a.extend(b) = %s succeeded but b.is_compatible(it) is False (b=%s)' % (json.dumps(sc), json.dumps(sb)))
      sd = out.get('selfdefault_c')
      if sd != ['ok', sc[-1][1]] and default_invalid(sc):
        fail('default-unacceptable-after-extend',
                    'default %s of the extended spec %s: apply gives %s' % (json.dumps(sc[-1][1]), json.dumps(sc), json.dumps(sd)))
    return None

  def classify(self, rst, ost, v):
    """Narrow signature of a containment failure."""
    vat = atoms_of(v, [])
    if has_missing(v) and _any_frozen(ost):
      return 'missing-into-frozen'
    for d in spec_atoms(ost, True, []):
      if any(cross_type_equal(d, x) for x in vat):
        return 'value-equal-to-frozen-default-but-of-other-type'
    ra, oa = spec_atoms(rst, False, []), spec_atoms(ost, False, [])
    if any(cross_type_equal(x, y) for x in ra for y in oa):
      return 'enum-values-equal-across-types'
    if _any_frozen(rst):
      return 'frozen-receiver-ignored'
    if any(r[0] == 'list' and o[0] == 'list' and r[2] > o[2] for r, o in aligned(rst, ost)):
      return 'list-min-size-ignored'
    if dict_default_gap(rst, ost):
      return 'dict-field-default-ignored'
    if union_int_and_float(rst) and any(x[0] in ('i', 'b', 'f', 's') for x in vat):
      return 'union-dispatches-by-type'
    if dynamic_key_order_differs(rst, ost):
      return 'dict-dynamic-key-order-ignored'
    return '%s<-%s' % (rst[0], ost[0])

  def classify_ext(self, sc, sb, adesc, v):
    # (dynamic-key order: see dynamic_key_order_differs)
    vat = atoms_of(v, [])
    if fake_fixed_tuple(sc):
      return 'variable-tuple-becomes-fixed'
    if default_invalid(sc):
      return 'default-not-revalidated'
    if dict_default_gap(sb, sc):
      return 'dict-field-default-ignored'
    if any(c[0] != 'union' and b[0] == 'union' and any(x[0] == c[0] and x[-1][2] for x in b[1])
           for c, b in aligned(sc, sb)):
      return 'frozen-union-candidate-ignored'       # F292: the frozen-base guard skips the resolved candidate
    if union_int_and_float(sb) and any(x[0] in ('i', 'b', 'f', 's') for x in vat):
      return 'union-dispatches-by-type'
    for d in spec_atoms(sc, True, []):
      if any(cross_type_equal(d, x) for x in vat):
        return 'value-equal-to-frozen-default-but-of-other-type'
    return '%s<-%s' % (sc[0], sb[0])

  def classify_bc(self, sc, sb):
    if fake_fixed_tuple(sc):
      return 'variable-tuple-becomes-fixed'
    if any(c[0] == 'enum' and b[0] not in ('enum', 'union') for c, b in aligned(sc, sb)):
      return 'enum-over-non-enum-base'
    return '%s<-%s' % (sb[0], sc[0])

  def nontrivial(self, case, out):
    m = out.get('model')
    if m is None:
      return False
    return any(r[0][0] == 'ok' for r in m['apply_a'] + m['apply_b'])

  def describe(self, case, out):
    h = []
    m = out.get('model')
    if m is None:
      return ['constructor-rejected']
    h.append('a:' + tv.kind_path(case['a']))
    h.append('b:' + tv.kind_path(case['b']))
    h.append('compat_ab:%s' % m['compat_ab'])
    h.append('compat_ba:%s' % m['compat_ba'])
    ext = m['extend']
    h.append('extend:' + ('ok' if 'spec' in ext else ext['err']))
    if 'spec' in ext:
      h.append('extend-base-compat:%s' % ext['base_compat'])
      if added_fields(ext['spec'], out['state_b']):
        h.append('extend-added-fields')
    acc = sum(1 for r in m['apply_a'] + m['apply_b'] if r[0][0] == 'ok')
    tot = len(m['apply_a']) * 2
    h.append('accepted-share:%d0%%' % (10 * acc // max(tot, 1) // 1 if tot else 0))
    for r in m['apply_a'] + m['apply_b']:
      h.append('apply:' + (r[0][0] if r[0][0] == 'ok' else r[0][1]))
    for name in ('a', 'b'):
      F = out['state_' + name][-1]
      if F[2]:
        h.append('flag:frozen')
      if F[0]:
        h.append('flag:noneable')
      if F[1] != ['M']:
        h.append('flag:default')
    return h

  def shrink_candidates(self, case):
    vals = case['values']
    if len(vals) > 1:
      half = len(vals) // 2
      yield dict(case, values=vals[:half])
      yield dict(case, values=vals[half:])
      for i in range(len(vals)):
        yield dict(case, values=vals[:i] + vals[i + 1:])
    for name in ('a', 'b'):
      d = case[name]
      for sub in _sub_descs(d):
        yield dict(case, **{name: sub})
      for f in ('d', 'fz', 'n'):
        if d.get(f):
          d2 = dict(d)
          d2.pop(f)
          if f == 'd':
            d2.pop('fz', None)
          yield dict(case, **{name: d2})


def _sub_descs(d):
  k = d['k']
  if k == 'list' or (k == 'tuple' and 'elem' in d):
    yield d['elem']
  elif k == 'tuple':
    for e in d['elems']:
      yield e
    if len(d['elems']) > 1:
      yield dict(d, elems=d['elems'][:-1], d=None, fz=False)
  elif k == 'dict' and d.get('fields'):
    for _, s in d['fields']:
      yield s
    if len(d['fields']) > 1:
      for i in range(len(d['fields'])):
        yield dict(d, fields=d['fields'][:i] + d['fields'][i + 1:])
  elif k == 'union':
    for c in d['cands']:
      yield c
    if len(d['cands']) > 2:
      for i in range(len(d['cands'])):
        yield dict(d, cands=d['cands'][:i] + d['cands'][i + 1:])


PROP = C04()
