"""Shared vocabulary of the value-spec checks (C04, C03): value / spec codecs between JSON
descriptions, real pyglove objects and the wire format of lean/PgModel/TypingJson.lean; spec and
value generators.  pyglove is imported lazily (never at module import).

Value wire format  : ["M"] ["N"] ["b",bool] ["i",int] ["f",m,e] ["s",str] ["l",[..]] ["t",[..]]
                     ["d",[[k,v],..]] ["o",cls,uid,partial]
Spec description   : {"k": kind, ...constructor arguments..., "d": default value or absent,
                      "n": 0 | 1 (is_noneable=True) | 2 (.noneable()), "fz": bool}
Spec state (readback of the real object through its public properties) = the Lean `Spec`.
"""

import copy

REGEX_POOL = ['a.*', '.*b$', '[0-9]+']
STR_POOL = ['a', 'ab', 'b', 'xb', '7', '', 'abc', 'q']
# user classes: 0 = A, 1 = B(A), 2 = C, 3 = P(MaybePartial), 4 = S (a pg.Object with a nested pg.Object child)
SUBCLASS = [[0, 0], [1, 1], [2, 2], [3, 3], [1, 0], [4, 4]]
OBJ_POOL = [[0, 0, False], [0, 1, False], [1, 0, False], [2, 0, False], [3, 0, False], [3, 1, True]]
# Instances of S are built by a script selected by the uid (see sym_object); the flag is the TRUE deep
# partiality of the result (some required field, at any depth, is MISSING_VALUE):
#   0: complete, built directly                 1: built complete with S.partial(), is_partial / sym_missing
#   2: S.partial() without the required x          queried (memoised), then a required field of the nested
#   3: as 1, then the nested field is restored     child's Dict (depth 2) set to MISSING through the child
SYM_POOL = [[4, 0, False], [4, 1, True], [4, 2, True], [4, 3, False]]

_CLS = None


def classes():
  """The user classes of the vocabulary (created once per process, after pyglove is importable)."""
  global _CLS
  if _CLS is None:
    import pyglove as pg

    class Base:
      def __init__(self, uid, partial=False):
        self.uid = uid
        self.partial = partial

      def __eq__(self, other):
        return type(other) is type(self) and other.uid == self.uid

      def __ne__(self, other):
        return not self.__eq__(other)

      def __hash__(self):
        return hash((type(self).__name__, self.uid))

      def __repr__(self):
        return '%s#%d' % (type(self).__name__, self.uid)

    class A(Base):
      pass

    class B(A):
      pass

    class C(Base):
      pass

    class P(Base, pg.utils.MaybePartial):
      @property
      def is_partial(self):
        return self.partial

      def missing_values(self, flatten=True):
        return {'x': pg.MISSING_VALUE} if self.partial else {}

    T = pg.typing

    @pg.members([('uid', T.Int()), ('w', T.Int()), ('d', T.Dict([('q', T.Int())]))])
    class C03S2(pg.Object):
      pass

    @pg.members([('uid', T.Int()), ('x', T.Int()), ('c', T.Object(C03S2))])
    class C03S(pg.Object):
      pass

    _CLS = [A, B, C, P, C03S, C03S2]
  return _CLS


def sym_object(uid):
  """A fresh instance of the symbolic class S built by script `uid` (see SYM_POOL)."""
  import pyglove as pg
  S, S2 = classes()[4], classes()[5]
  if uid == 0:
    return S(uid=0, x=1, c=S2(uid=0, w=1, d={'q': 1}))
  if uid == 2:
    return S.partial(uid=2, c=S2(uid=2, w=1, d={'q': 1}))
  s = S.partial(uid=uid, x=1, c=S2.partial(uid=uid, w=1, d={'q': 1}))
  _ = s.is_partial                 # derived state is queried (and memoised) while the object is complete
  _ = s.sym_missing()
  s.c.d.rebind(q=pg.MISSING_VALUE)
  if uid == 3:
    s.c.d.rebind(q=5)
  return s


def deep_missing(x):
  """Ground truth of partiality: some member, at any depth, is MISSING_VALUE (walks the raw members,
  never the memoised `sym_missing` / `is_partial`)."""
  import pyglove as pg
  if pg.MISSING_VALUE == x:
    return True
  if isinstance(x, pg.Symbolic):
    return any(deep_missing(v) for _, v in x.sym_items())
  if isinstance(x, (list, tuple)):
    return any(deep_missing(v) for v in x)
  if isinstance(x, dict):
    return any(deep_missing(v) for v in x.values())
  return bool(getattr(x, 'partial', False))


# ------------------------------------------------------------------------------------------
# values
# ------------------------------------------------------------------------------------------

def to_py(v):
  import pyglove as pg
  t = v[0]
  if t == 'M':
    return pg.MISSING_VALUE
  if t == 'N':
    return None
  if t == 'b':
    return bool(v[1])
  if t == 'i':
    return int(v[1])
  if t == 'f':
    return float(v[1]) / float(2 ** v[2])
  if t == 's':
    return v[1]
  if t == 'l':
    return [to_py(x) for x in v[1]]
  if t == 't':
    return tuple(to_py(x) for x in v[1])
  if t == 'd':
    return {k: to_py(x) for k, x in v[1]}
  if t == 'o':
    if v[1] == 4:
      return sym_object(v[2])
    return classes()[v[1]](v[2], v[3])
  raise ValueError(v)


def from_py(x):
  """Canonical wire form of a Python value (public observables only)."""
  import pyglove as pg
  if pg.MISSING_VALUE == x:          # MISSING_VALUE, copies of it and MissingValue(spec) all compare equal
    return ['M']
  if x is None:
    return ['N']
  if isinstance(x, bool):
    return ['b', x]
  if isinstance(x, int):
    return ['i', x]
  if isinstance(x, float):
    n, d = x.as_integer_ratio()
    return ['f', n, d.bit_length() - 1]
  if isinstance(x, str):
    return ['s', x]
  if isinstance(x, list):
    return ['l', [from_py(y) for y in (x.sym_values() if hasattr(x, 'sym_values') else x)]]
  if isinstance(x, tuple):
    return ['t', [from_py(y) for y in x]]
  if isinstance(x, dict):
    items = x.sym_items() if hasattr(x, 'sym_items') else x.items()
    return ['d', [[k if isinstance(k, str) else repr(k), from_py(y)] for k, y in items]]
  cl = classes()
  if type(x) is cl[4]:
    return ['o', 4, x.sym_getattr('uid'), deep_missing(x)]
  for i, c in enumerate(cl[:4]):
    if type(x) is c:
      return ['o', i, x.uid, bool(x.partial)]
  return ['?', type(x).__name__]


def fl(num, e=0):
  """Normalised float literal m / 2^e."""
  while e > 0 and num % 2 == 0:
    num //= 2
    e -= 1
  return ['f', num, e]


# ------------------------------------------------------------------------------------------
# specs: description -> real object -> state
# ------------------------------------------------------------------------------------------

def build(desc):
  """Constructs the real value spec from a description (may raise what the constructor raises)."""
  import pyglove as pg
  T = pg.typing
  k = desc['k']
  kw = {}
  if desc.get('d') is not None:
    kw['default'] = to_py(desc['d'])
  if desc.get('fz'):
    kw['frozen'] = True
  n = desc.get('n', 0)
  if n == 1 and k not in ('enum', 'any'):
    kw['is_noneable'] = True
  if k == 'any':
    s = T.Any(**kw)
  elif k == 'bool':
    s = T.Bool(**kw)
  elif k == 'int':
    s = T.Int(min_value=desc.get('lo'), max_value=desc.get('hi'), **kw)
  elif k == 'float':
    lo = to_py(['f'] + desc['lo']) if desc.get('lo') is not None else None
    hi = to_py(['f'] + desc['hi']) if desc.get('hi') is not None else None
    s = T.Float(min_value=lo, max_value=hi, **kw)
  elif k == 'str':
    rx = desc.get('rx')
    s = T.Str(regex=REGEX_POOL[rx] if rx is not None else None, **kw)
  elif k == 'enum':
    kw.setdefault('default', pg.MISSING_VALUE)
    s = T.Enum(kw.pop('default'), [to_py(v) for v in desc['vals']], **kw)
  elif k == 'list':
    s = T.List(build(desc['elem']), min_size=desc.get('mn'), max_size=desc.get('mx'), **kw)
  elif k == 'tuple':
    if 'elems' in desc and desc.get('shared'):
      # Tuple(spec, size=n): ONE element spec object shared by the n positions
      s = T.Tuple(build(desc['elems'][0]), size=len(desc['elems']), **kw)
    elif 'elems' in desc:
      s = T.Tuple([build(e) for e in desc['elems']], **kw)
    else:
      s = T.Tuple(build(desc['elem']), min_size=desc.get('mn'), max_size=desc.get('mx'), **kw)
  elif k == 'dict':
    if desc.get('fields') is None:
      s = T.Dict(**kw)
    else:
      fields = []
      for key, fd in desc['fields']:
        if key[0] == 'c':
          ks = key[1]
        else:
          ks = T.StrKey(REGEX_POOL[key[1]] if key[1] is not None else None)
        fields.append((ks, build(fd)))
      s = T.Dict(fields, **kw)
      if desc.get('ext') is not None:
        # the schema is obtained by EXTENSION: inherited fields first, then the own ones (the state read
        # back below is the merged schema)
        s = s.extend(build(desc['ext']))
  elif k == 'obj':
    s = T.Object(classes()[desc['cls']], **kw)
  elif k == 'union':
    s = T.Union([build(c) for c in desc['cands']], **kw)
  elif k == 'callable':
    # a candidate WITHOUT value type (none of the modelled values is callable): inside a Union it opens
    # the weak-candidate loop and the converter fallback of `Union._apply`
    s = T.Callable(**kw)
  else:
    raise ValueError(k)
  if n == 2:
    s = s.noneable()
  return s


def readback(spec):
  """State of a real value spec through its public properties, in the wire format of the model."""
  import pyglove as pg
  T = pg.typing
  F = [bool(spec.is_noneable), from_py(spec.default), bool(spec.frozen)]
  if isinstance(spec, T.Any):
    return ['any', F]
  if isinstance(spec, T.Bool):
    return ['bool', F]
  if isinstance(spec, T.Int):
    return ['int', spec.min_value, spec.max_value, F]
  if isinstance(spec, T.Float):
    def b(x):
      return None if x is None else from_py(float(x))[1:]
    return ['float', b(spec.min_value), b(spec.max_value), F]
  if isinstance(spec, T.Str):
    return ['str', REGEX_POOL.index(spec.regex.pattern) if spec.regex is not None else None, F]
  if isinstance(spec, T.Enum):
    return ['enum', [from_py(v) for v in spec.values], F]
  if isinstance(spec, T.List):
    return ['list', readback(spec.element.value), spec.min_size, spec.max_size, F]
  if isinstance(spec, T.Tuple):
    return ['tuple', [readback(f.value) for f in spec.elements], spec.min_size, spec.max_size, F]
  if isinstance(spec, T.Dict):
    if spec.schema is None:
      return ['dict', None, F]
    fields = []
    for ks, field in spec.schema.items():
      if isinstance(ks, T.ConstStrKey):
        key = ['c', ks.text]
      elif isinstance(ks, T.StrKey):
        key = ['k', REGEX_POOL.index(ks.regex.pattern) if ks.regex is not None else None]
      else:
        key = ['?', repr(ks)]
      fields.append([key, readback(field.value)])
    return ['dict', fields, F]
  if isinstance(spec, T.Object):
    return ['obj', classes().index(spec.cls), F]
  if isinstance(spec, T.Union):
    return ['union', [readback(c) for c in spec.candidates], F]
  if type(spec) is T.Callable and not (spec.args or spec.kw or spec.return_value):
    return ['callable', F]
  return ['?', type(spec).__name__]


def strings_in(v, acc):
  t = v[0]
  if t == 's':
    acc.add(v[1])
  elif t in ('l', 't'):
    for x in v[1]:
      strings_in(x, acc)
  elif t == 'd':
    for k, x in v[1]:
      acc.add(k)
      strings_in(x, acc)


def strings_in_state(st, acc):
  """All strings occurring anywhere in a spec state (defaults, enum values; kind tags are harmless)."""
  if isinstance(st, str):
    acc.add(st)
  elif isinstance(st, list):
    for x in st:
      strings_in_state(x, acc)


def env_for(states, values):
  import re
  strs = set(STR_POOL)
  for v in values:
    strings_in(v, strs)
  for st in states:
    strings_in_state(st, strs)
  rx = []
  for i, pat in enumerate(REGEX_POOL):
    r = re.compile(pat)
    for s in sorted(strs):
      rx.append([i, s, r.match(s) is not None])
  return {'sub': SUBCLASS, 'rx': rx}


# ------------------------------------------------------------------------------------------
# generators
# ------------------------------------------------------------------------------------------

ATOMS = [['i', 0], ['i', 1], ['i', 2], ['i', -1], ['i', 5], ['b', True], ['b', False], ['f', 1, 0], ['f', 3, 1],
         ['f', 0, 0], ['s', 'a'], ['s', 'b'], ['s', 'ab'], ['s', '7'], ['N'], ['M']]
WRONG = [['s', 'q'], ['i', 3], ['f', 5, 1], ['l', []], ['t', []], ['d', []], ['o', 2, 0, False], ['b', True]]
ENUM_POOLS = [
    [['s', 'a'], ['s', 'b'], ['s', 'ab'], ['s', 'q']],
    [['i', 0], ['i', 1], ['i', 2], ['i', 5]],
    [['i', 1], ['s', 'a'], ['f', 3, 1], ['i', 2]],
    [['f', 1, 0], ['f', 3, 1], ['f', 2, 0]],
    [['b', True], ['i', 2], ['i', 0]],
]


class SpecGen:
  def __init__(self, rng):
    self.r = rng

  # -- specs ---------------------------------------------------------------------------------
  def spec(self, depth):
    r = self.r
    kinds = [(3, 'int'), (2, 'float'), (2, 'str'), (1, 'bool'), (2, 'enum'), (1, 'any'), (1, 'obj')]
    if depth > 0:
      kinds += [(3, 'list'), (3, 'tuple'), (3, 'dict'), (2, 'union')]
    k = r.weighted(kinds)
    d = {'k': k}
    if k == 'int':
      lo, hi = self.bounds(-2, 6)
      d['lo'], d['hi'] = lo, hi
    elif k == 'float':
      lo, hi = self.bounds(-4, 12)
      d['lo'] = None if lo is None else fl(lo, 1)[1:]
      d['hi'] = None if hi is None else fl(hi, 1)[1:]
    elif k == 'str':
      d['rx'] = r.below(len(REGEX_POOL)) if r.chance(0.3) else None
    elif k == 'enum':
      pool = r.choice(ENUM_POOLS)
      n = r.randint(1, len(pool))
      d['vals'] = r.sample(pool, n)
      d['pool'] = ENUM_POOLS.index(pool)
      if r.chance(0.15):
        d['vals'].append(['N'])
    elif k == 'obj':
      d['cls'] = r.below(4)
    elif k == 'list':
      d['elem'] = self.spec(depth - 1)
      mn, mx = self.sizes()
      d['mn'], d['mx'] = mn, mx
    elif k == 'tuple':
      if r.chance(0.5):
        d['elems'] = [self.spec(depth - 1) for _ in range(r.randint(1, 3))]
      else:
        d['elem'] = self.spec(depth - 1)
        mn, mx = self.sizes()
        if mn is not None and mx is not None and mn == mx:
          # Tuple(spec, size=n) shares one spec object between the n fields; the model has no
          # aliasing, so fixed tuples are always built from explicit element lists.
          mx = mn + 1
        d['mn'], d['mx'] = mn, mx
    elif k == 'dict':
      if r.chance(0.15):
        d['fields'] = None
      else:
        names = r.sample(['x', 'y', 'z', 'w'], r.randint(1, 3))
        d['fields'] = [[['c', nm], self.spec(depth - 1)] for nm in names]
        if r.chance(0.3):
          d['fields'].append([['k', r.choice([None, None, 0, 1])], self.spec(depth - 1)])
    elif k == 'union':
      cands, seen = [], set()
      for _ in range(r.randint(2, 3)):
        for _try in range(6):
          c = self.spec(depth - 1 if r.chance(0.3) else 0)
          key = c['k'] if c['k'] not in ('enum', 'obj') else (c['k'], c.get('pool'), c.get('cls'))
          if c['k'] in ('union', 'any') or key in seen or (c['k'] == 'enum' and 'enum' in [x['k'] for x in cands]):
            continue
          seen.add(key)
          cands.append(c)
          break
      if len(cands) < 2:
        cands = [{'k': 'int', 'lo': None, 'hi': None}, {'k': 'str', 'rx': None}]
      if r.chance(0.3):
        # a candidate without value type next to (preferably) a constrained Float reachable only
        # through the int -> float converter
        if r.chance(0.6) and not any(c['k'] in ('float', 'int', 'bool') for c in cands):
          lo, hi = self.bounds(-4, 12)
          fc = {'k': 'float', 'lo': None if lo is None else fl(lo, 1)[1:], 'hi': None if hi is None else fl(hi, 1)[1:], 'n': 0}
          cands.insert(r.below(len(cands) + 1), fc)
        cands.insert(r.below(len(cands) + 1), {'k': 'callable', 'n': r.choice([0, 0, 1])})
      d['cands'] = cands
    self.flags(d)
    return d

  def bounds(self, a, b):
    """Range bounds; zero (falsy) bounds and lo == hi are over-represented on purpose."""
    r = self.r
    lo = r.randint(a, b) if r.chance(0.5) else None
    hi = r.randint(a, b) if r.chance(0.5) else None
    if lo is not None and r.chance(0.2):
      lo = 0
    if hi is not None and r.chance(0.2):
      hi = 0
    if lo is not None and hi is None and r.chance(0.1):
      hi = lo
    if lo is not None and hi is not None and lo > hi:
      lo, hi = hi, lo
    return lo, hi

  def sizes(self):
    """Size bounds; max_size == 0, size == 0 and min == max are over-represented on purpose."""
    r = self.r
    mn = r.randint(0, 3) if r.chance(0.5) else None
    mx = r.randint(0, 4) if r.chance(0.5) else None
    if mx is not None and r.chance(0.25):
      mx = 0
    if mn is not None and r.chance(0.15):
      mx = mn
    if mn is not None and mx is not None and mn > mx:
      mn, mx = mx, mn
    return mn, mx

  def flags(self, d):
    """noneable / default / frozen; the default is a value the spec (probably) accepts."""
    r = self.r
    d['n'] = r.weighted([(12, 0), (3, 1), (2, 2)])
    if d['k'] in ('enum', 'any') and d['n'] == 1:
      d['n'] = 2
    if d['k'] == 'callable':
      return
    if r.chance(0.35) and not (d['k'] == 'dict' and d.get('fields') is not None):
      d['d'] = self.valid(d)
      if d['d'] == ['M']:
        del d['d']
    if d.get('d') is not None and r.chance(0.3):
      d['fz'] = True

  # -- values --------------------------------------------------------------------------------
  def valid(self, d, depth=0):
    """A value the spec probably accepts (best effort)."""
    r = self.r
    k = d['k']
    if d.get('fz') and d.get('d') is not None and r.chance(0.7):
      return copy.deepcopy(d['d'])
    if d.get('n') and r.chance(0.1):
      return ['N']
    if k == 'any':
      return copy.deepcopy(r.choice(ATOMS[:14]))
    if k == 'callable':
      return ['N'] if d.get('n') else copy.deepcopy(r.choice(WRONG))     # (no modelled value is callable)
    if k == 'bool':
      return ['b', r.chance(0.5)]
    if k == 'int':
      lo = d.get('lo') if d.get('lo') is not None else (d['hi'] - 3 if d.get('hi') is not None else -1)
      hi = d.get('hi') if d.get('hi') is not None else lo + 4
      return ['i', r.randint(lo, max(lo, hi))]
    if k == 'float':
      lo = d['lo'][0] * 2 // (2 ** d['lo'][1]) if d.get('lo') is not None else None   # in halves
      hi = d['hi'][0] * 2 // (2 ** d['hi'][1]) if d.get('hi') is not None else None
      if lo is None:
        lo = (hi - 6) if hi is not None else -2
      if hi is None:
        hi = lo + 8
      h = r.randint(lo, max(lo, hi))
      if h % 2 == 0 and r.chance(0.3):
        return ['i', h // 2]
      return fl(h, 1)
    if k == 'str':
      rx = d.get('rx')
      if rx is None:
        return ['s', r.choice(STR_POOL)]
      return ['s', {0: ['a', 'ab', 'abc'], 1: ['b', 'ab', 'xb'], 2: ['7']}[rx][r.below({0: 3, 1: 3, 2: 1}[rx])]]
    if k == 'enum':
      return copy.deepcopy(r.choice(d['vals']))
    if k == 'obj':
      pool = [o for o in OBJ_POOL + SYM_POOL if [o[0], d['cls']] in SUBCLASS and not o[2]]
      return ['o'] + r.choice(pool)
    if k == 'list':
      mn = d.get('mn') or 0
      mx = d.get('mx') if d.get('mx') is not None else mn + 2
      return ['l', [self.valid(d['elem'], depth + 1) for _ in range(r.randint(mn, max(mn, mx)))]]
    if k == 'tuple':
      if 'elems' in d:
        return ['t', [self.valid(e, depth + 1) for e in d['elems']]]
      mn = d.get('mn') or 0
      mx = d.get('mx') if d.get('mx') is not None else mn + 2
      return ['t', [self.valid(d['elem'], depth + 1) for _ in range(r.randint(mn, max(mn, mx)))]]
    if k == 'dict':
      if d.get('fields') is None:
        return ['d', [[r.choice(['x', 'p']), copy.deepcopy(r.choice(ATOMS[:12]))] for _ in range(r.below(3))][:1]]
      items = []
      for key, fd in d['fields']:
        if key[0] == 'c':
          if fd.get('d') is not None and r.chance(0.3):
            continue          # leave it to the default
          items.append([key[1], self.valid(fd, depth + 1)])
        else:
          names = {None: ['p', 'ab', 'b'], 0: ['ab', 'abc'], 1: ['b', 'xb']}[key[1]]
          for nm in r.sample(names, r.below(3)):
            if nm not in [i[0] for i in items] and nm not in [f[0][1] for f in d['fields'] if f[0][0] == 'c']:
              items.append([nm, self.valid(fd, depth + 1)])
      if r.chance(0.25):
        items = r.shuffle(items)
      return ['d', items]
    if k == 'union':
      real = [c for c in d['cands'] if c['k'] != 'callable'] or d['cands']
      return self.valid(r.choice(real), depth + 1)
    raise ValueError(k)

  def boundary(self, d):
    """Boundary and near-miss values of a spec (deterministic part) plus a few random ones."""
    r = self.r
    k = d['k']
    out = []
    if d.get('d') is not None:
      out.append(copy.deepcopy(d['d']))
    if k == 'int':
      for b in (d.get('lo'), d.get('hi')):
        if b is not None:
          out += [['i', b - 1], ['i', b], ['i', b + 1], ['f', b, 0]]
      out += [['i', 0], ['b', True], ['f', 3, 1]]
    elif k == 'float':
      for b in (d.get('lo'), d.get('hi')):
        if b is not None:
          m, e = b
          out += [fl(m * 2 - (2 ** e), e + 1), ['f', m, e], fl(m * 2 + (2 ** e), e + 1)]
          if e == 0:
            out += [['i', m], ['i', m - 1], ['i', m + 1]]
      out += [['i', 1], ['b', True], ['f', 3, 1]]
    elif k == 'str':
      out += [['s', s] for s in ('a', 'ab', 'xb', '7', '')]
    elif k == 'bool':
      out += [['b', True], ['b', False], ['i', 1], ['i', 0]]
    elif k == 'enum':
      out += copy.deepcopy(d['vals'])
      out += copy.deepcopy(r.sample(ENUM_POOLS[d.get('pool', 0)], 2))
      out += [['i', 1], ['f', 1, 0], ['b', True]]
    elif k == 'obj':
      out += [['o'] + o for o in OBJ_POOL]
    elif k == 'any':
      out += copy.deepcopy(r.sample(ATOMS, 3))
    elif k == 'callable':
      out += [['i', 1], ['s', 'a'], ['N']]
    elif k in ('list', 'tuple') and 'elems' not in d:
      tag = 'l' if k == 'list' else 't'
      mn, mx = d.get('mn') or 0, d.get('mx')
      for n in sorted({0, mn - 1, mn, mn + 1, (mx if mx is not None else mn + 1), (mx + 1 if mx is not None else mn + 2), 3}):
        if n >= 0:
          out.append([tag, [self.valid(d['elem']) for _ in range(n)]])
      n = max(mn, 1)
      bad = [self.valid(d['elem']) for _ in range(n)]
      bad[r.below(n)] = self.near_miss(d['elem'])
      out.append([tag, bad])
      out.append(['t' if tag == 'l' else 'l', [self.valid(d['elem']) for _ in range(mn)]])
    elif k == 'tuple':
      n = len(d['elems'])
      out.append(['t', [self.valid(e) for e in d['elems']]])
      out.append(['t', [self.valid(e) for e in d['elems']][:n - 1]])
      out.append(['t', [self.valid(e) for e in d['elems']] + [['i', 0]]])
      bad = [self.valid(e) for e in d['elems']]
      i = r.below(n)
      bad[i] = self.near_miss(d['elems'][i])
      out.append(['t', bad])
      out.append(['l', [self.valid(e) for e in d['elems']]])
    elif k == 'dict':
      full = self.valid(d)
      out.append(full)
      if d.get('fields') is not None:
        consts = [f for f in d['fields'] if f[0][0] == 'c']
        allc = ['d', [[f[0][1], self.valid(f[1])] for f in consts]]
        out.append(allc)
        for f in consts[:2]:
          out.append(['d', [kv for kv in copy.deepcopy(allc[1]) if kv[0] != f[0][1]]])
        out.append(['d', copy.deepcopy(allc[1]) + [[r.choice(['extra', 'ab', 'xb']), ['i', 1]]]])
        if consts:
          f = r.choice(consts)
          out.append(['d', [[kv[0], self.near_miss(f[1]) if kv[0] == f[0][1] else kv[1]] for kv in copy.deepcopy(allc[1])]])
          out.append(['d', [[kv[0], ['M'] if kv[0] == f[0][1] else kv[1]] for kv in copy.deepcopy(allc[1])]])
        out.append(['d', list(reversed(copy.deepcopy(allc[1])))])
      else:
        out += [['d', []], ['d', [['p', ['i', 1]]]]]
    elif k == 'union':
      for c in d['cands']:
        out += self.boundary(c)[:5]
      if any(c['k'] == 'callable' for c in d['cands']):
        # ints for the Float candidates (the converter fallback), inside and outside their ranges
        for c in d['cands']:
          if c['k'] == 'float':
            for b in (c.get('lo'), c.get('hi')):
              if b is not None:
                q = b[0] // (2 ** b[1])
                out += [['i', q - 1], ['i', q], ['i', q + 1], ['i', q + 4]]
            out += [['i', 5], ['i', -3], ['b', True]]
    out.append(self.valid(d))
    return out

  def near_miss(self, d):
    """A value just outside the spec (wrong type or just out of range)."""
    r = self.r
    k = d['k']
    if k == 'int' and d.get('hi') is not None:
      return ['i', d['hi'] + 1]
    if k == 'int' and d.get('lo') is not None:
      return ['i', d['lo'] - 1]
    if k == 'float' and d.get('hi') is not None:
      return fl(d['hi'][0] * 2 + 2 ** d['hi'][1], d['hi'][1] + 1)
    if k == 'str' and d.get('rx') is not None:
      return ['s', 'q']
    if k in ('list', 'tuple', 'dict', 'union') and r.chance(0.5):
      b = self.boundary(d)
      return r.choice(b)
    return copy.deepcopy(r.choice(WRONG))

  # -- related specs ---------------------------------------------------------------------------
  def mutate(self, d):
    """A spec related to `d`: one parameter narrowed / widened / toggled (possibly nested)."""
    r = self.r
    d = copy.deepcopy(d)
    k = d['k']
    children = []
    if k == 'list' or (k == 'tuple' and 'elem' in d):
      children = [('elem', None)]
    elif k == 'tuple':
      children = [('elems', i) for i in range(len(d['elems']))]
    elif k == 'dict' and d.get('fields'):
      children = [('fields', i) for i in range(len(d['fields']))]
    elif k == 'union':
      children = [('cands', i) for i in range(len(d['cands']))]
    if children and r.chance(0.5):
      f, i = r.choice(children)
      if f == 'elem':
        d['elem'] = self.mutate(d['elem'])
      elif f == 'fields':
        d['fields'][i][1] = self.mutate(d['fields'][i][1])
      else:
        d[f][i] = self.mutate(d[f][i])
      self.fix_default(d)
      return d
    choice = r.below(10)
    if choice == 0:
      d['n'] = 0 if d.get('n') else r.choice([1, 2])
      if d['k'] in ('enum', 'any') and d['n'] == 1:
        d['n'] = 2
    elif choice == 1:
      if d.get('d') is None:
        if not (k == 'dict' and d.get('fields') is not None):
          v = self.valid(d)
          if v != ['M']:
            d['d'] = v
      elif r.chance(0.5):
        d.pop('d')
        d.pop('fz', None)
      else:
        d['d'] = self.valid(d)
    elif choice == 2:
      if d.get('fz'):
        d.pop('fz')
      elif d.get('d') is not None:
        d['fz'] = True
    elif choice == 3 and r.chance(0.3):
      return self.spec(1)       # unrelated spec
    else:
      self.tweak(d)
    self.fix_default(d)
    return d

  def tweak(self, d):
    r = self.r
    k = d['k']
    if k == 'int':
      f = r.choice(['lo', 'hi'])
      d[f] = None if (d.get(f) is not None and r.chance(0.3)) else (0 if r.chance(0.15) else (
          (d[f] + r.choice([-2, -1, 1, 2])) if d.get(f) is not None else r.randint(-2, 6)))
      if d['lo'] is not None and d['hi'] is not None and d['lo'] > d['hi']:
        d['hi'] = d['lo']
    elif k == 'float':
      f = r.choice(['lo', 'hi'])
      if d.get(f) is not None and r.chance(0.3):
        d[f] = None
      else:
        cur = d[f][0] * 2 // (2 ** d[f][1]) if d.get(f) is not None else r.randint(-4, 12)
        d[f] = fl(cur + r.choice([-3, -1, 0, 1, 3]), 1)[1:]
      if d['lo'] is not None and d['hi'] is not None and to_num(d['lo']) > to_num(d['hi']):
        d['hi'] = d['lo']
    elif k == 'str':
      d['rx'] = None if d.get('rx') is not None else r.below(len(REGEX_POOL))
    elif k == 'enum':
      pool = ENUM_POOLS[d.get('pool', 0)]
      vals = [v for v in d['vals'] if v != ['N']]
      if len(vals) > 1 and r.chance(0.5):
        vals.remove(r.choice(vals))
      else:
        extra = [v for v in pool if v not in vals]
        if extra:
          vals.append(copy.deepcopy(r.choice(extra)))
        elif r.chance(0.3):
          vals = copy.deepcopy(r.sample(r.choice(ENUM_POOLS), 2))
      if ['N'] in d['vals'] and r.chance(0.7):
        vals.append(['N'])
      d['vals'] = vals
    elif k == 'obj':
      d['cls'] = r.choice([0, 1, 1, 2, 3])
    elif k == 'list' or (k == 'tuple' and 'elem' in d):
      f = r.choice(['mn', 'mx'])
      if d.get(f) is not None and r.chance(0.3):
        d[f] = None
      elif r.chance(0.2):
        d[f] = 0
      else:
        d[f] = max(0, (d[f] if d.get(f) is not None else r.randint(0, 3)) + r.choice([-1, 1, 1, 2]))
      if d.get('mn') is not None and d.get('mx') is not None and d['mn'] > d['mx']:
        d['mx'] = d['mn']
      if k == 'tuple':
        if r.chance(0.3):
          # variable -> fixed; the length is steered to the variable tuple's own bounds (just outside / inside)
          n = r.randint(1, 3)
          if d.get('mx') is not None and r.chance(0.5):
            n = max(1, d['mx'] + r.choice([1, 1, 0]))
          elif d.get('mn') and r.chance(0.4):
            n = max(1, d['mn'] - 1)
          e = d.pop('elem')
          d.pop('mn', None)
          d.pop('mx', None)
          d['elems'] = [copy.deepcopy(e) for _ in range(n)]
        elif (d.get('mn') or 0) == d.get('mx'):
          d['mx'] = d['mx'] + 1
    elif k == 'tuple':
      c = r.below(4)
      if c == 0 and len(d['elems']) > 1:
        d['elems'].pop()
      elif c == 1:
        d['elems'].append(self.spec(0))
      elif c == 2:
        e = d.pop('elems')[0]
        d['elem'] = e
        d['mn'], d['mx'] = self.sizes()
        if (d['mn'] or 0) == d['mx']:
          d['mx'] += 1
      else:
        i = r.below(len(d['elems']))
        d['elems'][i] = self.mutate(d['elems'][i])
    elif k == 'dict':
      if d.get('fields') is None:
        d['fields'] = [[['c', 'x'], self.spec(0)]]
      else:
        c = r.below(5)
        if c == 0 and len(d['fields']) > 1:
          d['fields'].pop(r.below(len(d['fields'])))
        elif c == 1:
          used = [f[0][1] for f in d['fields'] if f[0][0] == 'c']
          free = [n for n in ['x', 'y', 'z', 'w', 'v'] if n not in used]
          pos = r.below(len(d['fields']) + 1)
          if any(f[0][0] == 'k' for f in d['fields']):
            pos = 0
          d['fields'].insert(pos, [['c', r.choice(free)], self.spec(0)])
        elif c == 2 and not any(f[0][0] == 'k' for f in d['fields']):
          d['fields'].append([['k', r.choice([None, 0])], self.spec(0)])
        elif c == 3 and r.chance(0.3):
          d['fields'] = None
        else:
          i = r.below(len(d['fields']))
          d['fields'][i][1] = self.mutate(d['fields'][i][1])
    elif k == 'union':
      c = r.below(3)
      if c == 0 and len(d['cands']) > 2:
        d['cands'].pop(r.below(len(d['cands'])))
      elif c == 1:
        kinds = {x['k'] for x in d['cands']}
        for _ in range(5):
          n = self.spec(0)
          if n['k'] not in kinds and n['k'] not in ('any', 'union'):
            d['cands'].append(n)
            break
      else:
        i = r.below(len(d['cands']))
        m = self.mutate(d['cands'][i])
        if m['k'] == d['cands'][i]['k'] and (m['k'] != 'obj' or m['cls'] == d['cands'][i]['cls']):
          d['cands'][i] = m
    elif k == 'any' or k == 'bool' or k == 'callable':
      d['n'] = 0 if d.get('n') else 2

  def fix_default(self, d):
    """After a mutation the recorded default may no longer be acceptable: keep it in ~35 % of
    the cases (the constructor then raises and the pair is regenerated), else redraw / drop."""
    if d.get('d') is None:
      return
    if self.r.chance(0.65):
      if d['k'] == 'dict' and d.get('fields') is not None:
        d.pop('d')
        d.pop('fz', None)
        return
      v = self.valid(d)
      if v == ['M']:
        d.pop('d')
        d.pop('fz', None)
      else:
        d['d'] = v


def frozen_pair(g):
  """A (child, base) pair of specs that are BOTH frozen, mostly over an Enum base: the child is an
  Int / Str / Float / Enum frozen to one candidate of the base's value list (the same as the base's
  frozen value or another one); sometimes both are wrapped as the same field of a Dict (schema
  inheritance)."""
  r = g.r
  pool = r.choice(ENUM_POOLS[:3])
  vals = copy.deepcopy(r.sample(pool, r.randint(2, len(pool))))
  x = copy.deepcopy(r.choice(vals))
  y = copy.deepcopy(r.choice(vals)) if r.chance(0.75) else copy.deepcopy(r.choice(pool))
  base = {'k': 'enum', 'vals': vals, 'pool': ENUM_POOLS.index(pool), 'n': 0, 'd': x, 'fz': True}
  if r.chance(0.15):
    base = {'k': {'i': 'int', 's': 'str', 'f': 'float', 'b': 'bool'}[x[0]], 'n': 0, 'd': x, 'fz': True, 'lo': None, 'hi': None, 'rx': None}
  kind = {'i': 'int', 's': 'str', 'f': 'float', 'b': 'bool'}.get(y[0], 'int')
  c = r.below(3)
  if c == 0:
    child = {'k': 'enum', 'vals': copy.deepcopy(r.sample(vals, r.randint(1, len(vals)))), 'pool': ENUM_POOLS.index(pool), 'n': 0}
    if y not in child['vals']:
      child['vals'].append(copy.deepcopy(y))
  else:
    child = {'k': kind, 'n': 0, 'lo': None, 'hi': None, 'rx': None}
  child['d'] = y
  child['fz'] = True
  if r.chance(0.3):
    child.pop('fz')
  elif r.chance(0.35):
    # frozen at a non-None value AND noneable: None must still be refused (the frozen shortcuts of
    # Enum.is_compatible / extend assume a frozen spec accepts exactly its value)
    child['n'] = 2 if child['k'] == 'enum' else r.choice([1, 2])
  if r.chance(0.3):
    child = {'k': 'dict', 'fields': [[['c', 'x'], child]], 'n': 0}
    base = {'k': 'dict', 'fields': [[['c', 'x'], base]], 'n': 0}
  return child, base


def tuple_pair(g):
  """A (child, base) pair: a fixed-length tuple over a variable-length one, the length steered to the
  base's bounds (min - 1, min, max, max + 1), element specs related."""
  r = g.r
  elem = g.spec(0)
  mn = r.choice([None, 0, 1, 2])
  mx = r.choice([None, 1, 2, 3])
  if mn is not None and mx is not None and mn >= mx:
    mx = mn + 1
  base = {'k': 'tuple', 'elem': elem, 'mn': mn, 'mx': mx, 'n': 0}
  cands = [n for n in ((mn or 0) - 1, (mn or 0), mx, (mx + 1) if mx is not None else None, r.randint(1, 3)) if n is not None and n >= 1]
  n = r.choice(cands)
  child = {'k': 'tuple', 'elems': [g.mutate(elem) if r.chance(0.3) else copy.deepcopy(elem) for _ in range(n)], 'n': 0}
  return child, base


def free_dict_pair(g):
  """(a, b): a Dict whose schema is ONE dynamic (StrKey) field with a narrow value spec (or a key regex)
  against the schema-less Dict(), in either order, bare or as the same field / element / Union
  candidate of a wrapper; plus dict values with conforming and non-conforming entries."""
  r = g.r
  for _ in range(20):
    vs = g.spec(0)
    if vs['k'] not in ('any', 'callable'):
      break
  vs['n'] = 0
  vs.pop('d', None)
  vs.pop('fz', None)
  rx = r.choice([None, None, 0, 1])
  one = {'k': 'dict', 'fields': [[['k', rx], vs]], 'n': 0}
  free = {'k': 'dict', 'fields': None, 'n': 0}
  names = {None: ['p', 'q'], 0: ['ab', 'abc'], 1: ['b', 'xb']}[rx]
  vals = [['d', []], ['d', [[names[0], g.valid(vs)]]], ['d', [[names[0], g.near_miss(vs)]]],
          ['d', [[names[1], g.valid(vs)], [names[0], g.near_miss(vs)]]], ['d', [['zz', g.valid(vs)]]],
          ['d', [[names[0], ['s', 'str']]]], ['d', [[names[0], ['i', 11]]]]]
  w = r.below(5)
  def wrap(x):
    if w == 0:
      return {'k': 'dict', 'fields': [[['c', 'x'], x]], 'n': 0}
    if w == 1:
      return {'k': 'list', 'elem': x, 'mn': None, 'mx': None, 'n': 0}
    if w == 2:
      return {'k': 'union', 'cands': [x, {'k': 'str', 'rx': None, 'n': 0}], 'n': 0}
    return x
  if w == 0:
    vals = [['d', [['x', v]]] for v in vals]
  elif w == 1:
    vals = [['l', [v]] for v in vals] + [['l', []]]
  a, b = wrap(one), wrap(free)
  return a, b, vals


def enum_over_base_pair(g):
  """(child, base): an Enum child over a CONSTRAINED non-Enum base (Int / Float range, Str regex) with
  candidates of the right type inside and outside the constraint; bare or as the same Dict field /
  List element."""
  r = g.r
  c = r.below(3)
  if c == 0:
    lo, hi = g.bounds(-1, 4)
    if lo is None and hi is None:
      lo = 0
    base = {'k': 'int', 'lo': lo, 'hi': hi, 'n': 0}
    ins = [['i', x] for x in range(-3, 8) if (lo is None or x >= lo) and (hi is None or x <= hi)]
    outs = [['i', x] for x in range(-3, 8) if not ((lo is None or x >= lo) and (hi is None or x <= hi))]
  elif c == 1:
    lo, hi = g.bounds(-2, 6)
    if lo is None and hi is None:
      hi = 3
    base = {'k': 'float', 'lo': None if lo is None else fl(lo, 1)[1:], 'hi': None if hi is None else fl(hi, 1)[1:], 'n': 0}
    pool = [fl(x, 1) for x in range(-6, 14)] + [['i', x] for x in range(-3, 7)]
    def inside(v):
      x = v[1] / float(2 ** v[2]) if v[0] == 'f' else float(v[1])
      return (lo is None or x >= lo / 2.0) and (hi is None or x <= hi / 2.0)
    ins = [v for v in pool if inside(v)]
    outs = [v for v in pool if not inside(v)]
  else:
    rx = r.below(len(REGEX_POOL))
    base = {'k': 'str', 'rx': rx, 'n': 0}
    import re
    pat = re.compile(REGEX_POOL[rx])
    ins = [['s', x] for x in STR_POOL if pat.match(x)]
    outs = [['s', x] for x in STR_POOL if not pat.match(x)]
  vals = copy.deepcopy(r.sample(ins, min(len(ins), r.randint(1, 2))))
  if outs and r.chance(0.7):
    vals += copy.deepcopy(r.sample(outs, min(len(outs), r.randint(1, 2))))
  vals = r.shuffle(vals) if len(vals) > 1 else vals
  child = {'k': 'enum', 'vals': vals, 'pool': 0, 'n': 0}
  if r.chance(0.4):
    child['d'] = copy.deepcopy(vals[0])
  w = r.below(4)
  if w == 0:
    child = {'k': 'dict', 'fields': [[['c', 'x'], child]], 'n': 0}
    base = {'k': 'dict', 'fields': [[['c', 'x'], base]], 'n': 0}
  elif w == 1:
    child = {'k': 'list', 'elem': child, 'mn': None, 'mx': None, 'n': 0}
    base = {'k': 'list', 'elem': base, 'mn': None, 'mx': None, 'n': 0}
  return child, base


def var_tuple_pair(g):
  """(child, base): a variable-length tuple with min_size >= 1 and NO max_size over a variable-length
  base that has a max_size (the child must inherit it), or with min_size 0 over a base with a min_size."""
  r = g.r
  elem = g.spec(0)
  bmn = r.choice([None, 0, 1, 2])
  bmx = (bmn or 0) + r.randint(1, 2)
  base = {'k': 'tuple', 'elem': elem, 'mn': bmn, 'mx': bmx, 'n': 0}
  if r.chance(0.75):
    cmn = r.randint(max(1, bmn or 0), bmx)
    if cmn == bmx:
      cmn = max(1, bmx - 1) if bmx > 1 else 1
    child = {'k': 'tuple', 'elem': copy.deepcopy(elem), 'mn': cmn, 'mx': None, 'n': 0}
  else:
    child = {'k': 'tuple', 'elem': copy.deepcopy(elem), 'mn': None, 'mx': r.choice([None, bmx]), 'n': 0}
  vals = [['t', [g.valid(elem) for _ in range(n)]] for n in (bmx - 1, bmx, bmx + 1, bmx + 2) if n >= 0]
  return child, base, vals


def shared_tuple_pair(g):
  """(a, b): a per-position fixed tuple whose LATER elements differ from the first, against a tuple declared
  with `size=` (one shared element spec equal / related to the first element)."""
  r = g.r
  e0 = g.spec(0)
  n = r.randint(2, 3)
  others = []
  for _ in range(n - 1):
    e = g.spec(0)
    if r.chance(0.3):
      e = g.mutate(e0)
    others.append(e)
  a = {'k': 'tuple', 'elems': [copy.deepcopy(e0)] + others, 'n': 0}
  sh = copy.deepcopy(e0) if r.chance(0.7) else g.mutate(e0)
  b = {'k': 'tuple', 'elems': [copy.deepcopy(sh) for _ in range(n)], 'shared': True, 'n': 0}
  vals = [['t', [g.valid(x) for x in a['elems']]] for _ in range(3)] + [['t', [g.valid(sh) for _ in range(n)]] for _ in range(2)]
  return a, b, vals


def to_num(b):
  return b[0] / float(2 ** b[1])


def kind_path(d, depth=0):
  """Short shape string for histograms."""
  k = d['k']
  if k == 'list' or (k == 'tuple' and 'elem' in d):
    return '%s(%s)' % (k if k == 'list' else 'tuplevar', kind_path(d['elem'], depth + 1) if depth < 1 else '..')
  if k == 'tuple':
    return 'tuplefix%d' % len(d['elems'])
  if k == 'dict':
    if d.get('fields') is None:
      return 'dict(free)'
    return 'dict%d%s' % (len(d['fields']), '+dyn' if any(f[0][0] == 'k' for f in d['fields']) else '')
  if k == 'union':
    return 'union%d' % len(d['cands'])
  return k
