"""C07 — clone fidelity and independence: generator, implementation runner, oracle.

Same case shape, model and runner as C01 (harness/symcommon.py, lean/PgModel/Sym*.lean); the
histories are biased towards `clone` (deep / shallow) followed by mutations of either copy.
Oracle on the real code, at every `clone`: pg.eq(original, clone); same class and flag triple
(sealed, accessor_writable, allow_partial) at every node; the clone is a tree of its own (root
without parent, empty path, C01 inside); no symbolic node object shared; non-symbolic leaf objects
shared by a shallow clone and not by a deep clone; copy.copy / copy.deepcopy give the same
result; the original is unchanged by the call. After every later step: a copy whose tree was not
the one operated on still has the same content.
"""

import copy
import json

from harness.common.framework import Prop
from harness import symcommon as sc
from harness import c01
from harness import c07lib


class Gen07(c01.Gen):
  def atom(self):
    r = self.r
    if r.chance(0.2):
      return ['q']
    return super().atom()

  def clone_op(self):
    r = self.r
    j = {'op': 'clone', 't': r.below(64) if r.chance(0.55) else 0, 'deep': r.chance(0.5), 'n': not r.chance(0.15)}
    if r.chance(0.4):
      # clone inside scoped flags: the scope must not leak into the clone
      sc_ = {}
      if r.chance(0.6):
        sc_['partial'] = r.chance(0.7)
      if r.chance(0.4):
        sc_['sealed'] = r.chance(0.5)
      if r.chance(0.4):
        sc_['accw'] = r.chance(0.5)
      j['scope'] = sc_
    return j

  def static_history(self):
    """construction, seal / unseal of inner nodes, clones — no mutation, no offered nodes: the
    stream that may hold pg.Ref to existing nodes, inferred values and individually sealed
    inner containers."""
    r = self.r
    self.static = True
    try:
      ops = []
      for _ in range(r.randint(1, 3)):
        ops.append({'op': 'new', 'v': self.container(r.randint(1, 4), 0.0, True)})
      for _ in range(r.randint(1, 8)):
        k = r.below(10)
        if k < 3:
          ops.append({'op': 'seal', 't': r.below(64), 'flag': r.chance(0.6)})
        elif k < 9:
          ops.append(self.clone_op())
        else:
          ops.append({'op': 'new', 'v': self.container(r.randint(1, 3), 0.0, True)})
      return {'ops': ops}
    finally:
      self.static = False

  def same_tree_ref_history(self):
    """a pg.Ref that points at a node of the SAME tree, built bottom-up (`m = ...; t = holder of
    Ref(m or a node inside m); e = holder of m and t`): m and t are moved into e, in either order, so
    the referenced node is visited before or after the reference by a clone of e. Then clones."""
    r = self.r
    F = list(c01.F)
    inner = ['d', list(F), [[['k', 0], r.below(3)]]] if r.chance(0.6) else ['l', list(F), [r.below(3)]]
    m = ['d', list(F), [[['k', 0], inner], [['k', 1], r.below(4)]]] if r.chance(0.6) else \
        ['o', r.below(2), list(F), [[0, inner], [1, r.below(4)]]]
    tgt = r.below(2)                       # 0: m itself, 1: the node inside m
    refs = [['k', 0], ['R', tgt]]
    t = r.weighted([
        (3, ['d', list(F), [refs, [['k', 1], ['l', list(F), []]]]]),
        (2, ['o', r.below(2), list(F), [[0, ['R', tgt]], [1, ['d', list(F), []]]]]),
        (2, ['d', list(F), [[['k', 0], ['l', list(F), [['R', tgt], 1]]]]]),
        (1, ['d', list(F), [[['k', 0], ['R', 0]], [['k', 2], ['R', 1]]]])])
    # nodes before the third construction: m = 0, its inner node = 1, t = 2
    first_m = r.chance(0.5)
    a, b = (['r', 0], ['r', 2]) if first_m else (['r', 2], ['r', 0])
    e = r.weighted([
        (3, ['d', list(F), [[['k', 0], a], [['k', 1], b]]]),
        (2, ['l', list(F), [a, r.below(3), b]]),
        (2, ['o', 1, list(F), [[0, a], [1, b]]]),
        (1, ['d', list(F), [[['k', 0], ['l', list(F), [a]]], [['k', 1], ['d', list(F), [[['k', 3], b]]]]]])])
    ops = [{'op': 'new', 'v': m}, {'op': 'new', 'v': t}, {'op': 'new', 'v': e}]
    for _ in range(r.randint(1, 4)):
      j = self.clone_op()
      if r.chance(0.6):
        j['t'] = 0
      if r.chance(0.6):
        j['deep'] = True
      ops.append(j)
      if r.chance(0.2):
        ops.append({'op': 'seal', 't': r.below(64), 'flag': r.chance(0.6)})
    return {'ops': ops}

  def history(self, max_ops=25):
    r = self.r
    if r.chance(0.3):
      if r.chance(0.25):
        return self.same_tree_ref_history()
      return self.static_history()
    ops = []
    for _ in range(r.randint(1, 2)):
      v = self.container(r.randint(1, 4), 0.1, True)
      ops.append({'op': 'new', 'v': v})
    n = r.randint(2, max_ops)
    off = r.weighted([(6, 0.0), (4, 0.3)])
    for i in range(n):
      if r.chance(0.08):
        ops.append({'op': 'seal', 't': r.below(64), 'flag': r.chance(0.7)})
      elif i == 0 or r.chance(0.18):
        ops.append(self.clone_op())
      else:
        ops.append(self.op(off))
    return {'ops': ops}


def content(r, n):
  """What `to_json` / `pg.eq` can see of a value: classes, flags, keys, leaves (non-symbolic
  objects by identity) — not parent and path."""
  if isinstance(n, tuple):
    return ['tup', [['obj', id(x)] for x in n]]
  if not r.is_node(n):
    a = r.atom(n)
    return ['obj', id(n)] if isinstance(a, list) and a and a[0] == 'q' else a
  kind = r.kind(n)
  if kind == ['o', 2]:
    kind = ['o', 2, id(n.value)]
  return [kind, [bool(n.is_sealed), bool(n.accessor_writable), bool(n.allow_partial)],
          [[r.key_j(k), content(r, c)] for k, c in r.children(n)]]


def has_placeholder(r, n):
  pg = r.pg
  if not r.is_node(n):
    return False
  for _, c in r.children(n):
    if r.is_node(c):
      if has_placeholder(r, c):
        return True
    elif isinstance(n, pg.List) and c == pg.MISSING_VALUE and not isinstance(c, (int, str)):
      return True
  return False


def leaves(r, n, out):
  for _, c in r.children(n):
    if r.is_node(c):
      leaves(r, c, out)
    elif isinstance(c, sc.Opq):
      out.append(c)
    elif isinstance(c, tuple):
      out += [x for x in c if isinstance(x, sc.Opq)]
  return out


def nodes_of(r, n, out):
  out.append(n)
  for _, c in r.children(n):
    if r.is_node(c):
      nodes_of(r, c, out)
  return out


def check_clone(r, orig, clone, deep, before):
  """None or (kind, text): C07 at the clone call."""
  pg = r.pg
  if content(r, orig) != before:
    return ('original-modified', 'cloning changed the original')
  if clone.sym_parent is not None or list(clone.sym_path.keys):
    return ('clone-not-root', 'clone has parent/path %r' % (clone.sym_path,))
  a, b = nodes_of(r, orig, []), nodes_of(r, clone, [])
  if {id(x) for x in a} & {id(x) for x in b}:
    return ('shared-node', 'a symbolic node object is shared between original and clone')
  placeholder = has_placeholder(r, orig)
  if not placeholder:
    if len(a) != len(b):
      return ('not-equal', 'clone has %d nodes, original %d' % (len(b), len(a)))
    for x, y in zip(a, b):
      if type(x) is not type(y):
        return ('class', 'class differs at %s' % x.sym_path)
      fx = (x.is_sealed, x.accessor_writable, x.allow_partial)
      fy = (y.is_sealed, y.accessor_writable, y.allow_partial)
      if fx != fy:
        which = [n for n, p, q in zip(('sealed', 'accessor_writable', 'allow_partial'), fx, fy) if p != q]
        kx = r.kind(x)
        ks = kx if isinstance(kx, str) else 'r' if kx == ['o', 2] else 'o'
        if which == ['sealed'] and fy[0] and x is not orig:
          # an inner node that was unsealed below a sealed ancestor comes back sealed
          return ('resealed:%s' % ('l' if ks == 'tl' else ks), 'inner node at %r is unsealed in the original and sealed in the clone '
                  '(the constructor of a sealed clone seals everything below)' % str(x.sym_path))
        return ('flags:%s:%s' % (ks, '+'.join(which)),
                'flags (sealed, accessor_writable, allow_partial) %s vs %s at %r' % (fx, fy, str(x.sym_path)))
      if getattr(x, 'value_spec', None) is not getattr(y, 'value_spec', None) and not isinstance(x, pg.Dict):
        return ('spec', 'value_spec differs at %s' % x.sym_path)
      if isinstance(x, pg.Ref) and x.value is not y.value:
        return ('ref-target', 'the clone of a pg.Ref at %r refers to another object' % str(x.sym_path))
    la, lb = leaves(r, orig, []), leaves(r, clone, [])
    if len(la) != len(lb):
      return ('not-equal', 'leaf objects differ')
    for x, y in zip(la, lb):
      if deep and x is y:
        return ('deep-shares-leaf', 'deep clone shares a non-symbolic leaf object')
      if not deep and x is not y:
        return ('shallow-copies-leaf', 'shallow clone does not share a non-symbolic leaf object')
      if deep:
        # independence of the leaf's inner state: mutate through one copy, read through the other
        x.inner.append(1)
        shared = (y.inner == x.inner) or (x.inner is y.inner)
        x.inner.pop()
        if shared:
          return ('deep-shares-leaf-state', 'a mutation of the inner state of a leaf object of the '
                  'original is visible through the deep clone')
    if _blind(_noflags(content(r, orig))) != _blind(_noflags(content(r, clone))):
      return ('not-equal', 'the clone differs from the original in classes, keys, leaves or Ref targets')
    if not any(r.kind(x) == ['o', 3] for x in a) and not pg.eq(orig, clone):
      # (pg.eq evaluates list items; it raises on a parent-inferred value that cannot be inferred)
      return ('not-equal', 'pg.eq(original, clone) is False')
  # copy.copy / copy.deepcopy coincide with clone(deep)
  other = copy.deepcopy(orig) if deep else copy.copy(orig)
  strip = lambda c: json.loads(json.dumps(c).replace('"obj", ', '"obj", 0*')) if False else c
  del strip
  ca, cb = content(r, clone), content(r, other)
  if _blind(ca) != _blind(cb):
    return ('copy-module', 'copy.%s differs from clone(deep=%s)' % ('deepcopy' if deep else 'copy', deep))
  r.check_root = clone
  return None


def _noflags(c):
  if isinstance(c, list) and len(c) == 3 and isinstance(c[1], list) and len(c[1]) == 3 and \
      all(isinstance(b, bool) for b in c[1]) and isinstance(c[2], list):
    return [c[0], [[k, _noflags(v)] for k, v in c[2]]]
  return c


def _blind(c):
  """content with leaf-object identities blanked (two deep copies never share them)."""
  if isinstance(c, list) and len(c) == 2 and c[0] == 'obj':
    return ['obj']
  if isinstance(c, list):
    return [_blind(x) for x in c]
  return c


def sig07(fail):
  op = fail['op']
  return '%s:%s' % (fail['kind'], op['op'])


class C07(c01.C01):
  id = 'C07'
  props_modules = ['PgProps.C07']
  driver = 'drv_c07'
  rule = ('30 % mutation-free histories (constructions with pg.Ref to existing nodes / to plain lists, '
          'parent-inferred values, individually sealed inner containers; seal / unseal of arbitrary nodes; '
          'clones of arbitrary nodes; a quarter of them: a pg.Ref to a node of the SAME tree, built bottom-up so that the '
          'referenced node comes before or after the reference in visiting order, then clones of the whole tree and of parts); 70 % histories: 1-2 constructions (Dict/List/2 Object classes, flags incl. sealed / '
          'accessor_writable / allow_partial at several depths, non-symbolic leaf objects), then 2-25 '
          'calls, 18 % of them clone(deep or shallow) of an arbitrary node, the rest drawn from the '
          'whole mutator surface of C01 applied to arbitrary nodes of either copy; the model dump is '
          'compared after every step. Non-trivial: at least one clone of a value with >= 2 nodes '
          'succeeded and a later call took effect; distinct: by the JSON text of the history. '
          'Plus an oracle-only family (400 / 5000 cases): pg.functor instances (function- and class-based, any subset of '
          'arguments bound), pg.DNA of 3 search spaces with look-ups before cloning, oneof / manyof / floatv / nested hyper '
          'values with derived state, 6 user classes (own __deepcopy__ / __copy__: return self, __new__ + __dict__, rebuild; '
          'plain) under pg.symbolize and pg.wrap nested in Dict / List / Object trees; instances of 4 classes with class-level '
          'flag defaults (allow_symbolic_mutation = False, allow_symbolic_assignment) whose sealed / allow_partial differ from '
          'the class default (constructor argument, seal() afterwards, sealed inner container, nested instance); clone roots '
          'that are not whole values (obj.sym_init_args of complete / partial objects and functors, inner Dict / List nodes, '
          'DNA.children, OneOf.candidates); cloned by clone / clone(deep) / '
          'copy.copy / copy.deepcopy, then 0-4 mutations of either copy.')
  trusted_base = c01.C01.trusted_base + [
      'copy.deepcopy of non-symbolic leaves returns an independent object (harness class Opq)',
      'outside the model: pg.Ref sharing (exempted by the property), value specs',
      'oracle-only (no model, no correspondence): pg.Functor instances, pg.DNA bound to a DNASpec, hyper '
      'primitives, symbolized / wrapped user classes with their own copy protocol (harness/c07lib.py)',
      'modelled, not verified: the pg.clone dispatcher and the child loop of _sym_clone for containers inside tuples / '
      'plain lists / plain dicts (PgModel/CloneVal.lean; values are trees, deepcopy memo and override are not modelled), '
      'tied by driver op clonev: which mutable objects of the real clone are objects of the real original',
  ]

  def generate(self, rng, tier):
    g = Gen07(rng)
    n = 450 if tier == 'quick' else 7000
    for _ in range(n):
      yield g.history()
    # oracle-only family: library subclasses with per-object state (harness/c07lib.py)
    for _ in range(400 if tier == 'quick' else 5000):
      yield c07lib.gen_case(rng)

  def model_request_with_impl(self, case, impl_out):
    if 'lib' in case and isinstance(impl_out, dict) and impl_out.get('clonev'):
      cv = impl_out['clonev']
      return {'op': 'clonev', 'deep': cv['deep'], 'v': cv['v']}
    return self.model_request(case)

  def compare(self, case, impl_out, model_out):
    if 'lib' in case and isinstance(impl_out, dict) and impl_out.get('clonev'):
      a, b = impl_out['clonev']['shared'], model_out.get('shared')
      if a != b:
        return ('clone of a value with containers inside tuples: which mutable objects of the clone are objects '
                'of the original (pre-order) impl=%s model=%s' % (a, b))
      return None
    return super().compare(case, impl_out, model_out)

  def shrink_candidates(self, case):
    if 'lib' in case:
      s = case['lib']
      muts = s.get('muts', [])
      for i in range(len(muts) - 1, -1, -1):
        yield {'ops': [], 'lib': dict(s, muts=muts[:i] + muts[i + 1:])}
      if s.get('pre'):
        yield {'ops': [], 'lib': dict(s, pre=[])}
      if s.get('tree', 'self') != 'self' and s['fam'] != 'wrapped':
        yield {'ops': [], 'lib': dict(s, tree='self')}
      return
    yield from super().shrink_candidates(case)

  def impl(self, case):
    if 'lib' in case:
      return c07lib.run_case(case)
    pairs = []      # [orig, clone, content(orig), content(clone)]
    state = {'fail': None, 'before': None}

    def extra(r, i, j, out):
      if state['fail'] is not None:
        return
      t = getattr(r, 'last_target', None)
      if j['op'] == 'clone' and out == 'ok' and r.result_new is not None and t is not None:
        # the runner cannot snapshot before the call; cloning twice and comparing the contents
        # of the original around the second call gives the same evidence
        before = content(r, t)
        t.clone(deep=bool(j.get('deep')))
        bad = check_clone(r, t, r.result_new, bool(j.get('deep')), before)
        if bad:
          state['fail'] = {'step': i, 'op': j, 'kind': bad[0], 'what': bad[1]}
          return
        pairs.append([t, r.result_new, content(r, t), content(r, r.result_new)])
        return
      if out == 'skip':
        return
      if t is None:
        # a construction may take offered copies in (and seal them): refresh the snapshots
        for p in pairs:
          p[2], p[3] = content(r, p[0]), content(r, p[1])
        return
      # which trees did the call touch? the tree of the target, and trees offered as values
      root_of = {}
      for root in r.roots:
        for x in nodes_of(r, root, []):
          root_of[id(x)] = id(root)
      for p in pairs:
        o, c = p[0], p[1]
        ro, rc = root_of.get(id(o)), root_of.get(id(c))
        co, cc = content(r, o), content(r, c)
        if ro is not None and rc is not None and ro != rc:
          tr = root_of.get(id(t))
          if tr == ro and cc != p[3]:
            state['fail'] = {'step': i, 'op': j, 'kind': 'interference',
                             'what': 'a call on the tree of the original changed the clone'}
          elif tr == rc and co != p[2]:
            state['fail'] = {'step': i, 'op': j, 'kind': 'interference',
                             'what': 'a call on the tree of the clone changed the original'}
        p[2], p[3] = co, cc

    out = sc.run_history(case, check=True, extra=extra)
    if out['fail'] is None and state['fail'] is not None:
      out['fail'] = state['fail']
    out['clones'] = len(pairs)
    return out

  def oracle(self, case, out):
    f = out.get('fail')
    if not f:
      return None
    return {'signature': sig07(f), 'what': 'after step %d (%s): %s' % (
        f['step'], json.dumps(f['op'])[:300], f['what'])}

  def nontrivial(self, case, out):
    if not isinstance(out, dict) or 'model' not in out:
      return False
    if 'lib' in case:
      return bool(case['lib'].get('muts'))
    seen_clone = False
    for j, s in zip(case['ops'], out['model']):
      if j['op'] == 'clone' and s['out'] == 'ok':
        seen_clone = True
      elif seen_clone and s['out'] == 'ok' and j['op'] != 'new':
        return True
    return False

  def describe(self, case, out):
    if 'lib' in case:
      s = case['lib']
      h = ['lib:' + s['fam'], 'how:' + s['how'], 'tree:' + s.get('tree', 'self')]
      for k in ('variant', 'kind'):
        if k in s:
          h.append('lib:%s:%s' % (s['fam'], s[k]))
      if s['fam'] == 'wrapped':
        h.append('lib:wrapped:' + c07lib.lib()['wrapped_names'][s['cls'] % 12])
      for p in s.get('pre', []):
        h.append('pre:' + p)
      if isinstance(out, dict) and out.get('fail'):
        h.append('oracle-fail:' + sig07(out['fail']))
      return h
    h = super().describe(case, out)
    if isinstance(out, dict):
      h.append('clones:%s' % min(out.get('clones', 0), 3))
      for j, s in zip(case['ops'], out.get('model', [])):
        if j['op'] == 'clone':
          h.append('clone:%s' % ('deep' if j.get('deep') else 'shallow'))
    return h


PROP = C07()
