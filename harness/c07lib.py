"""C07, oracle-only family: the library's own Symbolic subclasses with extra per-object state.

The forest model of C01/C07 (lean/PgModel/Sym*.lean) carries pg.Dict / pg.List / pg.Object / pg.Ref
nodes; it has no notion of the bookkeeping a pg.Functor keeps about its bound arguments, of the
lazy lookup tables of a pg.DNA, of the derived state of hyper primitives, or of a user class'
own copy protocol under pg.symbolize / pg.wrap. These classes override `_sym_clone` (or take part
in it), so C07 applies to them; they are checked here on the real code only (no correspondence).

A case is a small JSON description: which object to build, what to do with it *before* cloning
(look-ups that fill lazy tables, calls that fill derived state), how to clone (clone / deep /
copy.copy / copy.deepcopy, of the object itself or of a Dict / List / Object tree holding it), and
a list of later mutations of either copy. Oracle, at the clone: pg.eq, same class and flag triple
at every node, both copies are well-formed trees of their own, no symbolic node shared, no
*mutable per-object state* shared (any set / dict / list / symbolic value found by identity in the
`__dict__` of corresponding nodes; the DNASpec a DNA is bound to is exempt: binding is by
reference), non-symbolic leaf objects shared by a shallow clone and not by a deep one, every node a
copy hands out through its look-ups belongs to that copy; after every later mutation of one copy:
everything observable about the OTHER copy (content, bookkeeping sets, results / exceptions of
calls, look-ups) is as it was.
"""

import copy
import json
import os

from harness import symcommon as sc

_LIB = {}


def lib():
  """pyglove classes used by this family, created once per worker process."""
  if _LIB:
    return _LIB
  pg = sc.env()['pg']

  @pg.functor()
  def add3(x, y=1, z=2):
    return x + y + z

  class Mul(pg.Functor):
    x: int
    y: int = 2
    z: int = 3

    def _call(self):
      return self.x * self.y + self.z

  @pg.members([('a', pg.typing.Any(default=None)), ('b', pg.typing.Any(default=None))])
  class Holder(pg.Object):
    allow_symbolic_assignment = True

  class Leaf:
    """a mutable non-symbolic leaf object, compared by value."""

    def __init__(self, v):
      self.v = v

    def __eq__(self, other):
      return isinstance(other, Leaf) and self.v == other.v

    def __ne__(self, other):
      return not self.__eq__(other)

    def __hash__(self):
      return hash(self.v)

  class DcSelf:
    def __init__(self, name, payload):
      self.name = name
      self.payload = payload

    def __deepcopy__(self, memo):
      return self

  class DcNewDict:
    def __init__(self, name, payload):
      self.name = name
      self.payload = payload

    def __deepcopy__(self, memo):
      cls = self.__class__
      result = cls.__new__(cls)
      memo[id(self)] = result
      for k, v in self.__dict__.items():
        setattr(result, k, copy.deepcopy(v, memo))
      return result

  class DcRebuild:
    def __init__(self, name, payload):
      self.name = name
      self.payload = payload

    def __deepcopy__(self, memo):
      return DcRebuild(self.name, copy.deepcopy(self.payload, memo))

  class CpSelf:
    def __init__(self, name, payload):
      self.name = name
      self.payload = payload

    def __copy__(self):
      return self

    def __deepcopy__(self, memo):
      return self

  class CpNewDict:
    def __init__(self, name, payload):
      self.name = name
      self.payload = payload

    def __copy__(self):
      cls = self.__class__
      result = cls.__new__(cls)
      result.__dict__.update(self.__dict__)
      return result

  class Plain:
    def __init__(self, name, payload):
      self.name = name
      self.payload = payload

  t = pg.typing
  fields = [('x', t.Int(default=0)),
            ('y', t.Dict([('z', t.Int(default=0)), ('u', t.Any(default=None))])),
            ('w', t.Any(default=None)),
            ('l', t.List(t.Any(), default=[]))]

  @pg.members(fields)
  class Frozen(pg.Object):          # sealed unless the caller asks otherwise
    allow_symbolic_mutation = False

  @pg.members(fields)
  class FrozenAssignable(pg.Object):
    allow_symbolic_mutation = False
    allow_symbolic_assignment = True

  @pg.members(fields)
  class Assignable(pg.Object):
    allow_symbolic_assignment = True

  @pg.members(fields)
  class Regular(pg.Object):
    pass

  @pg.members([('name', t.Str()),
               ('opts', t.Dict([('lr', t.Float()), ('steps', t.Int(default=10))])),
               ('layers', t.List(t.Any(), default=[]))])
  class Model(pg.Object):
    allow_symbolic_assignment = True

  _LIB.update(flagcls=[Frozen, FrozenAssignable, Assignable, Regular], Model=Model)

  user = [DcSelf, DcNewDict, DcRebuild, CpSelf, CpNewDict, Plain]
  wrapped = {}
  for c in user:
    wrapped[c.__name__ + ':symbolize'] = pg.symbolize(c)
    wrapped[c.__name__ + ':wrap'] = pg.wrap(c)
  _LIB.update(pg=pg, add3=add3, Mul=Mul, Holder=Holder, Leaf=Leaf, wrapped=wrapped,
              wrapped_names=sorted(wrapped))
  return _LIB


# ------------------------------------------------------------------------------------------------
# generator
# ------------------------------------------------------------------------------------------------

HOWS = ['clone', 'deep', 'copy', 'deepcopy']
TREES = ['self', 'dict', 'list', 'object', 'dict2']     # dict2: two levels


def gen_case(r):
  fam = ['functor', 'functor', 'dna', 'dna', 'hyper', 'wrapped', 'wrapped', 'flagcls', 'flagcls', 'flagcls',
         'subroot', 'subroot', 'subroot', 'tuples', 'tuples', 'dna'][r.below(16)]
  spec = {'fam': fam, 'how': HOWS[r.below(4)]}
  if fam == 'tuples':
    # symbolic containers held inside (nested) tuples / plain lists / plain dicts of a symbolic root
    def shape(depth):
      k = r.below(10)
      if depth >= 3 or k < 3:
        return ['sym', ('dict', 'list', 'obj')[r.below(3)], r.randint(1, 9)]
      if k < 4:
        return ['int', r.randint(1, 9)] if r.chance(0.5) else ['opq']
      if k < 8:
        return ['tup', [shape(depth + 1) for _ in range(r.randint(1, 3))]]
      if k < 9:
        return ['plist', [shape(depth + 1) for _ in range(r.randint(1, 2))]]
      return ['pdict', [shape(depth + 1) for _ in range(r.randint(1, 2))]]
    spec['root'] = ('dict', 'list', 'obj')[r.below(3)]
    spec['shape'] = ['tup', [shape(1) for _ in range(r.randint(1, 3))]]
    spec['muts'] = [['c' if r.chance(0.5) else 'o', r.below(8), r.randint(10, 19)] for _ in range(r.randint(1, 3))]
    return {'ops': [], 'lib': spec}
  if fam == 'flagcls':
    spec['cls'] = r.below(4)
    spec['sealed'] = (None, False, True)[r.below(3)]          # constructor argument
    spec['partial'] = r.chance(0.3)
    spec['after'] = (None, None, False, True)[r.below(4)]     # .seal(flag) after construction
    spec['inner'] = r.chance(0.3)                             # seal an inner container (never unseal below a sealed node: F93)
    spec['nested'] = r.chance(0.5)                            # a second instance inside field `w`
    spec['tree'] = TREES[r.below(len(TREES))] if r.chance(0.5) else 'self'
    spec['muts'] = [[('rebind_x', 'set_z', 'rebind_w', 'append_l', 'assign_x', 'rebind_nested')[r.below(6)], r.randint(10, 19)]
                    for _ in range(r.randint(1, 4))]
    return {'ops': [], 'lib': spec}
  if fam == 'subroot':
    spec['src'] = ('init_args', 'init_args', 'init_args_partial', 'init_args_functor', 'child_dict', 'child_list',
                   'dna_children', 'candidates', 'init_args_flagcls')[r.below(9)]
    spec['muts'] = [[('adopt', 'write', 'cache', 'append')[r.below(4)], r.randint(10, 19)] for _ in range(r.randint(1, 4))]
    return {'ops': [], 'lib': spec}
  if fam == 'functor':
    spec['variant'] = 'fn' if r.chance(0.5) else 'cls'
    bound = {}
    for name in ('x', 'y', 'z'):
      if r.chance(0.75 if name == 'x' else 0.35):
        bound[name] = r.randint(1, 9)
    spec['bound'] = bound
    spec['tree'] = TREES[r.below(len(TREES))] if r.chance(0.4) else 'self'
    spec['precall'] = r.chance(0.3)
    muts = []
    for _ in range(r.randint(1, 4)):
      who = 'c' if r.chance(0.5) else 'o'
      name = ('x', 'y', 'z')[r.below(3)]
      if r.chance(0.75):
        muts.append([who, 'rebind', name, r.randint(1, 9)])
      else:
        muts.append([who, 'del', name])
    spec['muts'] = muts
  elif fam == 'dna':
    spec['tmpl'] = r.below(3)
    spec['nth'] = r.below(7)
    pre = []
    for p in ('named', 'name', 'ids', 'id', 'spec', 'get'):
      if r.chance(0.45):
        pre.append(p)
    spec['pre'] = pre
    spec['tree'] = TREES[r.below(len(TREES))] if r.chance(0.25) else 'self'
    muts = []
    for _ in range(r.randint(1, 3)):
      muts.append(['c' if r.chance(0.6) else 'o', ('value', 'meta', 'udata')[r.below(3)], r.below(4),
                   ('name', 'id', 'named')[r.below(3)]])
    spec['muts'] = muts
    # metadata of the root before the clone (cloneable or not) and later changes of the cloneable status
    # (metadata that is NOT cloneable is deliberately dropped by a clone, so it is only set after the clone:
    # 'nmeta' on one copy, then the same key marked cloneable on the other copy)
    spec['premeta'] = [[('score', 'note', 'tag')[r.below(3)], True] for _ in range(r.below(3))]
    if r.chance(0.6):
      who = 'c' if r.chance(0.5) else 'o'
      k = ('score', 'note', 'tag', 'extra')[r.below(4)]
      spec['muts'].append([who, 'nmeta', k, 'root'])
      spec['muts'].append(['o' if who == 'c' else 'c', 'cmeta', k, 'root'])
  elif fam == 'hyper':
    spec['kind'] = ('oneof', 'manyof', 'floatv', 'nested')[r.below(4)]
    spec['pre'] = [p for p in ('dna_spec', 'decode', 'encode') if r.chance(0.5)]
    spec['tree'] = TREES[r.below(len(TREES))] if r.chance(0.5) else 'self'
    spec['muts'] = [['c' if r.chance(0.5) else 'o', r.below(3), r.randint(10, 19)] for _ in range(r.randint(1, 3))]
  else:
    spec['cls'] = r.below(12)
    spec['tree'] = TREES[1 + r.below(len(TREES) - 1)]
    spec['leaf'] = ('leaf', 'int', 'list')[r.below(3)]
    spec['muts'] = [['c' if r.chance(0.5) else 'o', ('rebind', 'leaf')[r.below(2)], r.randint(10, 19)]
                    for _ in range(r.randint(0, 2))]
  return {'ops': [], 'lib': spec}


# ------------------------------------------------------------------------------------------------
# generic oracle parts
# ------------------------------------------------------------------------------------------------

def _clone(x, how):
  if how == 'clone':
    return x.clone()
  if how == 'deep':
    return x.clone(deep=True)
  if how == 'copy':
    return copy.copy(x)
  return copy.deepcopy(x)


def _children(pg, n):
  try:
    return [(k, v) for k, v in n.sym_items()]
  except Exception:   # pylint: disable=broad-except
    return []


def _walk(pg, root):
  out = []
  stack = [((), root)]
  while stack:
    p, n = stack.pop()
    out.append((p, n))
    for k, v in _children(pg, n):
      if isinstance(v, pg.Symbolic):
        stack.append((p + (k,), v))
  return out


def _well_formed(pg, root, label):
  for p, n in _walk(pg, root):
    for k, v in _children(pg, n):
      if isinstance(v, pg.Symbolic) and not isinstance(n, pg.Ref):
        if v.sym_parent is not n:
          return ('stale-parent', '%s: child %r of the node at %r does not report it as parent' % (label, k, p))
        if list(v.sym_path.keys) != list(n.sym_path.keys) + [k]:
          return ('stale-path', '%s: child stored at %r reports path %r' % (label, p + (k,), str(v.sym_path)))
  return None


def _flags(n):
  return (bool(n.is_sealed), bool(n.accessor_writable), bool(n.allow_partial))


_EXEMPT = {'_spec'}        # DNA -> DNASpec: binding by reference, part of the contract
_SKIP = {'_sym_parent', '_tls', '_sym_origin'}


def _pairwise(lb, o, c, deep, own_root, check_orig=True):
  """equality, class, flags, no shared node, no shared mutable per-object state, leaves."""
  pg = lb['pg']
  Leaf = lb['Leaf']
  if type(o) is not type(c):
    return ('class', 'the clone has class %s, the original %s' % (type(c).__name__, type(o).__name__))
  try:
    if not pg.eq(o, c):
      return ('not-equal', 'pg.eq(original, clone) is False')
  except Exception as e:   # pylint: disable=broad-except
    return ('not-equal', 'pg.eq(original, clone) raised %s' % type(e).__name__)
  wo = dict(_walk(pg, o))
  wc = dict(_walk(pg, c))
  if sorted(map(repr, wo)) != sorted(map(repr, wc)):
    return ('not-equal', 'the clone has symbolic nodes at other paths than the original')
  ids_o = {id(n) for n in wo.values()}
  for p, n in wc.items():
    a = wo[p]
    if isinstance(a, pg.Ref) or isinstance(n, pg.Ref):
      continue
    if id(n) in ids_o:
      return ('shared-node', 'the symbolic node at %r is one object in both copies' % (p,))
    if type(a) is not type(n):
      return ('class', 'node at %r: class %s in the clone, %s in the original' % (p, type(n).__name__, type(a).__name__))
    if _flags(a) != _flags(n):
      return ('flags', 'node at %r: flags %r in the clone, %r in the original' % (p, _flags(n), _flags(a)))
    da, dn = getattr(a, '__dict__', {}), getattr(n, '__dict__', {})
    # White-box aid, OFF by default: sharing a private container is not by itself a violation of the
    # property (the behavioural checks below -- interference-state, foreign-node -- decide); it is only
    # a quicker pointer to the cause when debugging (C07LIB_WHITEBOX=1).
    for k, v in (da.items() if os.environ.get('C07LIB_WHITEBOX') else []):
      if k in _SKIP or k in _EXEMPT:
        continue
      w = dn.get(k, None)
      if w is v and isinstance(v, (set, dict, list, bytearray, pg.Symbolic)):
        return ('shared-state', 'node at %r: the mutable attribute %s (%s) is one object in both copies'
                % (p, k, type(v).__name__))
    # non-symbolic leaves
    for (k, v), (k2, w) in zip(_children(pg, a), _children(pg, n)):
      if isinstance(v, Leaf):
        if not isinstance(w, Leaf):
          return ('not-equal', 'leaf %r of node %r became %s' % (k, p, type(w).__name__))
        if deep and v is w:
          return ('deep-shares-leaf', 'deep clone shares the non-symbolic leaf %r of node %r' % (k, p))
        if not deep and v is not w:
          return ('shallow-copies-leaf', 'shallow clone does not share the non-symbolic leaf %r of node %r' % (k, p))
  if own_root and (c.sym_parent is not None or list(c.sym_path.keys)):
    return ('not-own-tree', 'the clone reports a parent / a path')
  return (_well_formed(pg, o, 'original') if check_orig else None) or _well_formed(pg, c, 'clone')


def _in_tree(lb, x, tree):
  pg = lb['pg']
  if tree == 'dict':
    return pg.Dict(a=x, b=1), (lambda t: t['a'])
  if tree == 'list':
    return pg.List([0, x]), (lambda t: t[1])
  if tree == 'object':
    return lb['Holder'](a=x, b=2), (lambda t: t.a)
  if tree == 'dict2':
    return pg.Dict(p=pg.List([pg.Dict(q=x)]), r=3), (lambda t: t['p'][0]['q'])
  return x, (lambda t: t)


# ------------------------------------------------------------------------------------------------
# families
# ------------------------------------------------------------------------------------------------

def _obs_functor(lb, f):
  pg = lb['pg']
  o = {'specified': sorted(f.specified_args), 'non_default': sorted(f.non_default_args),
       'default': sorted(f.default_args), 'bound': sorted(f.bound_args) if hasattr(f, 'bound_args') else None,
       'args': repr(sorted((k, v) for k, v in f.sym_init_args.items()
                           if v is not pg.MISSING_VALUE and not isinstance(v, pg.typing.MissingValue))),
       'text': f.format(compact=True)}
  calls = {}
  for kw in ({}, {'x': 10}, {'y': 5}, {'z': 7}, {'x': 10, 'y': 5}, {'x': 4, 'y': 5, 'z': 6}):
    try:
      calls[json.dumps(kw, sort_keys=True)] = repr(f(**kw))
    except Exception as e:   # pylint: disable=broad-except
      calls[json.dumps(kw, sort_keys=True)] = 'E:' + type(e).__name__
  o['calls'] = calls
  return o


def _run_functor(lb, s):
  pg = lb['pg']
  mk = lb['add3'] if s['variant'] == 'fn' else lb['Mul']
  try:
    f = mk(**s['bound'])
  except Exception:   # pylint: disable=broad-except
    if s['variant'] == 'cls':
      with pg.allow_partial(True):
        f = mk(**s['bound'])
    else:
      raise
  if s.get('precall'):
    try:
      f(x=1)
    except Exception:   # pylint: disable=broad-except
      pass
  tree, get = _in_tree(lb, f, s['tree'])
  before = _obs_functor(lb, f)
  ctree = _clone(tree, s['how'])
  if _obs_functor(lb, f) != before:
    return ('original-changed', 'cloning changed the original functor')
  bad = _pairwise(lb, tree, ctree, s['how'] in ('deep', 'deepcopy'), True)
  if bad:
    return bad
  cf = get(ctree)
  if _obs_functor(lb, cf) != before:
    return ('not-equal', 'the cloned functor behaves differently: %s vs %s' % (
        json.dumps(_obs_functor(lb, cf))[:300], json.dumps(before)[:300]))
  snap = {'o': _obs_functor(lb, f), 'c': _obs_functor(lb, cf)}
  copies = {'o': f, 'c': cf}
  for i, m in enumerate(s['muts']):
    who, other = m[0], ('c' if m[0] == 'o' else 'o')
    try:
      if m[1] == 'rebind':
        copies[who].rebind({m[2]: m[3]})
      else:
        copies[who].rebind({m[2]: pg.MISSING_VALUE})
    except Exception:   # pylint: disable=broad-except
      pass
    now = _obs_functor(lb, copies[other])
    if now != snap[other]:
      diff = [k for k in now if now[k] != snap[other][k]]
      return ('interference-state', 'mutation %d (%s of %s on the %s) changed the %s: %s: %s -> %s' % (
          i, m[1], m[2], 'clone' if who == 'c' else 'original', 'clone' if other == 'c' else 'original',
          diff, json.dumps({k: snap[other][k] for k in diff})[:300], json.dumps({k: now[k] for k in diff})[:300]))
    snap[who] = _obs_functor(lb, copies[who])
  return None


def _dna_space(lb, i):
  pg = lb['pg']
  if i == 0:
    return pg.Dict(a=pg.oneof([pg.oneof([1, 2], name='inner'), 3], name='a'), b=pg.floatv(0., 1., name='b'))
  if i == 1:
    return pg.Dict(c=pg.manyof(2, [1, 2, 3], name='c'), d=pg.oneof(['x', 'y'], name='d'))
  return pg.List([pg.oneof([1, 2], name='p'), pg.oneof([3, pg.oneof([4, 5], name='r')], name='q')])


def _dna_nodes(d):
  out = [d]
  for c in d.children:
    out += _dna_nodes(c)
  return out


def _obs_dna(d):
  nodes = _dna_nodes(d)
  out = {'json': d.to_json_str(), 'meta': [repr(sorted(n.metadata.items(), key=repr)) for n in nodes],
         'udata': [repr(sorted(n.userdata.items(), key=repr)) for n in nodes], 'n': len(nodes)}
  try:
    # what a fresh clone inherits (only the metadata marked cloneable) is part of the observable state
    out['cmeta'] = [repr(sorted(n.metadata.items(), key=repr)) for n in _dna_nodes(d.clone(deep=True))]
  except Exception as e:   # pylint: disable=broad-except
    out['cmeta'] = 'raises ' + type(e).__name__
  return out


def _dna_root(pg, node):
  """the DNA tree a node belongs to (`DNA.root` asserts when the root DNA sits in a container)."""
  cur = node
  while True:
    p = cur.sym_parent
    if isinstance(p, pg.DNA):
      cur = p
    elif isinstance(p, pg.List) and isinstance(p.sym_parent, pg.DNA):
      cur = p.sym_parent
    else:
      return cur


def _handed_out(d):
  """every node a DNA hands out through its look-up tables, with how it was obtained."""
  out = []
  try:
    for name, v in d.named_decisions.items():
      for x in (v if isinstance(v, list) else [v]):
        if x is not None:
          out.append(('named_decisions[%r]' % name, x))
      try:
        w = d[name]
        for x in (w if isinstance(w, list) else [w]):
          if x is not None:
            out.append(('[%r]' % name, x))
      except Exception:   # pylint: disable=broad-except
        pass
  except Exception:   # pylint: disable=broad-except
    pass
  try:
    for did in d.decision_ids:
      try:
        w = d[did]
        for x in (w if isinstance(w, list) else [w]):
          if x is not None:
            out.append(('[%s]' % str(did), x))
      except Exception:   # pylint: disable=broad-except
        pass
  except Exception:   # pylint: disable=broad-except
    pass
  return out


def _run_dna(lb, s):
  pg = lb['pg']
  spec = pg.dna_spec(_dna_space(lb, s['tmpl']))
  import random   # pylint: disable=import-outside-toplevel
  d = pg.random_dna(spec, random.Random(s['nth']))
  names = sorted(spec.named_decision_points) if hasattr(spec, 'named_decision_points') else []
  for p in s['pre']:
    try:
      if p == 'named':
        _ = d.named_decisions
      elif p == 'name' and names:
        _ = d[names[0]]
      elif p == 'ids':
        _ = d.decision_ids
      elif p == 'id':
        _ = d[d.decision_ids[-1]]
      elif p == 'spec':
        _ = d[spec.decision_points[0]]
      elif p == 'get' and names:
        _ = d.get(names[-1])
    except Exception:   # pylint: disable=broad-except
      pass
  for k, cl in s.get('premeta', []):
    d.set_metadata(k, 'v-' + k, cloneable=cl)
  tree, get = _in_tree(lb, d, s['tree'])
  before = _obs_dna(d)
  ctree = _clone(tree, s['how'])
  if _obs_dna(d) != before:
    return ('original-changed', 'cloning changed the original DNA')
  bad = _pairwise(lb, tree, ctree, s['how'] in ('deep', 'deepcopy'), True)
  if bad:
    return bad
  c = get(ctree)
  if c.spec is not d.spec:
    return ('not-equal', 'the clone lost the DNASpec binding')
  for label, x, root in (('clone', c, c), ('original', d, d)):
    for how, node in _handed_out(x):
      if _dna_root(pg, node) is not root:
        return ('foreign-node', 'the %s hands out through %s a node that belongs to %s' % (
            label, how, 'the other copy' if _dna_root(pg, node) is (d if root is c else c) else 'another tree'))
  copies = {'o': d, 'c': c}
  snap = {'o': _obs_dna(d), 'c': _obs_dna(c)}
  for i, m in enumerate(s['muts']):
    who, other = m[0], ('c' if m[0] == 'o' else 'o')
    x = copies[who]
    if m[1] in ('cmeta', 'nmeta'):
      try:
        x.set_metadata(m[2], 'w-%d' % i, cloneable=(m[1] == 'cmeta'))
      except Exception:   # pylint: disable=broad-except
        pass
      now = _obs_dna(copies[other])
      if now != snap[other]:
        ks = [k for k in now if now[k] != snap[other].get(k)]
        return ('interference', 'mutation %d (set_metadata(%r, cloneable=%s) on the %s) changed %s of the %s' % (
            i, m[2], m[1] == 'cmeta', 'clone' if who == 'c' else 'original', ks, 'clone' if other == 'c' else 'original'))
      snap[who] = _obs_dna(copies[who])
      continue
    handed = _handed_out(x)
    if not handed:
      continue
    want = {'name': "['", 'id': '[', 'named': 'named'}[m[3]]
    cands = [h for h in handed if h[0].startswith(want)] or handed
    how, node = cands[m[2] % len(cands)]
    try:
      if m[1] == 'value':
        node.rebind(value=(0 if node.value != 0 else 1) if isinstance(node.value, int) else 0.25,
                    skip_notification=False)
      elif m[1] == 'meta':
        node.set_metadata('score%d' % i, 1.5 + i)
      else:
        node.set_userdata('note%d' % i, [i])
    except Exception:   # pylint: disable=broad-except
      pass
    now = _obs_dna(copies[other])
    if now != snap[other]:
      return ('interference', 'mutation %d (%s through %s%s) changed the %s' % (
          i, m[1], 'clone' if who == 'c' else 'original', how, 'clone' if other == 'c' else 'original'))
    snap[who] = _obs_dna(copies[who])
    for label, y, root in (('clone', c, c), ('original', d, d)):
      for how2, node2 in _handed_out(y):
        if _dna_root(pg, node2) is not root:
          return ('foreign-node', 'after mutation %d the %s hands out through %s a node of another tree' % (i, label, how2))
  return None


def _mk_hyper(lb, kind):
  pg = lb['pg']
  if kind == 'oneof':
    return pg.oneof([1, 2, 3])
  if kind == 'manyof':
    return pg.manyof(2, [1, 2, 3, 4])
  if kind == 'floatv':
    return pg.floatv(0.0, 1.0)
  return pg.oneof([pg.Dict(u=pg.oneof([7, 8])), pg.floatv(0.0, 2.0), 5])


def _obs_hyper(lb, h):
  pg = lb['pg']
  o = {'text': h.format(compact=True)}
  try:
    ds = h.dna_spec()
    o['spec'] = ds.format(compact=True)
    d = ds.first_dna()
    o['first'] = repr(h.decode(d))
    o['enc'] = repr(h.encode(h.decode(d)))
    n = ds.next_dna(d)
    if n is not None:
      o['second'] = repr(h.decode(n))
  except Exception as e:   # pylint: disable=broad-except
    o['err'] = type(e).__name__
  return o


def _run_hyper(lb, s):
  pg = lb['pg']
  h = _mk_hyper(lb, s['kind'])
  for p in s['pre']:
    try:
      if p == 'dna_spec':
        h.dna_spec()
      elif p == 'decode':
        h.decode(h.dna_spec().first_dna())
      else:
        h.encode(h.decode(h.dna_spec().first_dna()))
    except Exception:   # pylint: disable=broad-except
      pass
  tree, get = _in_tree(lb, h, s['tree'])
  before = _obs_hyper(lb, h)
  ctree = _clone(tree, s['how'])
  if _obs_hyper(lb, h) != before:
    return ('original-changed', 'cloning changed the original hyper value')
  bad = _pairwise(lb, tree, ctree, s['how'] in ('deep', 'deepcopy'), True)
  if bad:
    return bad
  c = get(ctree)
  if _obs_hyper(lb, c) != before:
    return ('not-equal', 'the cloned hyper value decodes / encodes differently')
  copies = {'o': h, 'c': c}
  snap = {'o': _obs_hyper(lb, h), 'c': _obs_hyper(lb, c)}
  for i, m in enumerate(s['muts']):
    who, other = m[0], ('c' if m[0] == 'o' else 'o')
    x = copies[who]
    try:
      if s['kind'] == 'floatv':
        x.rebind(max_value=float(m[2]))
      else:
        x.rebind({'candidates[%d]' % (m[1] % len(x.candidates)): m[2]})
    except Exception:   # pylint: disable=broad-except
      pass
    now = _obs_hyper(lb, copies[other])
    if now != snap[other]:
      return ('interference-state', 'mutation %d of the %s changed the %s' % (
          i, 'clone' if who == 'c' else 'original', 'clone' if other == 'c' else 'original'))
    snap[who] = _obs_hyper(lb, copies[who])
  return None


def _obs_tree(lb, t):
  pg = lb['pg']
  Leaf = lb['Leaf']
  out = []
  for p, n in sorted(_walk(pg, t), key=lambda x: repr(x[0])):
    row = [repr(p), type(n).__name__, _flags(n)]
    for k, v in _children(pg, n):
      if not isinstance(v, pg.Symbolic):
        row.append((k, ('Leaf', v.v) if isinstance(v, Leaf) else repr(v)))
    out.append(repr(row))
  return out


def _run_wrapped(lb, s):
  pg = lb['pg']
  Leaf = lb['Leaf']
  name = lb['wrapped_names'][s['cls'] % len(lb['wrapped_names'])]
  cls = lb['wrapped'][name]
  payload = {'leaf': Leaf(1), 'int': 7, 'list': [1, 2]}[s['leaf']]
  node = cls('n', payload)
  tree, get = _in_tree(lb, node, s['tree'])
  before = _obs_tree(lb, tree)
  deep = s['how'] in ('deep', 'deepcopy')
  try:
    ctree = _clone(tree, s['how'])
  except Exception as e:   # pylint: disable=broad-except
    return ('clone-raised', 'cloning a tree that holds a %s raised %s' % (name, type(e).__name__))
  if _obs_tree(lb, tree) != before:
    return ('original-changed', 'cloning changed the original tree')
  try:
    cn = get(ctree)
  except Exception as e:   # pylint: disable=broad-except
    return ('not-equal', 'the clone has no node where the original has one (%s)' % type(e).__name__)
  if not isinstance(cn, pg.Symbolic):
    return ('class', 'the node of class %s became a non-symbolic %s in the clone' % (type(node).__name__, type(cn).__name__))
  bad = _pairwise(lb, tree, ctree, deep, True)
  if bad:
    return bad
  if s['leaf'] == 'leaf':
    a, b = node.sym_init_args.payload, cn.sym_init_args.payload
    if deep and a is b:
      return ('deep-shares-leaf', 'deep clone shares the non-symbolic leaf of the %s node' % name)
    if not deep and a is not b:
      return ('shallow-copies-leaf', 'shallow clone does not share the non-symbolic leaf of the %s node' % name)
  copies = {'o': (tree, node), 'c': (ctree, cn)}
  snap = {'o': _obs_tree(lb, tree), 'c': _obs_tree(lb, ctree)}
  for i, m in enumerate(s['muts']):
    who, other = m[0], ('c' if m[0] == 'o' else 'o')
    t, n = copies[who]
    try:
      if m[1] == 'rebind':
        n.rebind(name='m%d' % m[2])
      elif deep and s['leaf'] == 'leaf':
        n.sym_init_args.payload.v = m[2]      # a deep clone owns its leaves
      else:
        n.rebind(payload=m[2])
    except Exception:   # pylint: disable=broad-except
      pass
    now = _obs_tree(lb, copies[other][0])
    if now != snap[other]:
      return ('interference', 'mutation %d of the %s changed the %s' % (
          i, 'clone' if who == 'c' else 'original', 'clone' if other == 'c' else 'original'))
    snap[who] = _obs_tree(lb, t)
  return None


def _try(fn):
  try:
    fn()
    return 'ok'
  except Exception as e:   # pylint: disable=broad-except
    return type(e).__name__


def _flag_mut(pg, x, m):
  kind, v = m
  if kind == 'rebind_x':
    x.rebind(x=v)
  elif kind == 'set_z':
    x.y.z = v
  elif kind == 'rebind_w':
    x.rebind(w=pg.Dict(q=v))
  elif kind == 'append_l':
    x.l.append(v)
  elif kind == 'assign_x':
    x.x = v
  else:
    x.rebind({'w.x': v})


def _run_flagcls(lb, s):
  """instances whose behavioural flags differ from the defaults of their class."""
  pg = lb['pg']
  cls = lb['flagcls'][s['cls']]
  kw = {'x': 1, 'y': {'z': 2, 'u': pg.Dict(k=1)}, 'l': [pg.Dict(e=1), 3]}
  if s['nested']:
    kw['w'] = cls(x=5) if s['sealed'] is None else cls(x=5, sealed=s['sealed'])
  if s['sealed'] is not None:
    kw['sealed'] = s['sealed']
  try:
    if s['partial']:
      kw.pop('x')
      obj = cls.partial(**kw)
    else:
      obj = cls(**kw)
  except Exception:   # pylint: disable=broad-except
    return None
  if s['after'] is not None:
    obj.seal(s['after'])
  if s['inner'] and not obj.is_sealed:
    obj.y.seal(True)
  tree, get = _in_tree(lb, obj, s['tree'])
  deep = s['how'] in ('deep', 'deepcopy')
  before = _obs_tree(lb, tree)
  ctree = _clone(tree, s['how'])
  if _obs_tree(lb, tree) != before:
    return ('original-changed', 'cloning changed the original')
  bad = _pairwise(lb, tree, ctree, deep, True)
  if bad:
    return bad
  o, c = get(tree), get(ctree)
  # the same call on either copy is accepted or refused alike, and leaves them equal
  for i, m in enumerate(s['muts']):
    ro = _try(lambda: _flag_mut(pg, o, m))
    rc = _try(lambda: _flag_mut(pg, c, m))
    if ro != rc:
      return ('behaviour', 'call %d (%s): the original answers %s, the clone %s (flags: original %r, clone %r)' % (
          i, m[0], ro, rc, _flags(o), _flags(c)))
    bad = _pairwise(lb, tree, ctree, deep, True)
    if bad:
      return (bad[0], 'after the same call (%s) on both copies: %s' % (m[0], bad[1]))
  return None


def _run_subroot(lb, s):
  """clone roots that are not whole values: the field container of an object, inner nodes, children lists."""
  pg = lb['pg']
  Model = lb['Model']
  src = s['src']
  owner = None
  if src == 'init_args':
    owner = Model('m', opts=dict(lr=0.1), layers=[pg.Dict(units=8), [1, 2]])
    x = owner.sym_init_args
  elif src == 'init_args_partial':
    owner = Model.partial(name='p', opts=pg.Dict.partial())
    x = owner.sym_init_args
  elif src == 'init_args_functor':
    owner = lb['add3'](1, y=pg.Dict(k=1))
    x = owner.sym_init_args
  elif src == 'init_args_flagcls':
    owner = lb['flagcls'][0](x=1, y={'z': 2, 'u': pg.Dict(k=1)}, l=[pg.Dict(e=1)], sealed=False)
    x = owner.sym_init_args
  elif src == 'child_dict':
    owner = pg.Dict(p=pg.List([pg.Dict(q=pg.Dict(r=1), s=[pg.Dict(t=2)])]), v=3)
    x = owner['p'][0]
  elif src == 'child_list':
    owner = lb['Holder'](a=pg.List([pg.Dict(q=1), [pg.Dict(r=2)]]), b=2)
    x = owner.a
  elif src == 'dna_children':
    owner = pg.DNA([(0, 1), 0.5, [0, 1]])
    x = owner.children
  else:
    owner = pg.oneof([pg.Dict(u=pg.oneof([7, 8])), pg.floatv(0.0, 2.0), 5])
    x = owner.candidates
  deep = s['how'] in ('deep', 'deepcopy')
  before = _obs_tree(lb, owner)
  c = _clone(x, s['how'])
  if _obs_tree(lb, owner) != before:
    return ('original-changed', 'cloning a part of a value changed the value')
  bad = _pairwise(lb, x, c, deep, True, check_orig=False) or _well_formed(pg, owner, 'original')
  if bad:
    return bad
  if c.sym_root is not c:
    return ('not-own-tree', 'the clone is not its own root')
  for p, n in _walk(pg, c):
    if n.sym_root is not c:
      return ('not-own-tree', 'the node at %r of the clone does not see the clone as its root' % (p,))
  kids = [(p, n) for p, n in sorted(_walk(pg, c), key=lambda z: repr(z[0])) if p]
  snap_owner = _obs_tree(lb, owner)
  for i, m in enumerate(s['muts']):
    kind, v = m
    if not kids:
      break
    p, n = kids[v % len(kids)]
    if kind == 'adopt':
      # a node of the clone that is put into another tree is copied there, never taken away
      holder = n.sym_parent
      other = pg.Dict(k=n)
      if other.sym_getattr('k') is n:
        return ('shared-node', 'the node at %r of the clone was adopted by another tree instead of being copied' % (p,))
      if n.sym_parent is not holder:
        return ('stale-parent', 'the node at %r of the clone lost its parent to another tree' % (p,))
    elif kind == 'write':
      tgt = n
      r = _try(lambda: tgt.rebind({list(tgt.sym_keys())[0]: v}) if list(tgt.sym_keys()) else None)
      del r
    elif kind == 'cache' and src != 'dna_children':    # (a DNA clone drops non-cloneable metadata by contract)
      # the clone sees what happens below it (content caches are invalidated through the parent chain)
      try:
        b4 = c.sym_nondefault() if hasattr(c, 'sym_nondefault') else None
        leafs = [(pp, nn) for pp, nn in kids if isinstance(nn, pg.Dict) and not nn.is_sealed]
        if b4 is not None and leafs:
          pp, nn = leafs[v % len(leafs)]
          nn['fresh%d' % i] = v
          af = sorted(str(k) for k in c.sym_nondefault())
          fresh = sorted(str(k) for k in c.clone(deep=True).sym_nondefault())
          if af != fresh:
            return ('stale-cache', 'the clone does not see a change made below it at %r: sym_nondefault() lists %s, '
                    'a fresh copy of it %s' % (pp, [k for k in af if k not in fresh][:3], [k for k in fresh if k not in af][:3]))
      except Exception:   # pylint: disable=broad-except
        pass
    elif kind == 'append' or kind == 'cache':
      tgt = c
      _try(lambda: tgt.append(v) if isinstance(tgt, pg.List) else tgt.rebind({list(tgt.sym_keys())[0]: v}))
    if _obs_tree(lb, owner) != snap_owner:
      return ('interference', 'call %d (%s) on the clone changed the value it was cloned from' % (i, kind))
    bad = _well_formed(pg, c, 'clone') or _well_formed(pg, owner, 'original')
    if bad:
      return bad
    kids = [(pp, nn) for pp, nn in sorted(_walk(pg, c), key=lambda z: repr(z[0])) if pp]
  return None



# ------------------------------------------------------------------------------------------------
# symbolic containers inside (nested) tuples / plain lists / plain dicts
# ------------------------------------------------------------------------------------------------

def _build_shape(lb, sh):
  pg = lb['pg']
  k = sh[0]
  if k == 'int':
    return sh[1]
  if k == 'opq':
    return sc.Opq()
  if k == 'sym':
    if sh[1] == 'dict':
      return pg.Dict(x=sh[2], y=pg.List([sh[2]]))
    if sh[1] == 'list':
      return pg.List([sh[2], pg.Dict(x=sh[2])])
    return lb['pg'].Dict(o=pg.Dict(x=sh[2]))
  if k == 'tup':
    return tuple(_build_shape(lb, c) for c in sh[1])
  if k == 'plist':
    return [_build_shape(lb, c) for c in sh[1]]
  return {'k%d' % i: _build_shape(lb, c) for i, c in enumerate(sh[1])}


def _deep_nodes(pg, v, path, out):
  """every symbolic node reachable from v, also through tuples, plain lists and plain dicts."""
  if isinstance(v, pg.Symbolic):
    out.append((path, v))
    for k, c in _children(pg, v):
      _deep_nodes(pg, c, path + (k,), out)
  elif isinstance(v, (tuple, list)):
    for i, c in enumerate(v):
      _deep_nodes(pg, c, path + ('#%d' % i,), out)
  elif isinstance(v, dict):
    for k, c in v.items():
      _deep_nodes(pg, c, path + ('@%s' % k,), out)
  return out


def _deep_obs(pg, v):
  if isinstance(v, pg.Symbolic):
    return [type(v).__name__, [[str(k), _deep_obs(pg, c)] for k, c in _children(pg, v)]]
  if isinstance(v, tuple):
    return ['tup', [_deep_obs(pg, c) for c in v]]
  if isinstance(v, list):
    return ['plist', [_deep_obs(pg, c) for c in v]]
  if isinstance(v, dict):
    return ['pdict', [[str(k), _deep_obs(pg, c)] for k, c in v.items()]]
  if isinstance(v, sc.Opq):
    return ['opq', repr(v.inner)]
  return repr(v)


def _val_struct(pg, v, objs):
  """the value as a term of lean/PgModel/CloneVal.lean; objs: its mutable objects in pre-order."""
  if isinstance(v, pg.Symbolic):
    objs.append(v)
    return ['sym', [_val_struct(pg, c, objs) for _, c in _children(pg, v)]]
  if isinstance(v, tuple):
    return ['tup', [_val_struct(pg, c, objs) for c in v]]
  if isinstance(v, list):
    objs.append(v)
    return ['plist', [_val_struct(pg, c, objs) for c in v]]
  if isinstance(v, dict):
    objs.append(v)
    return ['pdict', [_val_struct(pg, c, objs) for c in v.values()]]
  if isinstance(v, sc.Opq):
    objs.append(v)
    return ['opq']
  return ['imm']


def _run_tuples(lb, s):
  pg = lb['pg']
  payload = _build_shape(lb, s['shape'])
  if s['root'] == 'dict':
    root = pg.Dict(t=payload, n=1)
  elif s['root'] == 'list':
    root = pg.List([0, payload])
  else:
    root = pg.Dict(inner=pg.Dict(t=payload))
  deep = s['how'] in ('deep', 'deepcopy')
  before = _deep_obs(pg, root)
  c = _clone(root, s['how'])
  if _deep_obs(pg, root) != before:
    return ('original-changed', 'cloning changed the original')
  if _deep_obs(pg, c) != before:
    return ('not-equal', 'the clone differs from the original: %s vs %s' % (_deep_obs(pg, c), before))
  if not pg.eq(root, c):
    return ('not-equal', 'pg.eq(original, clone) is False')
  # for the comparison with the Lean model: which mutable objects of the clone ARE objects of the original
  oo, co = [], []
  struct = _val_struct(pg, root, oo)
  _val_struct(pg, c, co)
  orig_ids = {id(x) for x in oo}
  s['_clonev'] = {'deep': deep, 'v': struct, 'shared': [id(x) in orig_ids for x in co]}
  if not deep:
    return None
  a, b = _deep_nodes(pg, root, (), []), _deep_nodes(pg, c, (), [])
  ids = {id(n): p for p, n in a}
  for p, n in b:
    if id(n) in ids:
      return ('shared-node', 'the symbolic node at %s of the deep clone IS the node at %s of the original (held through a tuple / plain container)'
              % ('/'.join(map(str, p)), '/'.join(map(str, ids[id(n)]))))
  copies = {'o': (root, a), 'c': (c, b)}
  for i, m in enumerate(s['muts']):
    who, other = m[0], ('c' if m[0] == 'o' else 'o')
    nodes = [n for _, n in copies[who][1] if isinstance(n, (pg.Dict, pg.List))]
    n = nodes[m[1] % len(nodes)]
    snap = _deep_obs(pg, copies[other][0])
    try:
      if isinstance(n, pg.Dict):
        n['m%d' % i] = m[2]
      else:
        n.append(m[2])
    except Exception:   # pylint: disable=broad-except
      pass
    if _deep_obs(pg, copies[other][0]) != snap:
      return ('interference', 'mutation %d of the %s is visible in the %s' % (
          i, 'clone' if who == 'c' else 'original', 'clone' if other == 'c' else 'original'))
  return None


def run_case(case):
  """same result shape as symcommon.run_history (no model records: nothing is compared)."""
  lb = lib()
  s = case['lib']
  fn = {'functor': _run_functor, 'dna': _run_dna, 'hyper': _run_hyper, 'wrapped': _run_wrapped,
        'flagcls': _run_flagcls, 'subroot': _run_subroot, 'tuples': _run_tuples}[s['fam']]
  s = dict(s)
  bad = fn(lb, s)
  clonev = s.pop('_clonev', None)
  fail = None
  if bad:
    fail = {'step': 0, 'op': {'op': 'lib:' + s['fam'], 'n': True}, 'kind': bad[0], 'what': bad[1], 'lib': s}
  out = {'model': [], 'fail': fail, 'lib': s['fam'], 'clones': 1}
  if clonev is not None:
    out['clonev'] = clonev
  return out
