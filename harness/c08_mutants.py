"""Self-test of the C08 check: re-creates realistic mutants of /repo in a scratch worktree and runs
`./check C08` against each (usage: /venv/bin/python harness/c08_mutants.py [M1 M3 ...]).
VERIF=/work/verif-<id> (this worktree), scratch repo worktree /work/repo-<id>-m."""
import subprocess, os, sys, json
VERIF = os.path.dirname(os.path.dirname(os.path.abspath(__file__)))
M = os.environ.get('C08_MUT', '/work/repo-p0809-m')
MUTS2 = {
 'M22b': ('pyglove/core/symbolic/flags.py', """  return thread_local.thread_local_get(_TLS_ACCESSOR_WRITABLE, None)""", """  return globals().get('_ACC_IN_SCOPE')"""),
 'M21b': ('pyglove/core/symbolic/flags.py', """  return thread_local.thread_local_get(_TLS_SEALED, None)""", """  return globals().get('_SEALED_IN_SCOPE')"""),
}
MUTS = {
 'M1-list-sort-no-guard': ('pyglove/core/symbolic/list.py', """    if base.treats_as_sealed(self):
      raise base.WritePermissionError('Cannot sort a sealed List.')
""", ""),
 'M2-dict-clear-no-guard': ('pyglove/core/symbolic/dict.py', """    if base.treats_as_sealed(self):
      raise base.WritePermissionError('Cannot clear a sealed Dict.')
""", ""),
 'M3-object-rebind-no-guard': ('pyglove/core/symbolic/object.py', """    if base.treats_as_sealed(self):
      raise base.WritePermissionError(
          f'Cannot rebind a sealed {self.__class__.__name__}.')
""", ""),
 'M4-scope-false-ignored': ('pyglove/core/symbolic/base.py', "  return value.sym_sealed if sealed_in_scope is None else sealed_in_scope", "  return value.sym_sealed if not sealed_in_scope else sealed_in_scope"),
 'M5-seal-depth-1': ('pyglove/core/symbolic/dict.py', """      if isinstance(v, base.Symbolic):
        v.seal(sealed)""", """      if isinstance(v, base.Symbolic):
        v.sym_seal(sealed)"""),
 'M6-dict-delitem-no-acc-guard': ('pyglove/core/symbolic/dict.py', """    if not base.writtable_via_accessors(self):
      raise base.WritePermissionError(
          self._error_message('Cannot del Dict field by attribute or key while '
                              'accessor_writable is set to False. '
                              'Use \\'rebind\\' method instead.'))
""", ""),
 'M7-list-iadd-not-overridden': ('pyglove/core/symbolic/list.py', """  def __iadd__(self, other: Iterable[Any]) -> 'List':
    \"\"\"In-place concatenation with the semantics of `extend`.\"\"\"
    self.extend(other)
    return self
""", ""),
 'M8-precheck-disabled': ('pyglove/core/symbolic/base.py', """      if isinstance(parent_node, Symbolic) and treats_as_sealed(parent_node):""", """      if False and isinstance(parent_node, Symbolic) and treats_as_sealed(parent_node):"""),
 'M9-acc-scope-ignored': ('pyglove/core/symbolic/base.py', """  if writable_in_scope is None:
    return value.accessor_writable
  return writable_in_scope""", """  return value.accessor_writable"""),
 'M10-write-time-check-removed (seeded C08-3)': ('pyglove/core/symbolic/base.py', """    if treats_as_sealed(parent_node):
      raise WritePermissionError(
          f'Cannot rebind key {path.key!r} of '
          f'sealed {parent_node.__class__.__name__}: {parent_node!r}. '
          f'(path=\\'{path.parent}\\')')
    return parent_node._set_item_without_permission_check""", """    return parent_node._set_item_without_permission_check"""),
 'M11-object-setattr-no-sealed-guard': ('pyglove/core/symbolic/object.py', """      if base.treats_as_sealed(self):
        raise base.WritePermissionError(
            self._error_message(
                f'Cannot set attribute {name!r}: object is sealed.'))
""", ""),
 'M12-del-slice-before-guard': ('pyglove/core/symbolic/list.py', """  def __delitem__(self, index: int) -> None:
    \"\"\"Delete an item from the List.\"\"\"
    if base.treats_as_sealed(self):""", """  def __delitem__(self, index: int) -> None:
    \"\"\"Delete an item from the List.\"\"\"
    if base.treats_as_sealed(self) and not isinstance(index, slice):"""),
 'M14-list-seal-walks-evaluated-elements (seeded C08-4)': ('pyglove/core/symbolic/list.py', """    for elem in self.sym_values():
      if isinstance(elem, base.Symbolic):
        elem.seal(sealed)""", """    for elem in self:
      if isinstance(elem, base.Symbolic):
        elem.seal(sealed)"""),
 'M15-precheck-skips-keys-of-the-receiver (seeded C08-5)': ('pyglove/core/symbolic/base.py', """    for path in path_value_pairs:
      if not path:
        continue
      try:
        parent_node = path.parent.query(self)""", """    for path in path_value_pairs:
      if len(path) < 2:
        continue
      try:
        parent_node = path.parent.query(self)"""),
 'M16-dict-clear-resets-accessor-writable (seeded C08-6)': ('pyglove/core/symbolic/dict.py', """    items = dict(self.sym_items())
    self._value_spec = None
    super().clear()""", """    items = dict(self.sym_items())
    self.use_value_spec(None)
    super().clear()"""),
 'M17-dict-seal-walks-evaluated-values': ('pyglove/core/symbolic/dict.py', """    for v in self.sym_values():
      if isinstance(v, base.Symbolic):
        v.seal(sealed)""", """    for k in self.sym_keys():
      v = self.sym_inferred(k)
      if isinstance(v, base.Symbolic):
        v.seal(sealed)"""),
 'M18-list-pop-unseals': ('pyglove/core/symbolic/list.py', """    with flags.allow_writable_accessors(True):
      del self[index]
    return value""", """    with flags.allow_writable_accessors(True):
      del self[index]
    self.set_accessor_writable(True)
    return value"""),
 'M19-ref-seal-reaches-the-referenced-value': ('pyglove/core/symbolic/ref.py', """  def sym_eq(self, other: Any) -> bool:""", """  def seal(self, sealed: bool = True) -> 'Ref':
    if isinstance(self._value, base.Symbolic):
      self._value.seal(sealed)
    return super().seal(sealed)

  def sym_eq(self, other: Any) -> bool:"""),
 'M20-object-seal-walks-evaluated-fields': ('pyglove/core/symbolic/object.py', """    self._sym_attributes.seal(sealed)
    super().seal(sealed)""", """    for k in self._sym_attributes.sym_keys():
      v = self.sym_inferred(k, default=None)
      if isinstance(v, base.Symbolic):
        v.seal(sealed)
    self._sym_attributes.sym_seal(sealed)
    super().seal(sealed)"""),
 'M21-sealed-override-in-a-module-global (seeded C08-8)': ('pyglove/core/symbolic/flags.py', """  return thread_local.thread_local_value_scope(_TLS_SEALED, sealed, None)""", """  import contextlib
  @contextlib.contextmanager
  def _scope():
    global _SEALED_IN_SCOPE
    previous = globals().get('_SEALED_IN_SCOPE')
    globals()['_SEALED_IN_SCOPE'] = sealed
    try:
      yield
    finally:
      globals()['_SEALED_IN_SCOPE'] = previous
  return _scope()""" ),
 'M22-accessor-override-in-a-module-global': ('pyglove/core/symbolic/flags.py', """  return thread_local.thread_local_value_scope(
      _TLS_ACCESSOR_WRITABLE, writable, None
  )""", """  import contextlib
  @contextlib.contextmanager
  def _scope():
    previous = globals().get('_ACC_IN_SCOPE')
    globals()['_ACC_IN_SCOPE'] = writable
    try:
      yield
    finally:
      globals()['_ACC_IN_SCOPE'] = previous
  return _scope()"""),
 'M13-extended-slice-skips-acc-guard': ('pyglove/core/symbolic/list.py', """    if not base.writtable_via_accessors(self):
      raise base.WritePermissionError(
          self._error_message('Cannot modify List item by __setitem__ while '""", """    if not base.writtable_via_accessors(self) and not (
        isinstance(index, slice) and index.step not in (None, 1)):
      raise base.WritePermissionError(
          self._error_message('Cannot modify List item by __setitem__ while '"""),
 'M23-dict-constructor-seals-shallow (seeded C08-11)': ('pyglove/core/symbolic/dict.py', """    self.set_accessor_writable(accessor_writable)
    if sealed:
      self.seal(True)""", """    self.set_accessor_writable(accessor_writable)
    if sealed:
      self.sym_seal(True)"""),
 'M24-list-constructor-seals-shallow (seeded C08-11)': ('pyglove/core/symbolic/list.py', """    self._onchange_callback = onchange_callback
    if sealed:
      self.seal(True)""", """    self._onchange_callback = onchange_callback
    if sealed:
      self.sym_seal(True)"""),
 'M25-object-constructor-seals-shallow (EQUIVALENT on its own, the attribute Dict is built with sealed=sealed; expected exit 0)': ('pyglove/core/symbolic/object.py', """    self._on_init()
    if sealed:
      self.seal(True)""", """    self._on_init()
    if sealed:
      self.sym_seal(True)"""),
 'M26-sealed-value-with-a-parent-shared-not-copied (seeded C08-12)': ('pyglove/core/symbolic/base.py', """        value = value.clone()

    if isinstance(value, TopologyAware):""", """        if value.sym_sealed:
          return value
        value = value.clone()

    if isinstance(value, TopologyAware):"""),
 'M27-functor-delattr-through-rebind (seeded C08-14)': ('PATCH', 'seeded/C08-14/patch.diff', ''),
 'M28-use-value-spec-applies-inside-unsealing-scopes (seeded C08-15)': ('PATCH', 'seeded/C08-15/patch.diff', ''),
}
only = sys.argv[1:]
for name, (path, old, new) in MUTS.items():
  if only and name.split('-')[0] not in only: continue
  subprocess.run(['git','-C','/repo','worktree','remove','--force',M],capture_output=True)
  subprocess.run(['git','-C','/repo','worktree','add',M,'HEAD'],capture_output=True,check=True)
  if path == 'PATCH':
    subprocess.run(['git','-C',M,'apply',os.path.join(VERIF, old)],check=True)
  else:
    fp=os.path.join(M,path); s=open(fp).read()
    assert old in s, name
    open(fp,'w').write(s.replace(old,new,1))
  if name.startswith(('M21-', 'M22-')):
    p2, o2, n2 = MUTS2[name[:3] + 'b']
    s2 = open(os.path.join(M, p2)).read(); assert o2 in s2
    open(os.path.join(M, p2), 'w').write(s2.replace(o2, n2, 1))
  imp = subprocess.run(['/venv/bin/python','-c','import pyglove'],cwd=M,capture_output=True)
  env=dict(os.environ, VERIF_REPO=M)
  for f in os.listdir(VERIF+'/replays'):
    if f.startswith('C08'): os.remove(VERIF+'/replays/'+f)
  p=subprocess.run(['./check','C08'],cwd=VERIF,env=env,capture_output=True,text=True)
  lines=[l for l in p.stdout.split('\n') if l.startswith(('VIOLATION','BROKEN','FAIL','OK'))]
  reps=sorted(f for f in os.listdir(VERIF+'/replays') if f.startswith('C08'))
  rr=[]
  for r in reps:
    j=json.load(open(VERIF+'/replays/'+r))
    a=subprocess.run(['./check','C08','--replay','replays/'+r],cwd=VERIF,env=env,capture_output=True,text=True).returncode
    b=subprocess.run(['./check','C08','--replay','replays/'+r],cwd=VERIF,env={k:v for k,v in os.environ.items() if k!='VERIF_REPO'},capture_output=True,text=True).returncode
    rr.append((r,j.get('kind'),j.get('signature'),'mutant-exit',a,'clean-exit',b))
  print('==',name,'import ok' if imp.returncode==0 else 'IMPORT FAILS','exit',p.returncode)
  for l in lines[:6]: print('   ',l[:200])
  for x in rr: print('   ',x)
  sys.stdout.flush()
subprocess.run(['git','-C','/repo','worktree','remove','--force',M],capture_output=True)
subprocess.run(['/venv/bin/python','-m','translate.t_c08'],cwd=VERIF,capture_output=True)
for f in os.listdir(VERIF+'/replays'):
  if f.startswith('C08'): os.remove(VERIF+'/replays/'+f)
