"""C16 — concurrent sampling: baton scheduler, trace validation, oracle.

Case shape (everything a run needs; a run is deterministic in the case):
  {"workers": [{"group": 0, "script": [["done", 5], ["skip"], ["measure", 2], ["earlystop", 1],
                                       ["end"], ["nop"], ["donly"], ...]}, ...],
   "max": 4 | null,                 # num_examples
   "algo": "record" | "random" | "evolution",
   "ctor": "serial" | "concurrent", # construct the backends one after the other, or interleaved
   "sched": {"mode": "random", "seed": 7, "p_hot": 0.5, "p_cold": 0.02}
          | {"mode": "directives", "d": [["hot", a, off] | ["at", tid, k, target] | ["blk", tid, k, target]
                                         | ["site", tid, kind, nth, target]]}}

A worker runs the real loop `for x, fb in pg.sample(spec, algo, num_examples=max, name=N, group=g)`
and applies its script (one entry per iteration; afterwards `done(reward = 10 + trial id)`).

Scheduling: `threading.settrace` line and call events inside the anchor files (and the call event
of `Object.__setattr__` issued from an unprotected `x += 1` there) are yield points; exactly one
worker thread runs at a time (baton); the locks created by local_backend.py / evolution/base.py are
replaced *in the harness* by cooperative locks that park the thread and pass the baton on.
Shared-state events (the sites of T-LOCK) are logged, converted to actions of the Lean model and the
Lean driver checks that the log is a run of `exec cfgNow` ending in the same observable state.
"""

import json
import os
import re
import subprocess
import sys
import threading

from harness.common import framework
from harness.common.framework import Prop
from harness.common import prng
from translate import t_c16
from translate.common import TranslatorError

ANCHOR_RELS = [
    'pyglove/core/tuning/local_backend.py', 'pyglove/core/tuning/sample.py',
    'pyglove/core/tuning/protocols.py', 'pyglove/core/tuning/backend.py',
    'pyglove/core/geno/dna_generator.py', 'pyglove/ext/evolution/base.py',
]
OBJECT_REL = 'pyglove/core/symbolic/object.py'


class Runaway(Exception):
  """A worker's sampling loop does not end (e.g. end_loop() never reaches it)."""


class TransientProposeError(ValueError):
  """Raised by the harness' recording algorithm on its k-th `_propose` call (like Evolution's
  'no child reproduced' ValueError): the worker's pg.sample generator dies with it."""


class SchedAbort(BaseException):
  """Unwinds a parked worker thread when the run is aborted (deadlock / time-out)."""


# ------------------------------------------------------------------------------------------
# Baton scheduler
# ------------------------------------------------------------------------------------------

class Sched:

  def __init__(self, n, sched_case):
    self.n = n
    self.cv = threading.Condition()
    self.current = None
    self.state = ['ready'] * n          # ready | blocked | done
    self.yields = [0] * n               # per-thread yield counter
    self.hot_seen = 0                   # global counter of hot yield points
    self.site_seen = {}                 # (tid, kind) -> count
    self.taken = []                     # switches actually performed (replayable directives)
    self.abort = None                   # None | 'deadlock' | 'timeout' | 'self-deadlock'
    self.mode = sched_case.get('mode', 'directives')
    self.rng = prng.Rng(sched_case.get('seed', 0))
    self.p_hot = sched_case.get('p_hot', 0.5)
    self.p_cold = sched_case.get('p_cold', 0.02)
    self.at, self.blk, self.hot, self.site = {}, {}, {}, {}
    for d in sched_case.get('d', []):
      if d[0] == 'at':
        self.at[(d[1], d[2])] = d[3]
      elif d[0] == 'blk':
        self.blk[(d[1], d[2])] = d[3]
      elif d[0] == 'hot':
        self.hot[d[1]] = d[2]
      elif d[0] == 'site':
        self.site[(d[1], d[2], d[3])] = d[4]
    self.total_yields = 0
    self.preempted_sites = {}
    self.serial_ctor = False
    self.no_preempt = False
    self.unwinding = set()
    self.ctor_done = [False] * n

  # -- baton -------------------------------------------------------------------------------
  def wait_turn(self, tid):
    with self.cv:
      while self.current != tid:
        if self.abort:
          raise SchedAbort()
        self.cv.wait(0.25)
      if self.abort:
        raise SchedAbort()

  def _give(self, target):
    with self.cv:
      self.current = target
      self.cv.notify_all()

  def runnable(self, but=None):
    return [i for i in range(self.n) if self.state[i] == 'ready' and i != but]

  def start(self):
    first = 0
    if self.mode == 'random':
      first = self.rng.below(self.n)
    elif ('start',) in self.at:
      first = self.at[('start',)]
    self._give(first)

  # -- yield points -------------------------------------------------------------------------
  def yield_point(self, tid, hot, kind=None):
    if self.no_preempt:                # the harness itself reads poll_result(): not a scheduling point
      return
    if self.abort:
      if tid in self.unwinding:      # already unwinding (e.g. the sample() generator being closed)
        return
      self.unwinding.add(tid)
      raise SchedAbort()
    k = self.yields[tid]
    self.yields[tid] += 1
    self.total_yields += 1
    target = None
    others = self.runnable(but=tid)
    if kind is not None:
      c = self.site_seen.get((tid, kind), 0) + 1
      self.site_seen[(tid, kind)] = c
      if (tid, kind, c) in self.site:
        target = self.site[(tid, kind, c)]
    if hot:
      a = self.hot_seen
      self.hot_seen += 1
      if a in self.hot and others:
        off = self.hot[a]
        target = others[off % len(others)]
    if (tid, k) in self.at:
      target = self.at[(tid, k)]
    if self.mode == 'random' and others:
      if self.rng.chance(self.p_hot if hot else self.p_cold):
        target = self.rng.choice(others)
    if target is None or target == tid or target not in others:
      return
    if self.serial_ctor and not self.ctor_done[tid]:
      return                              # backends are constructed one after the other
    self.taken.append(['at', tid, k, target])
    if kind is not None:
      self.preempted_sites[kind] = self.preempted_sites.get(kind, 0) + 1
    self._give(target)
    self.wait_turn(tid)

  def _pass_on(self, tid):
    """The current thread cannot continue (blocked / finished): choose who runs next."""
    others = self.runnable(but=tid)
    if not others:
      if any(s == 'blocked' for s in self.state):
        self.abort = 'deadlock'
      with self.cv:
        self.current = None
        self.cv.notify_all()
      return
    k = self.yields[tid]
    target = others[0]
    if (tid, k) in self.blk and self.blk[(tid, k)] in others:
      target = self.blk[(tid, k)]
    elif self.mode == 'random':
      target = self.rng.choice(others)
    self.taken.append(['blk', tid, k, target])
    self._give(target)

  def block(self, tid):
    self.state[tid] = 'blocked'
    self._pass_on(tid)
    self.wait_turn(tid)

  def wake(self, tids):
    for t in tids:
      if self.state[t] == 'blocked':
        self.state[t] = 'ready'

  def finish(self, tid):
    self.state[tid] = 'done'
    if self.current == tid:
      self._pass_on(tid)


class CoopLock:
  """Cooperative replacement of threading.Lock / RLock under the baton scheduler."""

  def __init__(self, name, reentrant):
    self.name, self.reentrant = name, reentrant
    self.owner, self.depth, self.waiters = None, 0, []

  def acquire(self, blocking=True, timeout=-1):
    run, tid = CUR, _tid()
    if run is None or tid is None:      # outside a scheduled run (main thread): uncontended
      self.owner, self.depth = 'main', self.depth + 1
      return True
    run.sched.yield_point(tid, True, 'acquire:' + self.name)
    while True:
      if self.owner is None:
        self.owner, self.depth = tid, 1
        break
      if self.owner == tid:
        if self.reentrant:
          self.depth += 1
          break
        run.sched.abort = 'self-deadlock'
        run.sched.state[tid] = 'blocked'
        run.sched._pass_on(tid)
        raise SchedAbort()
      self.waiters.append(tid)
      run.sched.block(tid)
    run.on_acquire(tid, self)
    return True

  def release(self):
    run, tid = CUR, _tid()
    self.depth -= 1
    if self.depth == 0:
      self.owner = None
      if run is not None and tid is not None:
        run.sched.wake(self.waiters)
      self.waiters = []
    if run is not None and tid is not None:
      run.on_release(tid, self)

  def __enter__(self):
    self.acquire()
    return self

  def __exit__(self, *a):
    self.release()

  def locked(self):
    return self.owner is not None


class ThreadingShim:
  """Stands in for the `threading` module inside the anchor modules (harness side only)."""

  def __init__(self, real, lock_name):
    self._real, self._lock_name = real, lock_name

  HOME = {'study': ('_InMemoryResult', '__init__'), 'evolution': ('Evolution', '_setup')}

  def _name(self):
    """The study / evolution lock is the one created by the study's / algorithm's initialiser; any
    other lock created by the module (e.g. a per-feedback-object lock) is a lock of its own."""
    f = sys._getframe(2)      # pylint: disable=protected-access
    owner = type(f.f_locals.get('self')).__name__
    cls, fn = self.HOME.get(self._lock_name, (None, None))
    if f.f_code.co_name == fn and any(k.__name__ == cls for k in type(f.f_locals.get('self')).__mro__):
      return self._lock_name
    return 'aux:%s.%s' % (owner, f.f_code.co_name)

  def Lock(self):     # pylint: disable=invalid-name
    return CoopLock(self._name(), False)

  def RLock(self):    # pylint: disable=invalid-name
    return CoopLock(self._name(), True)

  def __getattr__(self, k):
    return getattr(self._real, k)


CUR = None            # the Run in progress (one per process at a time)


def _tid():
  return getattr(threading.current_thread(), 'c16_tid', None)


# ------------------------------------------------------------------------------------------
# One scheduled run of the real code
# ------------------------------------------------------------------------------------------

class Run:

  def __init__(self, env, case):
    self.env, self.case = env, case
    self.n = len(case['workers'])
    self.sched = Sched(self.n, case['sched'])
    self.sched.serial_ctor = case.get('ctor') == 'serial'
    self.raw = []                      # logged site events, global order
    self.held = [[] for _ in range(self.n)]
    self.last_site = {}                # id(frame) -> kind of the previous line event
    self.studies = []                  # study objects in registration order
    self.delivered = [[] for _ in range(self.n)]   # (trial id) handed to each worker, in order
    self.errors = [None] * self.n
    self.tlock_mismatch = []
    # search target: functions whose code differs from the reference table (hot = their lines)
    self.target = set()
    for rel, fn in case.get('target') or []:
      self.target.add((os.path.join(env.root, rel), fn))
      if fn == 'next':
        self.target.add((os.path.join(env.root, rel), 'next_dna'))
    # observations at the public API (independent of the site table)
    self.trial_objs = {}               # trial id -> distinct Trial objects handed out under that id
    self.group_trials = {}             # group -> Trial objects handed to its workers
    self.pub_two_pending = []
    self.completed_nmeas = {}          # trial id -> number of measurements when first seen COMPLETED
    self.meas_viol = []
    self.mid_viol = []                 # status counters vs trial list, checked after every user-level step
    self.ended = [None] * self.n       # 'stop' | 'crash'

  # -- locks ---------------------------------------------------------------------------------
  def on_acquire(self, tid, lock):
    self.held[tid].append(lock.name)
    if self.held[tid].count(lock.name) == 1 and lock.name in ('study', 'registry'):
      self.raw.append({'w': tid, 'k': 'acq:' + lock.name})

  def on_release(self, tid, lock):
    self.held[tid].remove(lock.name)
    if lock.name not in self.held[tid] and lock.name in ('study', 'registry'):
      self.raw.append({'w': tid, 'k': 'rel:' + lock.name})

  # -- tracing -------------------------------------------------------------------------------
  def global_trace(self, frame, event, arg):
    tid = _tid()
    if tid is None or event != 'call':
      return None
    fn = frame.f_code.co_filename
    env = self.env
    if fn in env.anchor_files:
      name = frame.f_code.co_name
      if name in env.accessors:
        return None      # one-line accessor: executes atomically with the statement that calls it
      if name == 'next' and fn == env.lb_file:
        self.sched.ctor_done[tid] = True
      self.sched.yield_point(tid, (fn, name) in self.target)
      return self.local_trace
    if fn == env.object_file and frame.f_code.co_name == '__setattr__':
      back = frame.f_back
      if back is not None and back.f_code.co_filename in env.anchor_files:
        site = env.site_by_line.get((back.f_code.co_filename, back.f_lineno))
        if site is not None and site['stmt'] == 'aug':
          inner = '.inner' if (site['cls'] == 'DNAGenerator' and back.f_locals.get('self') is not self.algo) else ''
          hot = True
          if self.target:
            hot = (back.f_code.co_filename, back.f_code.co_name) in self.target or not self.held[tid]
          self.sched.yield_point(tid, hot, site['kind'] + '.w' + inner)
          self.raw.append({'w': tid, 'k': site['kind'] + '.w' + inner, 'held': list(self.held[tid])})
    return None

  def local_trace(self, frame, event, arg):
    if event != 'line':
      return self.local_trace
    tid = _tid()
    if tid is None:
      return self.local_trace
    env = self.env
    site = env.site_by_line.get((frame.f_code.co_filename, frame.f_lineno))
    fid = id(frame)
    kind = site['kind'] if site else None
    dup = kind is not None and self.last_site.get(fid) == kind
    self.last_site[fid] = kind
    in_target = bool(self.target) and (frame.f_code.co_filename, frame.f_code.co_name) in self.target
    if site is None or dup:
      self.sched.yield_point(tid, in_target)
      return self.local_trace
    if site['cls'] == 'DNAGenerator' and frame.f_locals.get('self') is not self.algo:
      kind = kind + '.inner'          # a generator nested inside the algorithm (Evolution's initialiser)
    # every shared access is a candidate preemption point; when the search has a target, only the
    # changed functions and the accesses made without any lock
    hot = (in_target or not self.held[tid]) if self.target else True
    if kind == 'next.active':
      self.sched.ctor_done[tid] = True
    self.sched.yield_point(tid, hot, kind)
    ev = {'w': tid, 'k': kind, 'held': list(self.held[tid])}
    missing = [l for l in site['locks'] if l not in self.held[tid]]
    if missing:                       # T-LOCK cross-check: a lexically enclosing lock must be held here
      self.tlock_mismatch.append('%s without %s' % (kind, missing))
    loc = frame.f_locals
    try:
      if site['cls'] == '_InMemoryFeedback':
        ev['t'] = int(loc['self']._trial.id)       # pylint: disable=protected-access
        if 'reward' in loc and loc['reward'] is not None:
          ev['r'] = int(loc['reward'])
      elif kind.startswith('cp.') or kind.startswith('bf.'):
        ev['t'] = int(loc['trial'].id)
      elif kind in ('next.ret', 'ct.append') and loc.get('trial') is not None:
        ev['t'] = int(loc['trial'].id)
      if kind == 'goc.register':
        self.studies.append(loc['study'])
    except Exception as e:     # pylint: disable=broad-except
      ev['log_error'] = repr(e)
    self.raw.append(ev)
    return self.local_trace

  # -- workers -------------------------------------------------------------------------------
  def worker(self, tid):
    env, case = self.env, self.case
    w = case['workers'][tid]
    threading.current_thread().c16_tid = tid
    try:
      self.sched.wait_turn(tid)
      sys.settrace(self.global_trace)
      try:
        try:
          self.user_loop(tid, w)
          self.ended[tid] = 'stop'
        except TransientProposeError:
          self.ended[tid] = 'crash'
        self.raw.append({'w': tid, 'k': 'user.end', 'how': self.ended[tid]})
        self.snapshot(tid)
      finally:
        sys.settrace(None)
    except SchedAbort:
      self.errors[tid] = 'aborted'
    except BaseException as e:     # pylint: disable=broad-except
      self.errors[tid] = type(e).__name__ + ': ' + str(e)[:200]
    finally:
      try:
        self.sched.finish(tid)
      except SchedAbort:
        pass

  def user_loop(self, tid, w):
    env, pg = self.env, self.env.pg
    script = list(w['script'])
    i = 0
    gen = pg.sample(self.spec, self.algo, num_examples=self.case['max'], name=self.name,
                    group=w['group'], early_stopping_policy=self.policy)
    try:
      self.iterate(tid, w, gen, script)
    finally:
      if self.sched.abort:
        self.sched.unwinding.add(tid)      # closing the generator of an aborted run is not a scheduling point
      gen.close()

  def iterate(self, tid, w, gen, script):
    i = 0
    for _, fb in gen:
      self.snapshot(tid)
      dr = self.case.get('dr', 10)
      act = script[i] if i < len(script) else ['done', dr + (int(fb.id) if dr > 0 else -int(fb.id) if dr < 0 else 0)]
      i += 1
      if i > 30 + len(script):
        self.sched.abort = self.sched.abort or 'runaway'
        raise Runaway('worker %d is still sampling after %d iterations' % (tid, i))
      tid_trial = int(fb.id)
      self.raw.append({'w': tid, 'k': 'user', 'act': act, 't': tid_trial})
      self.delivered[tid].append(tid_trial)
      tr = fb.get_trial()
      objs = self.trial_objs.setdefault(tid_trial, [])
      if not any(o is tr for o in objs):
        objs.append(tr)
      mine = self.group_trials.setdefault(w['group'], [])
      if tr.status == 'PENDING':
        other = [int(o.id) for o in mine if o is not tr and o.status == 'PENDING']
        if other:
          self.pub_two_pending.append([tid, tid_trial, other])
      if not any(o is tr for o in mine):
        mine.append(tr)
      try:
        with fb.ignore_race_condition():
          if act[0] == 'done':
            fb(float(act[1]))
          elif act[0] == 'measure':
            fb.add_measurement(float(act[1]))
          elif act[0] == 'donly':
            fb.done()
          elif act[0] == 'skip':
            fb.skip()
          elif act[0] == 'earlystop':
            fb.add_measurement(float(act[1]))
            if fb.should_stop_early():
              fb.skip()
            else:
              fb.done()
          elif act[0] == 'end':
            fb.end_loop()
          elif act[0] == 'nop':
            pass
      except TransientProposeError:
        raise
      except ValueError:
        self.raw.append({'w': tid, 'k': 'user.valueerror'})
      self.snapshot(tid)

  def snapshot(self, tid):
    """After every user-level step, while nobody is inside a critical section of the backend: what
    poll_result(name) and the algorithm show. Checked by the oracle (counters vs. trial list, dense ids)
    and sent to the model as a `poll` action (the model must be in exactly this state here)."""
    if any(('study' in h or 'registry' in h) for h in self.held):
      return
    pg = self.env.pg
    self.sched.no_preempt = True
    try:
      try:
        result = pg.tuning.poll_result(self.name)
      except ValueError:
        result = None
      if result is None:
        snap = None
      else:
        trials = []
        for t in result.trials:
          fm = t.final_measurement
          trials.append([int(t.id), t.status == 'COMPLETED', bool(t.infeasible),
                         None if fm is None or fm.reward is None else int(fm.reward)])
        text = str(result)
        m = {k: re.search(r"%s['\"]?[:=]\s*'?(-?\d+)/(\d+)" % k, text) for k in ('PENDING', 'COMPLETED', 'infeasible')}
        cnt = [int(m[k].group(1)) if m[k] else 0 for k in ('PENDING', 'COMPLETED', 'infeasible')]
        setup = self.algo.dna_spec is not None
        snap = [trials] + cnt + [None if result.best_trial is None else int(result.best_trial.id),
                                 int(self.algo.num_proposals) if setup else 0,
                                 int(self.algo.num_feedbacks) if setup else 0]
        n = len(trials)
        ncomp = sum(1 for t in trials if t[1])
        ninf = sum(1 for t in trials if t[2])
        self.check_measurements(result)
        if not self.mid_viol:
          if [t[0] for t in trials] != list(range(1, n + 1)):
            self.mid_viol.append('trial ids are %s' % [t[0] for t in trials])
          elif cnt != [n - ncomp, ncomp, ninf]:
            self.mid_viol.append('str(result) says PENDING %d COMPLETED %d infeasible %d for %d pending, %d completed, '
                                 '%d infeasible trials' % (cnt[0], cnt[1], cnt[2], n - ncomp, ncomp, ninf))
    finally:
      self.sched.no_preempt = False
    self.raw.append({'w': tid, 'k': 'poll', 'snap': snap})

  def check_measurements(self, result):
    for t in result.trials:
      if t.status != 'COMPLETED':
        continue
      nm = len(t.measurements)
      tid = int(t.id)
      if tid in self.completed_nmeas and self.completed_nmeas[tid] != nm and not self.meas_viol:
        self.meas_viol.append(['measurement-after-completion',
                               'trial %d had %d measurements when it was completed and has %d now' % (
                                   tid, self.completed_nmeas[tid], nm)])
      self.completed_nmeas.setdefault(tid, nm)
      fm = t.final_measurement
      if (not t.infeasible and nm and fm is not None and fm.reward is not None
          and t.measurements[-1].reward != fm.reward and not self.meas_viol):
        self.meas_viol.append(['final-not-last-measurement',
                               'trial %d is COMPLETED with final reward %s but its last measurement is %s' % (
                                   tid, fm.reward, t.measurements[-1].reward)])

  def go(self):
    global CUR
    env, case = self.env, self.case
    env.counter += 1
    self.name = 'c16-%d-%d' % (os.getpid(), env.counter)
    self.spec = env.spec_of(case.get('space'))
    self.algo = env.make_algo(case['algo'], case.get('space'), case.get('fail_at'))
    self.policy = env.make_policy() if any(a and a[0] == 'earlystop' for w in case['workers'] for a in w['script']) else None
    CUR = self
    threads = [threading.Thread(target=self.worker, args=(i,), daemon=True) for i in range(self.n)]
    try:
      for t in threads:
        t.start()
      self.sched.start()
      deadline = 25.0
      for t in threads:
        t.join(deadline)
        if t.is_alive():
          self.sched.abort = self.sched.abort or 'timeout'
          with self.sched.cv:
            self.sched.cv.notify_all()
          t.join(2.0)
    finally:
      CUR = None
    return self.observe()

  # -- observables (public API) ----------------------------------------------------------------
  def observe(self):
    pg = self.env.pg
    obs = {'abort': self.sched.abort, 'errors': self.errors, 'delivered': self.delivered}
    try:
      result = pg.tuning.poll_result(self.name)
    except ValueError:
      result = None
    if result is not None:
      self.check_measurements(result)
      trials = []
      for t in result.trials:
        fm = t.final_measurement
        trials.append({'id': int(t.id), 'completed': t.status == 'COMPLETED', 'infeasible': bool(t.infeasible),
                       'final': None if fm is None or fm.reward is None else int(fm.reward),
                       'nmeas': len(t.measurements)})
      text = str(result)
      m = {k: re.search(r"%s['\"]?[:=]\s*'?(-?\d+)/(\d+)" % k, text) for k in ('PENDING', 'COMPLETED', 'infeasible')}
      obs['study'] = {
          'trials': trials,
          'pending': int(m['PENDING'].group(1)) if m['PENDING'] else 0,
          'completed': int(m['COMPLETED'].group(1)) if m['COMPLETED'] else 0,
          'infeasible': int(m['infeasible'].group(1)) if m['infeasible'] else 0,
          'best': None if result.best_trial is None else int(result.best_trial.id),
          'active': bool(result.is_active),
      }
    else:
      obs['study'] = None
    obs['proposals'] = int(self.algo.num_proposals) if self.algo.dna_spec is not None else 0
    obs['feedbacks'] = int(self.algo.num_feedbacks) if self.algo.dna_spec is not None else 0
    obs['nstudies'] = len(self.studies)
    obs['ended'] = self.ended
    obs['mid_viol'] = self.mid_viol[:1]
    obs['meas_viol'] = self.meas_viol[:1]
    obs['clones'] = sorted(t for t, objs in self.trial_objs.items() if len(objs) > 1)
    obs['pub_two_pending'] = self.pub_two_pending[:3]
    if any(s['kind'] == 'bf.call' for s in self.env.info['sites']):
      obs['fed'] = sorted(e['t'] for e in self.raw if e['k'] == 'bf.call')
    elif hasattr(self.algo, 'seen') and result is not None:
      by_dna = {}
      for t in result.trials:
        by_dna.setdefault(t.dna.value, int(t.id))
      obs['fed'] = sorted(by_dna.get(v, 0) for v, _ in self.algo.seen)
    else:
      obs['fed'] = None
    if hasattr(self.algo, 'seen'):
      obs['algo_seen'] = len(self.algo.seen)
    return obs


# ------------------------------------------------------------------------------------------
# Raw site events -> actions of the Lean model
# ------------------------------------------------------------------------------------------

REGION_OF_FIRST = {
    'goc.test': 'gocAtomic', 'setup.test': 'setupAtomic', 'next.latest': 'nextAtomic',
    'ct.check': 'createAtomic', 'am.status': 'measure', 'done.status': 'doneAtomic',
    'skip.status': 'skipAtomic', 'cp.completed': 'completeAtomic',
}
SINGLE = {
    'goc.test': 'gocTest', 'goc.register': 'gocRegister', 'goc.fetch': 'gocFetch',
    'setup.test': 'setupTest', 'setup.do': 'setupDo',
    'next.latest': 'nextLatest', 'next.status': 'nextStatus',
    'am.status': 'amStatus', 'done.status': 'doneStatus', 'done.set': 'doneSet', 'done.final': 'doneFinal',
    'skip.status': 'skipStatus', 'skip.set': 'skipSet',
    'ct.check': 'ctCheck', 'ct.new': 'ctNew', 'ct.append': 'ctAppend', 'ct.latest': 'ctLatest',
    'cp.infeasible': 'cpInf', 'cp.bestwrite': 'cpBestW', 'end.set': 'endLoop',
}
ACCESSORS = {'is_active', 'get_latest_trial', 'next_trial_id', 'dna_spec', 'id', 'dna', 'get_trial', 'status',
             'needs_feedback', 'multi_objective', 'num_proposals', 'num_feedbacks', 'metadata', 'last_updated',
             'best_trial', 'trials', 'population', 'global_state', 'num_generations',
             'checkpoint_to_warm_start_from'}

IGNORED = {'pr.call.inner', 'pr.count.inner', 'pr.count.w.inner', 'fb.call.inner', 'fb.count.inner',
           'fb.count.w.inner', 'goc.new', 'next.create', 'next.ret', 'done.hasmeas', 'done.feedback', 'done.meta', 'done.complete',
           'bf.reward', 'bf.call', 'fb.call', 'pr.call', 'pr.count', 'pr.count.w', 'skip.infeasible', 'skip.final',
           'skip.complete', 'cp.inftest', 'cp.besttest', 'cp.time', 'user', 'user.valueerror', 'user.end',
           'ct.pending.w', 'cp.completed.w', 'cp.pending.w', 'cp.infeasible.w'}


def to_actions(raw, n):
  """Groups the events of one lock hold into the region's atomic action (emitted at the release
  of the outermost study / registry lock); every other site event is its own action."""
  acts = []
  region = [None] * n            # per worker: list of events of the open region
  depth = [0] * n
  started = [False] * n          # worker has been through next.active once
  per_thread_next = {}           # index of event -> next event of the same worker
  last_idx = {}
  for i, e in enumerate(raw):
    w = e['w']
    if w in last_idx:
      per_thread_next[last_idx[w]] = i
    last_idx[w] = i

  def later_of(i, kinds, stop_kinds):
    j = per_thread_next.get(i)
    while j is not None:
      k = raw[j]['k']
      if k in kinds:
        return raw[j]
      if k in stop_kinds:
        return None
      j = per_thread_next.get(j)
    return None

  def expectation_after(i):
    """For next*: the trial handed out (next.ret) or StopIteration."""
    j = per_thread_next.get(i)
    while j is not None:
      k = raw[j]['k']
      if k == 'next.ret':
        return {'t': raw[j]['t']}
      if k == 'user.end':
        return {'crash': True} if raw[j].get('how') == 'crash' else {'fin': True}
      if k in ('next.active', 'user'):
        break
      j = per_thread_next.get(j)
    return {'fin': True} if j is None else None

  for i, e in enumerate(raw):
    w, k = e['w'], e['k']
    if k.startswith('acq:'):
      depth[w] += 1
      if depth[w] == 1:
        region[w] = []
      continue
    if k.startswith('rel:'):
      depth[w] -= 1
      if depth[w] == 0:
        evs = region[w]
        region[w] = None
        sites = [x for x in evs if x['k'] not in IGNORED]
        if not sites:
          continue
        first = sites[0]
        name = REGION_OF_FIRST.get(first['k'], 'unknownRegion:' + first['k'])
        a = [w, name]
        if name == 'measure':
          a.append(first.get('r', 0))
        if name in ('nextAtomic', 'createAtomic'):
          ex = expectation_after(i)
          if ex and ex.get('crash'):
            a[1] = name + 'Err'                  # the proposer raised a transient error
          if ex:
            a.append(ex)
        acts.append(a)
      continue
    if depth[w] > 0:
      region[w].append(e)
      continue
    # unprotected accesses -------------------------------------------------------------------
    if k == 'poll':
      acts.append([w, 'poll', {'snap': e['snap']}])
    elif k == 'next.active':
      if started[w]:
        acts.append([w, 'release'])
      started[w] = True
      acts.append([w, 'checkActive'])
    elif k == 'am.append':
      acts.append([w, 'amAppend', e.get('r', 0)])
    elif k == 'done.hasmeas':
      if later_of(i, {'done.set'}, {'user', 'next.active'}) is None:
        acts.append([w, 'doneSet'])              # ValueError path: no status write follows
    elif k == 'done.final':
      acts.append([w, 'doneFinal'])
      if later_of(i, {'fb.count'}, {'done.complete', 'user', 'next.active'}) is None:
        acts.append([w, 'fbSkip'])               # reward None: algorithm.feedback not called
    elif k == 'fb.count':
      acts.append([w, 'fbRead'])
    elif k == 'fb.count.w':
      acts.append([w, 'fbWrite'])
    elif k == 'ct.pending':
      acts += [[w, 'ctPendR'], [w, 'ctPendW']]
    elif k == 'cp.completed':
      acts += [[w, 'cpComplR'], [w, 'cpComplW']]
    elif k == 'cp.pending':
      acts += [[w, 'cpPendR'], [w, 'cpPendW']]
    elif k == 'cp.bestread':
      acts += [[w, 'cpInf'], [w, 'cpBestR']]
    elif k in SINGLE:
      a = [w, SINGLE[k]]
      if k == 'next.status':
        nxt = per_thread_next.get(i)
        if nxt is not None and raw[nxt]['k'] == 'next.ret':
          a.append({'t': raw[nxt]['t']})
      acts.append(a)
    elif k in IGNORED:
      pass
    else:
      acts.append([w, 'unknownSite:' + k])
  return acts


# ------------------------------------------------------------------------------------------
# Per-process environment (imports pyglove; patches the anchor modules' `threading`)
# ------------------------------------------------------------------------------------------

class Env:

  def __init__(self):
    repo = framework.REPO
    import pyglove as pg                                    # pylint: disable=import-outside-toplevel
    from pyglove.core.tuning import local_backend           # pylint: disable=import-outside-toplevel
    from pyglove.ext.evolution import base as evo_base      # pylint: disable=import-outside-toplevel
    self.pg = pg
    self.lb = local_backend
    self.counter = 0
    root = os.path.dirname(os.path.dirname(os.path.abspath(pg.__file__)))
    if os.path.realpath(root) != os.path.realpath(repo):
      raise framework.InfraError('pyglove imported from %s, expected %s' % (root, repo))
    self.anchor_files = {os.path.join(root, r) for r in ANCHOR_RELS}
    self.object_file = os.path.join(root, OBJECT_REL)
    self.root = root
    self.lb_file = os.path.join(root, t_c16.LB)
    # Non-strict: a source shape T-LOCK does not recognise is a broken tie (reported by the
    # framework through translate.t_c16.run) but must never stop the runs: unrecognised statements
    # become sites of kind `unk:…`, missing sites are simply not labelled.
    self.info = t_c16.extract(strict=False)
    self.site_by_line = {}
    for s in self.info['sites']:
      for ln in range(s['line'], s['end'] + 1):
        self.site_by_line[(os.path.join(root, s['file']), ln)] = s
    # cooperative locks (harness side; nothing in /repo is touched)
    real_threading = threading
    local_backend.threading = ThreadingShim(real_threading, 'study')
    evo_base.threading = ThreadingShim(real_threading, 'evolution')
    for name in self.info['registryLocks']:
      kind = t_c16.module_locks(__import__('ast').parse(open(os.path.join(root, t_c16.LB)).read()))[name]
      setattr(local_backend, name, CoopLock('registry', kind == 'RLock'))
    self.specs = {}
    self.spec = self.spec_of(None)
    self.check_accessors(root)

    class Rec(pg.DNAGenerator):
      """Needs feedback; records what it is told."""

      def _setup(self):
        self.seen = []
        self._attempts = 0

      def _propose(self):
        limit, fail_at = getattr(self, '_limit', None), getattr(self, '_fail_at', None)
        self._attempts = self._attempts + 1
        if limit is not None and self.num_proposals >= limit:
          raise StopIteration()                 # a finite proposer is exhausted
        if fail_at is not None and self._attempts == fail_at:
          raise TransientProposeError('proposal %d failed' % fail_at)
        return pg.DNA(self.num_proposals % (limit or 64))

      def _feedback(self, dna, reward):
        self.seen.append((dna.value, reward))

    class StopBelow(pg.tuning.EarlyStoppingPolicy):

      def should_stop_early(self, trial):
        return trial.measurements[-1].reward < 3.0

    self.Rec, self.StopBelow = Rec, StopBelow

  def check_accessors(self, root):
    """A function of an anchor file named in ACCESSORS is executed atomically with its caller's
    statement only if it is a single `return <expr>`; otherwise it is traced like any other function."""
    import ast    # pylint: disable=import-outside-toplevel
    self.accessors = set(ACCESSORS)
    for rel in ANCHOR_RELS:
      tree = ast.parse(open(os.path.join(root, rel)).read())
      for n in ast.walk(tree):
        if isinstance(n, ast.FunctionDef) and n.name in ACCESSORS:
          body = [b for b in n.body if not (isinstance(b, ast.Expr) and isinstance(b.value, ast.Constant))]
          if len(body) > 1 or (body and not isinstance(body[0], (ast.Return, ast.Pass))):
            self.accessors.discard(n.name)

  def spec_of(self, space):
    if space not in self.specs:
      self.specs[space] = self.pg.dna_spec(self.pg.oneof(list(range(space or 64))))
    return self.specs[space]

  def make_algo(self, kind, space=None, fail_at=None):
    pg = self.pg
    if kind == 'record':
      a = self.Rec()
      a._limit, a._fail_at = space, fail_at      # pylint: disable=protected-access
      return a
    if kind == 'sweep':
      return pg.geno.Sweeping()                  # raises StopIteration after `space` proposals
    if kind == 'random':
      return pg.geno.Random(seed=1)
    if kind == 'evolution':
      return pg.evolution.regularized_evolution(population_size=2, tournament_size=2, seed=1)
    raise ValueError(kind)

  def make_policy(self):
    return self.StopBelow()


ENV = None


def get_env():
  global ENV
  if ENV is None:
    ENV = Env()
  return ENV


def drive(requests):
  path = framework.Driver('drv_c16').path
  if not os.path.exists(path):      # driver not built (broken model/table): no trace validation
    return None
  data = '\n'.join(json.dumps(r) for r in requests) + '\n'
  p = subprocess.run([path], input=data, capture_output=True, text=True, timeout=120)
  lines = [l for l in p.stdout.split('\n') if l.strip()]
  if p.returncode != 0 or len(lines) != len(requests):
    return None
  return [json.loads(l) for l in lines]


# ------------------------------------------------------------------------------------------
# The property module
# ------------------------------------------------------------------------------------------

USER_ACTS = ['done', 'measure', 'donly', 'skip', 'earlystop', 'end', 'nop']


def gen_script(rng, length, allow_end):
  out = []
  for _ in range(length):
    k = rng.weighted([(8, 'done'), (3, 'skip'), (2, 'measure'), (2, 'earlystop'), (1, 'donly'), (1, 'nop'),
                      (1 if allow_end else 0, 'end')])
    if k in ('done', 'measure', 'earlystop'):
      out.append([k, rng.weighted([(5, rng.randint(1, 9)), (2, 0), (3, -rng.randint(1, 9))])])
    else:
      out.append([k])
  return out


class C16(Prop):
  id = 'C16'
  props_modules = ['PgProps.C16']
  driver = 'drv_c16'
  translators = [t_c16.run]
  case_timeout_s = 40
  jobs_quick = 8
  jobs_thorough = 14
  rule = ('2-8 real worker threads iterate one named pg.sample loop of the in-memory backend under a '
          'deterministic baton scheduler (yield points: line/call events in the anchor files); group '
          'assignments mix private groups and co-worker groups; per-iteration user actions drawn from '
          'done/measure/done-without-measurement/skip/early-stop/end_loop/nop; algorithms with and without '
          'feedback (recording generator, geno.Random, regularized evolution); backend constructors run '
          'serially or interleaved; preemption is random with a high rate at the accesses T-LOCK reports '
          'outside a lock, plus (thorough) every placement of <= 2 preemptions at such accesses for small '
          'configurations. Non-trivial: at least two workers were handed a trial and at least one '
          'preemption happened; distinct by case.')
  trusted_base = [
      'RUNTIME, trusted not proved: CPython executes the body of `with lock:` atomically w.r.t. other holders '
      '(threading.Lock/RLock semantics, replaced by cooperative locks in the harness), switches threads only '
      'between bytecodes (GIL), and real preemption is no finer than the model\'s split of an unprotected '
      '`x += 1` into read and write',
      'the baton scheduler explores preemption at line/call-event granularity inside the anchor files only; '
      'per-opcode preemption is not explored (f_trace_opcodes unreliable on this build)',
      'one-line accessors of the anchor files (is_active, get_latest_trial, next_trial_id, dna_spec, ...; checked '
      'to be a single return statement) are executed atomically with the statement that calls them',
      'T-LOCK is cross-checked at run time: every lock it reports as lexically enclosing a site must be held by '
      'the thread when the site executes',
      'modelled, not verified: the bookkeeping of local_backend.py and the counters of dna_generator.py '
      '(tied by T-LOCK extraction + trace validation of real scheduled runs against `exec cfgNow`); the '
      'algorithm is abstracted to its counters and the log of fed-back trials (Evolution population logic, '
      'early-stopping policy internals, timestamps, metadata are outside the model)',
  ]
  assumptions = ['all workers of a run pass the same algorithm object, DNASpec and num_examples',
                 'rewards are single-objective numbers (the `reward is None` branch of feedback is reached only '
                 'for skipped trials)']

  # -- generation --------------------------------------------------------------------------
  def search_target(self):
    """Functions whose code differs from the reference table, if the tie is broken (pure `ast`)."""
    try:
      info = t_c16.extract(strict=False)
    except (TranslatorError, OSError):
      return None
    if t_c16.intact(info):
      return []
    return t_c16.changed_functions(info)

  def generate(self, rng, tier):
    target = self.search_target()
    if target is None or target:
      try:
        yield from self.permitted_interleavings(t_c16.extract(strict=False))
      except (TranslatorError, OSError):
        pass
      yield from self.targeted(rng, tier, target or [])
    # small configurations first: the first failing case of a signature is the one that is shrunk and
    # written as replay, so it should be cheap
    yield from self.systematic(rng, tier)
    n_random = 1000 if tier == 'quick' else 12000
    for i in range(n_random):
      yield self.random_case(rng, tier, big=(i % 8 == 0))

  def random_case(self, rng, tier, big=False):
    n = rng.randint(5, 8) if big else rng.randint(2, 4)
    ngroups = rng.randint(1, n)
    shape = rng.below(4)
    if shape == 0:
      groups = list(range(n))                       # private groups
    elif shape == 1:
      groups = [0] * n                              # one co-worker group
    else:
      groups = [rng.below(ngroups) for _ in range(n)]
    allow_end = rng.chance(0.15)
    mx = rng.randint(1, 6) if rng.chance(0.85) else None
    # proposers that raise: a finite space (StopIteration by exhaustion, also with num_examples=None) and
    # a transient error on the k-th proposal
    space = rng.randint(1, 5) if rng.chance(0.3) else None
    fail_at = rng.randint(1, 4) if rng.chance(0.12) else None
    if mx is None and space is None:
      allow_end = True
    workers = []
    for g in groups:
      script = gen_script(rng, rng.randint(0, 4), allow_end)
      if mx is None and space is None:
        script = script[:3] + [['end']]
      workers.append({'group': g, 'script': script})
    if space is not None:
      algo = rng.weighted([(1, 'sweep'), (1, 'record')])
    else:
      algo = rng.weighted([(6, 'record'), (3, 'random'), (1, 'evolution')])
    if fail_at is not None:
      algo = 'record'
    return {'workers': workers, 'max': mx, 'algo': algo, 'space': space, 'fail_at': fail_at,
            'dr': rng.weighted([(5, 10), (2, 0), (3, -10)]),     # base of the default reward (10+id / 0 / -10-id)
            'ctor': rng.choice(['serial', 'concurrent', 'concurrent']),
            'sched': {'mode': 'random', 'seed': rng.below(1 << 30),
                      'p_hot': rng.choice([0.05, 0.15, 0.4]), 'p_cold': rng.choice([0.0, 0.01, 0.03])}}

  def systematic(self, rng, tier):
    """Every placement of one (quick) / up to two (thorough) preemptions at hot yield points."""
    configs = [
        {'workers': [{'group': 0, 'script': [['done', 5]]}, {'group': 0, 'script': [['done', 7]]}], 'max': 2},
        {'workers': [{'group': 0, 'script': [['done', 5]]}, {'group': 1, 'script': [['skip']]}], 'max': 3},
        self.SMALL[3], self.SMALL[4], self.SMALL[5], self.SMALL[6],
    ]
    if tier == 'thorough':
      configs += [
          {'workers': [{'group': 0, 'script': [['measure', 4], ['done', 2]]}, {'group': 0, 'script': [['skip']]}],
           'max': 3},
          {'workers': [{'group': 0, 'script': [['earlystop', 1]]}, {'group': 1, 'script': [['done', 9]]}], 'max': 3},
          {'workers': [{'group': 0, 'script': [['done', 1]]}, {'group': 0, 'script': [['donly']]},
                       {'group': 1, 'script': [['done', 3]]}], 'max': 3},
      ]
    horizon = 80 if tier == 'quick' else 130
    for cfg in configs:
      for ctor in ('serial', 'concurrent'):
        base = dict(cfg, algo=cfg.get('algo', 'record'), ctor=ctor)
        for a in range(horizon):
          yield dict(base, sched={'mode': 'directives', 'd': [['hot', a, 0]]})
        if tier == 'thorough':
          for a in range(0, horizon):
            for b in range(a + 1, min(horizon, a + 16)):
              yield dict(base, sched={'mode': 'directives', 'd': [['hot', a, 0], ['hot', b, 0]]})

  SMALL = [
      # constructor races / private groups
      {'workers': [{'group': 0, 'script': [['done', 5]]}, {'group': 1, 'script': [['done', 7]]}], 'max': 3},
      # co-workers racing on one trial (done/done, done/skip)
      {'workers': [{'group': 0, 'script': [['done', 5]]}, {'group': 0, 'script': [['done', 7]]}], 'max': 2},
      {'workers': [{'group': 0, 'script': [['measure', 4], ['done', 2]]}, {'group': 0, 'script': [['skip']]}], 'max': 3},
      # skipped trials among non-positive rewards
      {'workers': [{'group': 0, 'script': [['skip'], ['done', -2]]}, {'group': 1, 'script': [['done', 0], ['skip']]}],
       'max': 4, 'dr': -10},
      # proposers that raise inside create_trial: a 3-point Sweeping space under a larger budget, a
      # finite space with num_examples=None, a transient error on the second proposal
      {'workers': [{'group': 0, 'script': []}, {'group': 1, 'script': [['skip']]}, {'group': 2, 'script': []}],
       'max': 6, 'space': 3, 'algo': 'sweep'},
      {'workers': [{'group': 0, 'script': [['done', 1]]}, {'group': 0, 'script': []}], 'max': None, 'space': 2},
      {'workers': [{'group': 0, 'script': [['done', 5]]}, {'group': 1, 'script': [['done', 7]]}], 'max': 3,
       'fail_at': 2},
  ]

  # flag of T-LOCK -> the sites between which the region is no longer atomic
  REGION_SITES = {
      'getOrCreateAtomic': ['goc.test', 'goc.new', 'goc.register', 'goc.fetch'],
      'algoSetupAtomic': ['setup.test', 'setup.do'],
      'nextReuseAtomic': ['next.latest', 'next.status', 'next.create'],
      'createTrialAtomic': ['ct.check', 'ct.new', 'ct.append', 'ct.pending', 'ct.latest'],
      'completeTrialAtomic': ['cp.completed', 'cp.pending', 'cp.infeasible', 'cp.bestread', 'cp.bestwrite'],
      'doneCheckAndSetAtomic': ['done.hasmeas', 'done.set', 'done.final', 'done.feedback', 'done.complete'],
      'skipCheckAndSetAtomic': ['skip.set', 'skip.infeasible', 'skip.final', 'skip.complete'],
      'addMeasurementAtomic': ['am.append'],
      'generatorCountersAtomic': ['bf.call', 'fb.count', 'fb.count.w'],
  }

  def permitted_interleavings(self, info):
    """For every region T-LOCK reports as not atomic (and every statement it does not recognise): park
    a worker at each site inside the region (1st / 2nd time it gets there) and let another one run."""
    kinds = []
    for flag, sites in self.REGION_SITES.items():
      if not info['flags'].get(flag, True):
        kinds += sites
    kinds += [x['kind'] for x in info['sites'] if x.get('unknown')]
    seen = set()
    for cfg in self.SMALL:
      n = len(cfg['workers'])
      for ctor in ('serial', 'concurrent'):
        for kind in kinds:
          for tid in range(n):
            for nth in (1, 2):
              other = (tid + 1) % n
              key = (json.dumps(cfg, sort_keys=True), ctor, kind, tid, nth)
              if key in seen:
                continue
              seen.add(key)
              yield dict(cfg, algo=cfg.get('algo', 'record'), ctor=ctor,
                         sched={'mode': 'directives', 'd': [['site', tid, kind, nth, other]]})

  def targeted(self, rng, tier, target):
    """The tie is broken: aim at the functions whose text changed. Every placement of one preemption
    (thorough: two) at their lines / at accesses made without a lock, for small configurations with
    interleaved and serial constructors; then random schedules with a high rate there."""
    horizon = 70 if tier == 'quick' else 140
    for cfg in self.SMALL:
      for ctor in ('concurrent', 'serial'):
        base = dict(cfg, algo=cfg.get('algo', 'record'), ctor=ctor, target=target)
        for a in range(horizon):
          yield dict(base, sched={'mode': 'directives', 'd': [['hot', a, 0]]})
        if tier == 'thorough':
          for a in range(horizon):
            for b in range(a + 1, min(horizon, a + 20)):
              yield dict(base, sched={'mode': 'directives', 'd': [['hot', a, 0], ['hot', b, 0]]})
    for _ in range(300 if tier == 'quick' else 3000):
      c = self.random_case(rng, tier)
      c['target'] = target
      c['sched']['p_hot'] = rng.choice([0.1, 0.3])
      yield c

  def search_cases(self, rng, tier, broken):
    target = self.search_target()
    if target is None or target:
      yield from self.targeted(rng.fork(), 'thorough' if tier == 'thorough' else 'quick', target or [])
    for _ in range(900 if tier == 'quick' else 4000):
      c = self.random_case(rng, tier)
      c['sched']['p_hot'] = 0.4
      yield c

  # -- execution -----------------------------------------------------------------------------
  def setup_impl(self):
    super().setup_impl()
    get_env()

  def impl(self, case):
    env = get_env()
    case = self.normalise(case)
    run = Run(env, case)
    obs = run.go()
    n = len(case['workers'])
    acts = to_actions(run.raw, n)
    req = {'op': 'run', 'n': n, 'groups': [w['group'] for w in case['workers']], 'max': case['max'],
           'space': case.get('space'), 'acts': acts}
    out = {'obs': obs, 'taken': run.sched.taken, 'yields': run.sched.total_yields,
           'hot': run.sched.hot_seen, 'preempted_sites': run.sched.preempted_sites,
           'nacts': len(acts), 'flags': env.info['flags'], 'tlock_mismatch': run.tlock_mismatch[:5],
           'nsetups': sum(1 for e in run.raw if e['k'] == 'setup.do'),
           'user': [[e['w'], e['act'][0], e['t']] for e in run.raw if e['k'] == 'user'],
           'events': self.property_events(run.raw, case)}
    if obs['abort'] is None:
      ans = drive([req, {'op': 'cfg'}])
      if ans is None:
        out['trace'] = {'driver_failed': True}
      else:
        out['trace'] = ans[0]
        out['driver_cfg'] = ans[1]['cfg']
      if not out['trace'].get('accepted'):
        out['acts_tail'] = acts[max(0, (out['trace'].get('at') or 0) - 6):(out['trace'].get('at') or 0) + 2]
    out['model'] = None
    return out

  def normalise(self, case):
    case = dict(case)
    if case.get('ctor') == 'serial' and case['sched'].get('mode') == 'random':
      pass
    return case

  def property_events(self, raw, case):
    """The events the oracle needs, in global order: hand-outs and completions."""
    out = []
    for e in raw:
      if e['k'] == 'next.ret':
        out.append(['got', e['w'], e['t']])
      elif e['k'] == 'ct.append' and 't' in e:
        out.append(['new', e['w'], e['t']])
      elif e['k'] in ('done.set', 'skip.set'):
        out.append(['fin', e['w'], e['t']])
    return out

  def model_request(self, case):
    return {'op': 'cfg'}

  def compare(self, case, out, model_out):
    """Trace validation: the event log of the real run is a run of `exec cfgNow` and ends in the
    same observable state."""
    obs = out['obs']
    if obs['abort'] is not None:
      return None                      # judged by the oracle
    if model_out.get('cfg') != out['flags']:
      return 'T-LOCK flags used by the harness %s differ from cfgNow compiled into the driver %s' % (
          out['flags'], model_out.get('cfg'))
    if out.get('tlock_mismatch'):
      return 'T-LOCK reports a lexically enclosing lock that is not held at run time: %s' % out['tlock_mismatch']
    tr = out.get('trace') or {}
    if tr.get('driver_failed'):
      return 'driver failed on the log'
    if not tr.get('accepted'):
      return 'log is not a run of Step cfgNow: action %s: %s; log around it: %s' % (
          tr.get('at'), tr.get('why'), out.get('acts_tail'))
    st = tr['state']
    if not st.get('inv_ok'):
      return 'the final state of the validated run fails the executable invariant check (checkState)'
    model = {'nstudies': len(st['studies']), 'proposals': st['proposals'], 'feedbacks': st['feedbacks'],
             'fed': sorted(st['fedBack']), 'study': None}
    if st['registry'] is not None:
      ms = st['studies'][st['registry']]
      model['study'] = {'trials': [{k: t[k] for k in ('id', 'completed', 'infeasible', 'final', 'nmeas')}
                                   for t in ms['trials']],
                        'pending': ms['pending'], 'completed': ms['completed'], 'infeasible': ms['infeasible'],
                        'best': ms['best'], 'active': ms['active']}
    real = {k: obs[k] for k in ('nstudies', 'proposals', 'feedbacks', 'fed', 'study')}
    if real != model:
      diff = [k for k in real if real[k] != model[k]]
      return 'final state differs at %s: impl=%s model=%s' % (
          diff, json.dumps({k: real[k] for k in diff})[:500], json.dumps({k: model[k] for k in diff})[:500])
    self.validated += 1
    return None

  # -- the property itself -----------------------------------------------------------------
  def oracle(self, case, out):
    obs = out['obs']
    groups = [w['group'] for w in case['workers']]
    if obs['abort']:
      return {'signature': obs['abort'], 'what': 'the run did not terminate: %s (errors %s)' % (obs['abort'], obs['errors'])}
    errs = [e for e in obs['errors'] if e]
    if errs:
      return {'signature': 'worker-exception:' + errs[0].split(':')[0], 'what': 'worker raised: %s' % errs}
    st = obs['study']
    if st is None:
      return {'signature': 'no-study', 'what': 'poll_result(name) has no study'}
    ended = any(u[1] == 'end' for u in out['user'])
    ids = [t['id'] for t in st['trials']]
    n = len(ids)
    # every trial to exactly one group; all hand-outs refer to trials of the named study
    by_trial = {}
    for w, ts in enumerate(obs['delivered']):
      for t in ts:
        by_trial.setdefault(t, set()).add(groups[w])
    multi = sorted(t for t, gs in by_trial.items() if len(gs) > 1)
    if len(set(ids)) != len(ids):
      return {'signature': 'ids', 'what': 'trial ids of the study are %s (an id is used twice)' % ids}
    fed_log = obs['fed'] or []
    if (obs['nstudies'] > 1 or obs['clones']) and (
        multi or obs['clones'] or obs['proposals'] != n or len(fed_log) != len(set(fed_log))):
      return {'signature': 'private-studies',
              'what': 'workers of one name sample from different studies (%d registered; trial ids %s exist as '
                      'several Trial objects; trials %s were handed to several groups): poll_result sees %d trials, '
                      'the algorithm made %d proposals and got feedback for %s' % (
                          obs['nstudies'], obs['clones'], multi, n, obs['proposals'], obs['fed'])}
    if ids != list(range(1, n + 1)):
      return {'signature': 'ids', 'what': 'trial ids are %s' % ids}
    if case['max'] is not None and n > case['max']:
      return {'signature': 'too-many-trials', 'what': '%d trials for num_examples=%d' % (n, case['max'])}
    crashed = any(e == 'crash' for e in obs['ended'])
    limits = [x for x in (case['max'], case.get('space')) if x is not None]
    want = min(limits) if limits else None
    if want is not None and n > want:
      return {'signature': 'too-many-trials', 'what': '%d trials for num_examples=%s over a space of %s points' % (
          n, case['max'], case.get('space'))}
    if want is not None and not ended and not crashed and n != want:
      return {'signature': 'wrong-number-of-trials',
              'what': '%d trials for num_examples=%s over a space of %s points' % (n, case['max'], case.get('space'))}
    if obs.get('meas_viol'):
      return {'signature': obs['meas_viol'][0][0], 'what': obs['meas_viol'][0][1]}
    if obs['mid_viol']:
      return {'signature': 'count-mismatch', 'what': 'in the middle of the run: ' + obs['mid_viol'][0]}
    if multi:
      return {'signature': 'trial-to-two-groups', 'what': 'trials %s were handed to several groups' % multi}
    unknown = sorted(t for t in by_trial if t not in ids)
    if unknown:
      return {'signature': 'unknown-trial-delivered', 'what': 'handed out %s, study has %s' % (unknown, ids)}
    # co-workers share the pending trial
    pending_of, finished = {}, set()
    for ev in out['events']:
      kind, w, t = ev
      g = groups[w]
      if kind == 'fin':
        finished.add(t)
      if kind in ('got', 'new') and t not in finished:    # (a hand-out may be logged after a co-worker finished it)
        cur = pending_of.setdefault(g, set())
        other = [x for x in cur if x != t]
        if other:
          return {'signature': 'two-pending-trials-in-group',
                  'what': 'worker %d of group %s %s trial %d while trial %s of its group is pending' % (
                      w, g, 'created' if kind == 'new' else 'was given', t, other)}
        cur.add(t)
      elif kind == 'fin':
        pending_of.get(g, set()).discard(t)
    if obs['pub_two_pending']:
      w, t, other = obs['pub_two_pending'][0]
      return {'signature': 'two-pending-trials-in-group',
              'what': 'worker %d of group %s was given pending trial %d while trial %s of its group is pending' % (
                  w, groups[w], t, other)}
    # feedback exactly once
    should = sorted(t['id'] for t in st['trials'] if t['completed'] and not t['infeasible'])
    fed = obs['fed'] if obs['fed'] is not None else should
    if out.get('nsetups', 0) > 1 and (obs['proposals'] != n or obs['feedbacks'] != len(should)
                                      or obs.get('algo_seen', len(should)) != len(should)):
      return {'signature': 'algorithm-reset',
              'what': 'algorithm.setup ran %d times; afterwards num_proposals = %d for %d trials, num_feedbacks = %d '
                      'after %d feedbacks' % (out['nsetups'], obs['proposals'], n, obs['feedbacks'], len(should))}
    dup = sorted({t for t in fed if fed.count(t) > 1})
    if dup:
      return {'signature': 'double-feedback', 'what': 'trials %s were fed back more than once (log %s)' % (dup, fed)}
    if fed != should:
      return {'signature': 'feedback-set', 'what': 'fed back %s, completed feasible trials %s' % (fed, should)}
    if obs['feedbacks'] != len(should):
      return {'signature': 'lost-feedback-count',
              'what': 'algorithm.num_feedbacks = %d after %d feedbacks' % (obs['feedbacks'], len(should))}
    if 'algo_seen' in obs and obs['algo_seen'] != len(should):
      return {'signature': 'algorithm-reset', 'what': 'recording algorithm holds %d feedbacks, %d were given' % (
          obs['algo_seen'], len(should))}
    if obs['proposals'] != n:
      return {'signature': 'proposal-count', 'what': 'algorithm.num_proposals = %d for %d trials' % (obs['proposals'], n)}
    # bookkeeping
    ncomp = sum(1 for t in st['trials'] if t['completed'])
    ninf = sum(1 for t in st['trials'] if t['infeasible'])
    if (st['completed'], st['pending'], st['infeasible']) != (ncomp, n - ncomp, ninf):
      return {'signature': 'count-mismatch',
              'what': 'str(result) says COMPLETED %d PENDING %d infeasible %d; trials: %d completed, %d pending, %d '
                      'infeasible' % (st['completed'], st['pending'], st['infeasible'], ncomp, n - ncomp, ninf)}
    if not ended and want is not None and ncomp != n:
      return {'signature': 'pending-at-quiescence', 'what': '%d of %d trials completed' % (ncomp, n)}
    feas = [t for t in st['trials'] if t['completed'] and not t['infeasible'] and t['final'] is not None]
    if st['best'] is None:
      if feas:
        return {'signature': 'best-missing', 'what': 'no best trial although %d feasible trials completed' % len(feas)}
    else:
      b = [t for t in st['trials'] if t['id'] == st['best']]
      if not b or b[0]['infeasible'] or not b[0]['completed']:
        return {'signature': 'best-infeasible', 'what': 'best trial %s is not a completed feasible trial' % st['best']}
      if feas and b[0]['final'] < max(t['final'] for t in feas):
        return {'signature': 'best-not-maximal', 'what': 'best trial %s has reward %s, maximum is %s' % (
            st['best'], b[0]['final'], max(t['final'] for t in feas))}
    return None

  def nontrivial(self, case, out):
    return sum(1 for d in out['obs']['delivered'] if d) >= 2 and any(t[0] == 'at' for t in out['taken'])

  def describe(self, case, out):
    h = ['workers:%d' % len(case['workers']), 'algo:' + case['algo'], 'ctor:' + case['ctor'],
         'sched:' + case['sched']['mode'], 'max:%s' % case['max']]
    groups = [w['group'] for w in case['workers']]
    h.append('groups:' + ('private' if len(set(groups)) == len(groups) else
                          'one' if len(set(groups)) == 1 else 'mixed'))
    h.append('preemptions:%s' % min(9, sum(1 for t in out['taken'] if t[0] == 'at')))
    for u in sorted({u[1] for u in out['user']}):
      h.append('user:' + u)
    st = out['obs']['study']
    if st:
      h.append('trials:%d' % len(st['trials']))
    for k in sorted(out['preempted_sites']):
      h.append('preempted-at:' + k)
    if out['obs']['abort']:
      h.append('abort:' + out['obs']['abort'])
    return h

  def shrink_candidates(self, case):
    sched = case['sched']
    if sched.get('mode') == 'random':
      out = self.impl(case)
      c = dict(case)
      c['sched'] = {'mode': 'directives', 'd': out['taken']}
      yield c
      return
    d = sched.get('d', [])
    ats = [i for i, x in enumerate(d) if x[0] in ('at', 'hot', 'site')]
    for i in reversed(ats):
      c = dict(case)
      c['sched'] = {'mode': 'directives', 'd': d[:i] + d[i + 1:]}
      yield c
    for wi, w in enumerate(case['workers']):
      for si in range(len(w['script'])):
        c = json.loads(json.dumps(case))
        del c['workers'][wi]['script'][si]
        yield c

  validated = 0

  def extra_checks(self, ctx):
    ctx.coverage['traces_validated_against_impl'] = self.validated


PROP = C16()
