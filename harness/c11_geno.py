"""Shared by harness/c11.py and harness/c12.py (file harness/c11_geno.py): spec / DNA wire formats, generators, the
independent Python reference of "the DNAs of a search space" (brute force), corruptions.

Wire formats (JSON):
  point : {"t": "c", "k": int, "cands": [[point, ...], ...], "d": bool, "s": bool,
           "name": str|None, "loc": [str|int, ...], "lits": [lit, ...]|None}
        | {"t": "f", "lo": [n, d], "hi": [n, d], "name", "loc"}          (float, exact ratios)
        | {"t": "u", "name", "loc"}                                      (custom decision point)
  space : {"t": "s", "elems": [point, ...]}
  DNA   : [value, [DNA, ...]]  with value None | int | {"f": [n, d]} | str   (raw constructor tree)

This module never imports pyglove at import time.
"""

import itertools


# ------------------------------------------------------------------------------------------
# spec helpers
# ------------------------------------------------------------------------------------------

def C(k, cands, d=True, s=False, name=None, loc=None, lits=None):
  return {'t': 'c', 'k': k, 'cands': cands, 'd': d, 's': s, 'name': name, 'loc': loc or [], 'lits': lits}


def reduce_ratio(q):
  import math
  g = math.gcd(q[0], q[1]) or 1
  return [q[0] // g, q[1] // g]


def F(lo, hi, name=None, loc=None, scale=None):
  p = {'t': 'f', 'lo': reduce_ratio(lo), 'hi': reduce_ratio(hi), 'name': name, 'loc': loc or []}
  if scale is not None:
    p['scale'] = scale      # a hint for search algorithms; the member set does not depend on it
  return p


def U(name=None, loc=None):
  return {'t': 'u', 'name': name, 'loc': loc or []}


def S(elems):
  return {'t': 's', 'elems': elems}


def elems_of(spec):
  """A root spec as a list of points plus whether it is a Space."""
  if spec['t'] == 's':
    return spec['elems']
  return [spec]


def points(spec):
  """All decision points of a spec in declaration order (multi-choices once)."""
  out = []
  def walk(p):
    out.append(p)
    if p['t'] == 'c':
      for c in p['cands']:
        for q in c:
          walk(q)
  for p in elems_of(spec):
    walk(p)
  return out


def is_finite(spec):
  return all(p['t'] == 'c' for p in points(spec))


def has_custom(spec):
  return any(p['t'] == 'u' for p in points(spec))


def has_multi(spec):
  return any(p['t'] == 'c' and p['k'] > 1 for p in points(spec))


def depth(spec):
  def dp(p):
    if p['t'] != 'c':
      return 1
    return 1 + max([0] + [dp(q) for c in p['cands'] for q in c])
  return max([0] + [dp(p) for p in elems_of(spec)])


def size_bound(spec, cap=10 ** 9):
  """Upper bound of the number of DNAs (ignores distinct / sorted)."""
  def sp(elems):
    n = 1
    for p in elems:
      n = min(cap, n * pt(p))
    return n
  def pt(p):
    if p['t'] != 'c':
      return 1
    return min(cap, sum(sp(c) for c in p['cands']) ** p['k'])
  return sp(elems_of(spec))


# ------------------------------------------------------------------------------------------
# The reference: members of a space, by brute force (itertools.product + filter)
# ------------------------------------------------------------------------------------------

def kids_l(ds):
  """Children of an int node whose candidate has element DNAs ds."""
  if len(ds) == 1 and ds[0][0] is None:
    return ds[0][1]
  return ds


def root_of(ds):
  if len(ds) == 1:
    return ds[0]
  return [None, ds]


def ref_all_point(p):
  """All member DNAs of a finite decision point (any order)."""
  if p['t'] == 'u' and p.get('hook'):
    return [[x, []] for x in p['hook']]    # a custom point whose hook enumerates these strings
  assert p['t'] == 'c', 'finite specs only'
  n, k = len(p['cands']), p['k']
  subs = [[kids_l(list(ds)) for ds in ref_all_elems(c)] for c in p['cands']]
  out = []
  for cs in itertools.product(range(n), repeat=k):
    if p['d'] and len(set(cs)) != k:
      continue
    if p['s'] and list(cs) != sorted(cs):
      continue
    for kss in itertools.product(*[subs[c] for c in cs]):
      out.append(root_of([[c, ks] for c, ks in zip(cs, kss)]))
  return out


def ref_all_elems(elems):
  return [list(t) for t in itertools.product(*[ref_all_point(p) for p in elems])]


def ref_all(spec):
  if spec['t'] == 's':
    return [root_of(ds) for ds in ref_all_elems(spec['elems'])]
  return ref_all_point(spec)


def freeze(tree):
  v = tree[0]
  if isinstance(v, dict):
    v = ('f',) + tuple(v['f'])
  return (v, tuple(freeze(c) for c in tree[1]))


def ratio(v):
  return v['f'][0], v['f'][1]


def ref_valid_point(p, d):
  """Structural membership (also for float / custom points)."""
  v, cs = d
  if p['t'] == 'f':
    if not isinstance(v, dict) or cs:
      return False
    n, e = ratio(v)
    return p['lo'][0] * e <= n * p['lo'][1] and n * p['hi'][1] <= p['hi'][0] * e
  if p['t'] == 'u':
    return isinstance(v, str)          # children of a custom point are user defined
  n, k = len(p['cands']), p['k']
  if k == 1:
    subs = [d]
  else:
    if v is not None:
      return False
    subs = cs
  if len(subs) != k:
    return False
  vals = []
  for sv, sks in subs:
    if isinstance(sv, bool) or not isinstance(sv, int) or not 0 <= sv < n:
      return False
    cand = p['cands'][sv]
    if len(cand) == 1 and cand[0]['t'] == 'c' and cand[0]['k'] > 1:
      ds = [[None, sks]]
    else:
      ds = sks
    if not ref_valid_elems(cand, ds):
      return False
    vals.append(sv)
  if p['d'] and len(set(vals)) != k:
    return False
  if p['s'] and vals != sorted(vals):
    return False
  return True


def ref_valid_elems(elems, ds):
  return len(elems) == len(ds) and all(ref_valid_point(p, d) for p, d in zip(elems, ds))


def ref_valid(spec, d):
  if spec['t'] != 's':
    return ref_valid_point(spec, d)
  elems = spec['elems']
  if len(elems) == 1:
    return ref_valid_point(elems[0], d)
  return d[0] is None and ref_valid_elems(elems, d[1])


def hnorm(tree):
  """Is the raw tree a fixed point of the constructor normalisation (hereditarily)?"""
  v, cs = tree
  if len(cs) == 1 and (v is None or cs[0][0] is None):
    return False
  return all(hnorm(c) for c in cs)


def normalise(tree):
  """DNA(value, children) normalisation (reference copy of base.py:580-595), bottom-up."""
  v, cs = tree
  cs = [normalise(c) for c in cs]
  if len(cs) == 1 and cs[0][0] is None:
    cs = cs[0][1]
  if v is None and len(cs) == 1:
    return cs[0]
  return [v, cs]


# ------------------------------------------------------------------------------------------
# random members and their oracle scripts
# ------------------------------------------------------------------------------------------

def dyadic(rng, lo, hi):
  """A float-representable ratio in [lo, hi] (both ratios with power-of-two denominators)."""
  den = 1 << 10
  a = -(-lo[0] * den // lo[1])
  b = hi[0] * den // hi[1]
  if a > b:
    return list(lo)
  n = rng.randint(a, b)
  d = den
  while d > 1 and n % 2 == 0:
    n //= 2
    d //= 2
  return [n, d]


def ref_random(spec, rng):
  """A random member together with the oracle script the real `random_dna` consumes for it
  (categorical.py:513-552 call order: choices first, then candidates left to right)."""
  script = []

  def pt(p):
    if p['t'] == 'f':
      q = dyadic(rng, p['lo'], p['hi'])
      script.append({'uniform': q})
      return [{'f': q}, []]
    if p['t'] == 'u':
      raise ValueError('custom decision point')
    n, k = len(p['cands']), p['k']
    if p['d']:
      cs = rng.sample(list(range(n)), k)
      script.append({'sample': list(cs)})
    else:
      cs = []
      for _ in range(k):
        c = rng.below(n)
        script.append({'randint': c})
        cs.append(c)
    if p['s']:
      cs = sorted(cs)
    subs = []
    for c in cs:
      subs.append([c, kids_l([pt(q) for q in p['cands'][c]])])
    return root_of(subs)

  if spec['t'] == 's':
    d = root_of([pt(p) for p in spec['elems']])
  else:
    d = pt(spec)
  return d, script


def ref_member(spec, rng, floats='random'):
  """A random member (custom points get a string). `floats='edge'`: every float decision is 0 when 0 lies
  in its range, else its lower bound (falsy values, boundaries)."""
  def pt(p):
    if p['t'] == 'f':
      if floats == 'edge':
        zero_in = p['lo'][0] <= 0 <= p['hi'][0]
        return [{'f': [0, 1] if zero_in else list(p['lo'])}, []]
      return [{'f': dyadic(rng, p['lo'], p['hi'])}, []]
    if p['t'] == 'u':
      return [rng.choice(['abc', '', 'x']), []]
    n, k = len(p['cands']), p['k']
    for _ in range(200):
      cs = [rng.below(n) for _ in range(k)]
      if p['s']:
        cs = sorted(cs)
      if not p['d'] or len(set(cs)) == k:
        break
    else:
      cs = list(range(k))
    return root_of([[c, kids_l([pt(q) for q in p['cands'][c]])] for c in cs])
  if spec['t'] == 's':
    return root_of([pt(p) for p in spec['elems']])
  return pt(spec)


# ------------------------------------------------------------------------------------------
# one-step corruptions of a (normal-form) DNA tree
# ------------------------------------------------------------------------------------------

def nodes(tree, path=()):
  yield path, tree
  for i, c in enumerate(tree[1]):
    yield from nodes(c, path + (i,))


def replace_at(tree, path, fn):
  if not path:
    return fn(tree)
  v, cs = tree
  cs = list(cs)
  cs[path[0]] = replace_at(cs[path[0]], path[1:], fn)
  return [v, cs]


def max_index(spec):
  return max([1] + [len(p['cands']) for p in points(spec) if p['t'] == 'c'])


def corruptions(spec, tree, rng, count):
  """`count` random one-step corruptions [(kind, tree)] of a member."""
  ns = list(nodes(tree))
  out = []
  nmax = max_index(spec)
  for _ in range(count * 3):
    if len(out) >= count:
      break
    path, node = rng.choice(ns)
    v, cs = node
    kinds = ['add-child', 'set-str', 'set-float']
    if isinstance(v, int):
      kinds += ['plus1', 'minus1', 'neg1', 'set-n', 'set-none', 'big-neg', 'plus1', 'minus1']
    if v is None:
      kinds += ['set-value', 'set-value']
    if isinstance(v, dict):
      kinds += ['float-out', 'float-child', 'float-to-int']
    if isinstance(v, str):
      kinds += ['str-to-int', 'set-none']
    if cs:
      kinds += ['drop-child', 'drop-child', 'dup-child']
    if len(cs) >= 2:
      kinds += ['swap', 'swap', 'copy-sibling-value', 'copy-sibling-value']
    if not cs and isinstance(v, int):
      kinds += ['leaf-gets-subtree']
    kind = rng.choice(kinds)
    if kind == 'plus1':
      new = [v + 1, cs]
    elif kind == 'minus1':
      new = [v - 1, cs]
    elif kind == 'neg1':
      new = [-1, cs]
    elif kind == 'big-neg':
      new = [-(nmax + 1 + rng.below(3)), cs]
    elif kind == 'set-n':
      new = [nmax + rng.below(2), cs]
    elif kind == 'set-none':
      new = [None, cs]
    elif kind == 'set-value':
      new = [rng.below(nmax + 1), cs]
    elif kind == 'set-str':
      new = ['abc', cs]
    elif kind == 'set-float':
      new = [{'f': [1, 2]}, cs]
    elif kind == 'float-out':
      new = [{'f': [v['f'][0] + 1000 * v['f'][1], v['f'][1]]}, cs]
    elif kind == 'float-child':
      new = [v, [[0, []]]]
    elif kind == 'float-to-int':
      new = [0, cs]
    elif kind == 'str-to-int':
      new = [0, cs]
    elif kind == 'add-child':
      new = [v, cs + [[rng.below(nmax), []]]]
    elif kind == 'drop-child':
      i = rng.below(len(cs))
      new = [v, cs[:i] + cs[i + 1:]]
    elif kind == 'dup-child':
      i = rng.below(len(cs))
      new = [v, cs[:i + 1] + cs[i:]]
    elif kind == 'swap':
      i = rng.below(len(cs) - 1)
      cs2 = list(cs)
      cs2[i], cs2[i + 1] = cs2[i + 1], cs2[i]
      new = [v, cs2]
    elif kind == 'copy-sibling-value':
      i = rng.below(len(cs) - 1)
      cs2 = list(cs)
      cs2[i + 1] = [cs[i][0], cs[i + 1][1]]
      new = [v, cs2]
    elif kind == 'leaf-gets-subtree':
      new = [v, [[0, []], [1, []]]]
    else:
      raise AssertionError(kind)
    cand = replace_at(tree, path, lambda _: new)
    if cand != tree:
      out.append((kind, cand))
  return out


# ------------------------------------------------------------------------------------------
# spec generators
# ------------------------------------------------------------------------------------------

def gen_point(rng, depth_left, allow_inf, budget):
  r = rng.below(100)
  if allow_inf and r < 12:
    lo = rng.randint(-4, 4)
    hi = lo + rng.randint(0, 6)
    scale = rng.choice([None, None, 'linear', 'log', 'rlog'] if lo > 0 else [None, None, 'linear'])
    return F([lo, 2], [hi, 2], scale=scale)
  if allow_inf and r < 16:
    return U()
  n = rng.weighted([(2, 1), (5, 2), (5, 3), (3, 4), (1, 5)])
  k = rng.weighted([(5, 1), (4, 2), (3, 3), (1, 4)])
  d = rng.chance(0.55)
  s = rng.chance(0.4)
  if d and k > n:
    if rng.chance(0.5):
      k = n
    else:
      d = False
  cands = []
  for _ in range(n):
    if depth_left <= 1 or rng.chance(0.55):
      cands.append([])
    else:
      m = rng.weighted([(6, 1), (3, 2), (1, 3)])
      cands.append([gen_point(rng, depth_left - 1, allow_inf, budget) for _ in range(m)])
  return C(k, cands, d, s)


def gen_spec(rng, allow_inf=False, cap=2000):
  for _ in range(50):
    root = rng.below(10)
    dl = rng.weighted([(3, 1), (5, 2), (3, 3)])
    if root < 3:
      spec = gen_point(rng, dl, allow_inf, cap)
    else:
      m = rng.weighted([(1, 0), (4, 1), (5, 2), (2, 3)])
      spec = S([gen_point(rng, dl, allow_inf, cap) for _ in range(m)])
    if size_bound(spec) <= cap:
      return spec
  return S([C(1, [[], []])])


LEAF_CANDS = {
    'const': [],
    'oneof2': [C(1, [[], []])],
    'manyof2of3': [C(2, [[], [], []])],
    'space2': [C(1, [[], []]), C(1, [[], []])],
}


def family_points(max_n=4, max_k=3, cand_pool=None):
  """The exhaustive depth-1 family: k <= 3, n <= 4, 4 modes, candidates from the pool."""
  pool = cand_pool if cand_pool is not None else list(LEAF_CANDS.values())
  for n in range(1, max_n + 1):
    for cands in itertools.product(pool, repeat=n):
      for k in range(1, max_k + 1):
        modes = [(True, False)] if k == 1 else [(d, s) for d in (True, False) for s in (True, False)]
        for d, s in modes:
          if d and k > n:
            continue
          yield C(k, [list(c) for c in cands], d, s)


def spec_key(spec):
  import json
  return json.dumps(spec, sort_keys=True)
