"""C06 — symbolic equality, hashing and ordering laws: generator, implementation runner, oracle.

Case shape:
  {"vals": [v0, v1] | [v0, v1, v2], "fam": <how the values are related (histogram only)>}
  | {"vals": [c, c, c, p1, (p2)], "fam": "mutated+...", "mut": {"pre": v, "ops": [write, ...]}}
    a value with a history: `pre` is built, the laws are evaluated on it against the partners p*, the
    writes are applied (op: {"path": steps to a symbolic node, "kind", "a": arguments, "quiet": under
    pg.notify_on_change(False), "skip": skip_notification of rebind, "warm": re-evaluate the laws
    after the write, "rel": deep key path of a rebind on an ancestor}); the three leading values are
    realised as (the written value, a fresh build of its contents, its deep clone); `c` is the
    script's prediction of the contents, the contents read back from the written value are what the
    model and the oracle are evaluated on (see "Values with a history").
Value descriptions (JSON):
  ["m"] missing marker | ["n"] None | ["b", 0|1] | ["i", int] | ["f", m, e] (the float m / 2**e)
  | ["s", text] | ["l", sym, [v...]] | ["t", [v...]] | ["d", sym, [[k, v]...]] (k an atom)
  | ["o", class index, [[["s", field], v]...]]      (sym = 1: pg.List / pg.Dict, 0: list / dict,
  2 (dicts): pg.Dict bound to a schema `pg.typing.Dict([(k, Any())...])` of its own keys in this
  order; objects of a class with a variable-key schema list their keyword fields in call order)

Implementation observables (public API only): pg.eq / pg.ne / pg.lt / pg.gt / pg.hash, `==`, `!=`,
`hash()` on objects of classes that opt into symbolic comparison, sorted(key=cmp_to_key(...)).
Every value is built twice; the right operand of every comparison is the second build, so that no
law is satisfied by the `left is right` short cut alone.
"""

import functools
import json

from harness.common.framework import Prop
from translate import t_c06

# (name, fields in declaration order, base index or None, use_symbolic_comparison)
CLASSES = [
    ('A', ['x', 'y'], None, True),
    ('B', ['x', 'y'], 0, True),          # subclass of A without extra field
    ('C', ['x', 'y', 'z'], 0, True),     # subclass of A with an extra field
    ('D', ['p'], None, True),
    ('E', ['y', 'x'], None, True),       # fields declared in non-alphabetical order
    ('N', ['x'], None, False),           # does not opt into symbolic comparison
    ('Q', ['x'], None, True),            # Q (6) and Q (7): two distinct classes with one __qualname__
    ('Q', ['x'], None, True),
    # classes with a variable-key schema: (name, declared fields, base, opt-in, True)
    ('K', [], None, True, True),          # pg.Object with pg.typing.StrKey() fields
    ('call', ['fn'], None, True, True),   # symbolized function  call(fn, **kwargs)
    ('Node', [], None, False, True),      # symbolized class     Node(**kwargs); opt-out by default
    # inheritance chains over `use_symbolic_comparison` (4th entry: the EFFECTIVE setting)
    ('AF', ['x', 'y'], 0, False),         # A (True) -> sets False
    ('AFT', ['x', 'y'], 11, True),        # A (True) -> AF (False) -> sets True again
    ('AFTI', ['x', 'y'], 12, True),       # ... -> inherits True without restating it
    ('NT', ['x'], 5, True),               # N (False) -> sets True
    ('NI', ['x'], 5, False),              # N (False) -> inherits False without restating it
    ('NodeT', [], None, True, True),      # symbolized class NodeT(**kwargs) with eq=True
]
# classes with the same declared fields along one inheritance chain (variant 'subclass')
FAMILIES = [(0, 1, 2, 11, 12, 13), (5, 14, 15), (10, 16)]
SAME_QUALNAME = (6, 7)
QUALS = (['_mk_env.<locals>.' + n for n in 'ABCDEN'] + ['_mk_env.<locals>.mk_q.<locals>.Q'] * 2
         + ['_mk_env.<locals>.K', '_mk_env.<locals>.call', 'Node']
         + ['_mk_env.<locals>.' + n for n in ('AF', 'AFT', 'AFTI', 'NT', 'NI')] + ['NodeT'])


def is_dyn(c):
  return len(CLASSES[c]) > 4 and CLASSES[c][4]


DYN = [int(is_dyn(c)) for c in range(len(CLASSES))]

_ENV = None


def _mk_env():
  import pyglove as pg

  def members(fields, first=True):
    return pg.members([(f, pg.typing.Any(default=None) if (i or not first) else pg.typing.Any())
                       for i, f in enumerate(fields)])

  @members(['x', 'y'])
  class A(pg.Object):
    pass

  class B(A):
    pass

  @members(['z'], first=False)
  class C(A):
    pass

  @members(['p'])
  class D(pg.Object):
    pass

  @members(['y', 'x'])
  class E(pg.Object):
    pass

  @members(['x'])
  class N(pg.Object):
    use_symbolic_comparison = False

  def mk_q():
    @members(['x'])
    class Q(pg.Object):
      pass
    return Q

  @pg.members([(pg.typing.StrKey(), pg.typing.Any())])
  class K(pg.Object):
    pass

  @pg.symbolize
  def call(fn, **kwargs):
    return fn, kwargs

  @pg.symbolize
  class Node:
    def __init__(self, **kwargs):
      self.kwargs = kwargs

  class AF(A):
    use_symbolic_comparison = False

  class AFT(AF):
    use_symbolic_comparison = True

  class AFTI(AFT):
    pass

  class NT(N):
    use_symbolic_comparison = True

  class NI(N):
    pass

  @pg.symbolize(eq=True)
  class NodeT:
    def __init__(self, **kwargs):
      self.kwargs = kwargs

  classes = [A, B, C, D, E, N, mk_q(), mk_q(), K, call, Node, AF, AFT, AFTI, NT, NI, NodeT]
  for c, spec in zip(classes, CLASSES):
    name, fields, sc = spec[0], spec[1], spec[3]
    declared = [str(k) for k in c.__schema__.keys() if k.is_const]
    assert c.__name__ == name and declared == fields, (c, declared)
    assert c.use_symbolic_comparison == sc
    assert (c.__schema__.dynamic_field is not None) == bool(len(spec) > 4 and spec[4]), c
  assert [c.__qualname__ for c in classes] == QUALS, [c.__qualname__ for c in classes]
  return {'pg': pg, 'classes': classes}


def env():
  global _ENV
  if _ENV is None:
    _ENV = _mk_env()
  return _ENV


# ------------------------------------------------------------------------------------------
# Value descriptions
# ------------------------------------------------------------------------------------------

ATOM_TAGS = ('m', 'n', 'b', 'i', 'f', 's')


def is_atom(d):
  return d[0] in ATOM_TAGS


def is_num(d):
  return d[0] in ('b', 'i', 'f')


def num_value(d):
  """Exact value of a numeric atom as (m, e)."""
  if d[0] == 'f':
    return d[1], d[2]
  return d[1], 0


def num_eq(a, b):
  (m1, e1), (m2, e2) = num_value(a), num_value(b)
  return m1 * 2 ** e2 == m2 * 2 ** e1


def atom_eq(a, b):
  if is_num(a) and is_num(b):
    return num_eq(a, b)
  return a == b


def canon_float(m, e):
  while e > 0 and m % 2 == 0:
    m //= 2
    e -= 1
  return ['f', m, e]


def normalize(d, under_sym=False, in_tuple=False):
  """Makes a description denote exactly the value pyglove builds from it: containers below a
  symbolic container / object are symbolic; symbolic containers hold no missing marker; keys are
  distinct under `==`; pg.Dict has no float keys; class N (opt-out) does not occur inside tuples."""
  t = d[0]
  if t == 'f':
    return canon_float(d[1], d[2])
  if t in ATOM_TAGS:
    return list(d)
  if t == 'l':
    sym = 1 if (d[1] or under_sym) else 0
    xs = [normalize(x, bool(sym), in_tuple) for x in d[2]]
    if sym:
      xs = [x for x in xs if x != ['m']]
    return ['l', sym, xs]
  if t == 't':
    return ['t', [normalize(x, False, True) for x in d[1]]]
  if t == 'd':
    sym = 1 if (d[1] or under_sym) else 0
    kvs = []
    for k, v in d[2]:
      k = normalize(k)
      v = normalize(v, bool(sym), in_tuple)
      if sym and (v == ['m'] or k[0] not in ('s', 'i', 'b')):
        continue
      if any(atom_eq(k, k2) for k2, _ in kvs):
        continue
      kvs.append([k, v])
    if d[1] == 2 and kvs and all(k[0] == 's' and k[1].isidentifier() for k, _ in kvs):
      sym = 2        # bound to the schema of its own keys (kept below symbolic parents as well)
    return ['d', sym, kvs]
  if t == 'o':
    c = d[1]
    if in_tuple and not CLASSES[c][3]:
      c = 0
    fields = CLASSES[c][1]
    given = {k[1]: v for k, v in d[2]}
    kvs = []
    for f in fields:
      v = normalize(given.get(f, ['n']), True, in_tuple)
      if v == ['m']:
        v = ['n']
      kvs.append([['s', f], v])
    if is_dyn(c):      # keyword fields, in the order given
      for k, v in d[2]:
        v = normalize(v, True, in_tuple)
        if (k[0] == 's' and k[1].isidentifier() and k[1] not in fields and v != ['m']
            and not any(k == k2 for k2, _ in kvs)):
          kvs.append([['s', k[1]], v])
    return ['o', c, kvs]
  raise ValueError(d)


def build(d, e):
  t = d[0]
  pg = e['pg'] if e else None
  if t == 'm':
    return pg.MISSING_VALUE
  if t == 'n':
    return None
  if t == 'b':
    return bool(d[1])
  if t == 'i':
    return int(d[1])
  if t == 'f':
    return float(d[1]) / float(2 ** d[2])
  if t == 's':
    return d[1]
  if t == 'l':
    xs = [build(x, e) for x in d[2]]
    if typed_list(d):
      # a list of dicts bound to one schema: the other way to get them (element spec of the list)
      spec = pg.typing.Dict([(k[1], pg.typing.Any()) for k, _ in d[2][0][2]])
      return pg.List([dict(x) for x in xs], value_spec=pg.typing.List(spec))
    return pg.List(xs) if d[1] else xs
  if t == 't':
    return tuple(build(x, e) for x in d[1])
  if t == 'd':
    kv = {build(k, e): build(v, e) for k, v in d[2]}
    if d[1] == 2:
      return pg.Dict(kv, value_spec=pg.typing.Dict([(k[1], pg.typing.Any()) for k, _ in d[2]]))
    return pg.Dict(kv) if d[1] else kv
  if t == 'o':
    return e['classes'][d[1]](**{k[1]: build(v, e) for k, v in d[2]})
  raise ValueError(d)


def walk(d):
  yield d
  t = d[0]
  if t == 'l':
    for x in d[2]:
      yield from walk(x)
  elif t == 't':
    for x in d[1]:
      yield from walk(x)
  elif t in ('d', 'o'):
    for k, v in d[2]:
      yield from walk(v)


def plain_container_reachable_by_hash(d):
  """Does `pg.hash` reach a plain list / dict (which Python cannot hash)?"""
  t = d[0]
  if t == 'l':
    return (not d[1]) or any(plain_container_reachable_by_hash(x) for x in d[2])
  if t == 't':
    return any(plain_container_reachable_by_hash(x) for x in d[1])
  if t == 'd':
    return (not d[1]) or any(plain_container_reachable_by_hash(v) for _, v in d[2])
  if t == 'o':
    return any(plain_container_reachable_by_hash(v) for _, v in d[2])
  return False


def tuple_kinds(d):
  """Kinds of the elements of all tuples in d: subset of {'num', 'str', 'other'}."""
  out = set()
  for x in walk(d):
    if x[0] == 't':
      for y in x[1]:
        out.add('num' if is_num(y) else 'str' if y[0] == 's' else 'other')
  return out


def classes_of(d):
  return {x[1] for x in walk(d) if x[0] == 'o'}


def key_order_differs(a, b):
  """For two descriptions that are equal up to key order / numeric aliasing / sym flags: is there
  a pair of corresponding dicts whose key *sequences* differ?"""
  if a[0] != b[0]:
    return False
  t = a[0]
  if t == 'l':
    return any(key_order_differs(x, y) for x, y in zip(a[2], b[2]))
  if t == 't':
    return any(key_order_differs(x, y) for x, y in zip(a[1], b[1]))
  if t in ('d', 'o'):
    ka, kb = [k for k, _ in a[2]], [k for k, _ in b[2]]
    if len(ka) != len(kb):
      return False
    if any(not atom_eq(x, y) for x, y in zip(ka, kb)):
      return True
    for k, v in a[2]:
      for k2, w in b[2]:
        if atom_eq(k, k2) and key_order_differs(v, w):
          return True
  return False


def _key_id(k):
  if is_num(k):
    m, e = num_value(k)
    return ('num',) + tuple(canon_float(m, e)[1:])
  return (k[0], k[1] if len(k) > 1 else None)


def key_order_conflict(vals):
  """Do two dicts occurring anywhere in the values have the same key set in different orders?
  (The precondition of the repaired finding F15: `lt` walked keys by position, `eq` treats them as
  a set; kept so that a regression is reported under the old signature.)"""
  seqs = {}
  for d in vals:
    for x in walk(d):
      if x[0] == 'd' and len(x[2]) > 1:
        seq = tuple(_key_id(k) for k, _ in x[2])
        seqs.setdefault(frozenset(seq), set()).add(seq)
  return any(len(v) > 1 for v in seqs.values())


def has_dict(d):
  return any(x[0] in ('d', 'o') and len(x[2]) > 1 for x in walk(d))



# ------------------------------------------------------------------------------------------
# Values with a history: write scripts, on descriptions (prediction) and on real values
#
# Correspondence rule: eq / ne / lt / gt / hash (and `==`, `!=`, `hash()`) are functions of the
# CURRENT CONTENTS of their operands. The model is therefore evaluated on the contents of the
# value *after* the writes (read back through the public read API: `sym_items` / `sym_values` /
# iteration), whatever was computed - and possibly memoised - on the value before or between the
# writes, and whichever write path (notifying or not) produced the contents.
# ------------------------------------------------------------------------------------------

def typed_list(d):
  """A pg.List that `build` binds to an element schema (all elements dicts bound to one schema)."""
  return (d[0] == 'l' and d[1] and d[2]
          and all(x[0] == 'd' and x[1] == 2 and [k for k, _ in x[2]] == [k for k, _ in d[2][0][2]] for x in d[2]))


def untype_lists(d):
  """The same value with no list bound to an element schema (for values that are written to: a
  bound list would reject most writes)."""
  t = d[0]
  if t == 'l':
    xs = [untype_lists(x) for x in d[2]]
    if typed_list(['l', d[1], xs]):
      xs[0] = ['d', 1, xs[0][2]]
    return ['l', d[1], xs]
  if t == 't':
    return ['t', [untype_lists(x) for x in d[1]]]
  if t in ('d', 'o'):
    return [t, d[1], [[k, untype_lists(v)] for k, v in d[2]]]
  return d


def is_sym_node(d):
  return (d[0] in ('l', 'd') and d[1] >= 1) or d[0] == 'o'


def children(d):
  """(index path into the description, step in the real value, child) per direct child."""
  t = d[0]
  if t == 'l':
    return [([2, i], ['i', i], x) for i, x in enumerate(d[2])]
  if t == 't':
    return [([1, i], ['i', i], x) for i, x in enumerate(d[1])]
  if t == 'd':
    return [([2, i, 1], ['k', k], v) for i, (k, v) in enumerate(d[2])]
  if t == 'o':
    return [([2, i, 1], ['a', k[1]], v) for i, (k, v) in enumerate(d[2])]
  return []


def sym_targets(d):
  """The symbolic nodes (pg.List / pg.Dict / pg.Object) of d. `anc`: lengths of the prefixes of
  `vpath` that are symbolic ancestors linked to the node through symbolic nodes only (a tuple breaks
  the chain); `under_obj`: the node or one of its ancestors is an object."""
  out = []

  def rec(x, dpath, vpath, in_tuple, chain, under_obj):
    under_obj = under_obj or x[0] == 'o'
    if is_sym_node(x):
      out.append({'dpath': dpath, 'vpath': vpath, 'node': x, 'in_tuple': in_tuple, 'anc': list(chain),
                  'under_obj': under_obj})
      chain = chain + [len(vpath)]
    else:
      chain = []
    for dp, vs, c in children(x):
      rec(c, dpath + dp, vpath + [vs], in_tuple or x[0] == 't', chain, under_obj)
  rec(d, [], [], False, [], False)
  return out


def desc_replace(d, dpath, fn):
  if not dpath:
    return fn(d)
  d = list(d)
  d[dpath[0]] = desc_replace(d[dpath[0]], dpath[1:], fn)
  return d


def dpath_of(d, vpath):
  dp = []
  for step in vpath:
    for cdp, vs, c in children(d):
      if vs == step or (vs[0] == 'k' and step[0] == 'k' and atom_eq(vs[1], step[1])):
        dp, d = dp + cdp, c
        break
    else:
      raise KeyError(step)
  return dp


def _setkv(kvs, k, v):
  for kv in kvs:
    if atom_eq(kv[0], k):
      kv[1] = v
      return
  kvs.append([k, v])


def apply_node(node, kind, a):
  """The contents of a symbolic node after one write (prediction on descriptions)."""
  node = json.loads(json.dumps(node))
  if node[0] in ('d', 'o'):
    if kind in ('set', 'setattr'):
      _setkv(node[2], a['k'], a['v'])
    elif kind in ('update', 'rebind'):
      for k, v in a['kvs']:
        _setkv(node[2], k, v)
    elif kind in ('del', 'pop'):
      node[2] = [kv for kv in node[2] if not atom_eq(kv[0], a['k'])]
    elif kind == 'clear':
      node[2] = []
    else:
      raise ValueError(kind)
    return node
  xs = node[2]
  if kind == 'set':
    xs[a['k'][1]] = a['v']
  elif kind == 'rebind':
    for k, v in a['kvs']:
      xs[k[1]] = v
  elif kind == 'append':
    xs.append(a['v'])
  elif kind == 'insert':
    xs.insert(a['k'][1], a['v'])
  elif kind == 'extend':
    xs.extend(a['vs'])
  elif kind == 'del':
    del xs[a['k'][1]]
  elif kind == 'pop':
    xs.pop()
  elif kind == 'sort':
    xs.sort(key=lambda x: build(x, None))
  elif kind == 'reverse':
    xs.reverse()
  elif kind == 'clear':
    del xs[:]
  else:
    raise ValueError(kind)
  return node


def apply_desc(d, op):
  """The description after one write of a script (the prediction; the contents that count are
  read back from the real value)."""
  kind = 'rebind' if op['kind'] == 'deep_rebind' else op['kind']
  dp = dpath_of(d, op['path'] + op.get('rel', []))
  return desc_replace(d, dp, lambda node: apply_node(node, kind, op['a']))


def _step_key(step):
  return build(step[1], None) if step[0] == 'k' else step[1]


def navigate(x, vpath):
  for s in vpath:
    x = x.sym_getattr(s[1]) if s[0] == 'a' else x[_step_key(s)]
  return x


def apply_op(e, root, op):
  """One write on the real value, through the write path the op names."""
  import contextlib
  pg = e['pg']
  t = navigate(root, op['path'])
  a, kind = op['a'], op['kind']
  B = lambda d: build(d, e)
  K = lambda k: build(k, None)
  with contextlib.ExitStack() as st:
    if op.get('quiet'):
      st.enter_context(pg.notify_on_change(False))
    if kind == 'set':
      t[K(a['k'])] = B(a['v'])
    elif kind == 'setattr':
      if isinstance(t, pg.Object):
        st.enter_context(pg.allow_writable_accessors(True))
      setattr(t, a['k'][1], B(a['v']))
    elif kind == 'del':
      del t[K(a['k'])]
    elif kind == 'pop':
      t.pop() if isinstance(t, list) else t.pop(K(a['k']))
    elif kind == 'update':
      t.update({K(k): B(v) for k, v in a['kvs']})
    elif kind in ('rebind', 'deep_rebind'):
      rel = [_step_key(s) for s in op.get('rel', [])]
      upd = {pg.KeyPath(rel + [K(k)]): B(v) for k, v in a['kvs']}
      kw = {} if op.get('skip') is None else {'skip_notification': bool(op['skip'])}
      t.rebind(upd, **kw)
    elif kind == 'append':
      t.append(B(a['v']))
    elif kind == 'insert':
      t.insert(a['k'][1], B(a['v']))
    elif kind == 'extend':
      t.extend([B(v) for v in a['vs']])
    elif kind == 'sort':
      t.sort()
    elif kind == 'reverse':
      t.reverse()
    elif kind == 'clear':
      t.clear()
    else:
      raise ValueError(kind)


def describe_value(v, e):
  """The description of the current contents of a real value (inverse of `build`), read through
  the public read API only."""
  pg = e['pg']
  if isinstance(v, type(pg.MISSING_VALUE)):
    return ['m']
  if v is None:
    return ['n']
  if isinstance(v, bool):
    return ['b', int(v)]
  if isinstance(v, int):
    return ['i', v]
  if isinstance(v, float):
    num, den = v.as_integer_ratio()
    return canon_float(num, den.bit_length() - 1)
  if isinstance(v, str):
    return ['s', v]
  D = lambda x: describe_value(x, e)
  if isinstance(v, tuple):
    return ['t', [D(x) for x in v]]
  if isinstance(v, pg.List):
    return ['l', 1, [D(x) for x in v.sym_values()]]
  if isinstance(v, list):
    return ['l', 0, [D(x) for x in v]]
  if isinstance(v, pg.Dict):
    return ['d', 2 if v.value_spec is not None else 1, [[D(k), D(x)] for k, x in v.sym_items()]]
  if isinstance(v, dict):
    return ['d', 0, [[D(k), D(x)] for k, x in v.items()]]
  if isinstance(v, pg.Object):
    return ['o', e['classes'].index(type(v)), [[['s', k], D(x)] for k, x in v.sym_items()]]
  raise ValueError(type(v))


# ------------------------------------------------------------------------------------------
# Generator: related families
# ------------------------------------------------------------------------------------------

STRS = ['', 'a', 'b', 'ab', 'B', 'é', 'x', 'y']
KEYS = ['a', 'b', 'c', 'x', 'y']


class Gen:
  def __init__(self, rng):
    self.r = rng
    self.tuple_kind = 'num'

  def num(self):
    r = self.r
    k = r.below(10)
    if k < 5:
      return ['i', r.randint(-2, 4)]
    if k < 7:
      return ['b', r.below(2)]
    if k < 9:
      return canon_float(r.randint(-4, 9), r.below(3))
    return ['i', r.choice([10 ** 18, -7, 255])]

  def atom(self, allow_special=True):
    r = self.r
    k = r.below(20)
    if k < 10:
      return self.num()
    if k < 16:
      return ['s', r.choice(STRS)]
    if k < 18 or not allow_special:
      return ['n']
    return ['m']

  def key(self, plain):
    r = self.r
    k = r.below(12)
    if k < 8:
      return ['s', r.choice(KEYS)]
    if k < 10 or not plain:
      return ['i', r.randint(0, 3)]
    if k < 11:
      return ['b', r.below(2)]
    return canon_float(r.randint(0, 5), r.below(2))

  def tuple_elem(self):
    return self.num() if self.tuple_kind == 'num' else ['s', self.r.choice(STRS)]

  def val(self, depth, malformed=False, top=False):
    r = self.r
    if depth <= 0 or r.chance(0.12 if top else 0.3):
      return self.atom()
    k = r.below(12)
    sub = lambda: self.val(depth - 1, malformed)
    if k < 3:
      return ['l', int(r.chance(0.7)), [sub() for _ in range(r.below(4))]]
    if k < 7:
      plain = r.chance(0.3)
      if not plain and r.chance(0.25):     # bound to a schema of str keys
        return ['d', 2, [[['s', f], sub()] for f in r.shuffle(KEYS)[:r.randint(1, 3)]]]
      return ['d', 0 if plain else 1, [[self.key(plain), sub()] for _ in range(r.below(4))]]
    if k < 9:
      if malformed:
        return ['t', [sub() for _ in range(r.below(4))]]
      return ['t', [self.tuple_elem() for _ in range(r.below(4))]]
    c = r.weighted([(5, 0), (2, 1), (2, 2), (2, 3), (2, 4), (1, 5), (2, 8), (2, 9), (1, 10),
                    (1, 11), (2, 12), (1, 13), (2, 14), (1, 15), (1, 16)])
    kw = r.shuffle(KEYS)[:r.below(4)] if is_dyn(c) else []
    return ['o', c, [[['s', f], sub()] for f in CLASSES[c][1] + kw]]

  # -- variants ---------------------------------------------------------------------------
  def positions(self, d, pred):
    """Paths (lists of indices into the description) of the sub-descriptions satisfying pred."""
    out = []

    def rec(x, path):
      if pred(x):
        out.append(path)
      t = x[0]
      if t == 'l':
        for i, y in enumerate(x[2]):
          rec(y, path + [2, i])
      elif t == 't':
        for i, y in enumerate(x[1]):
          rec(y, path + [1, i])
      elif t in ('d', 'o'):
        for i, (_, v) in enumerate(x[2]):
          rec(v, path + [2, i, 1])
    rec(d, [])
    return out

  def replace(self, d, path, fn):
    if not path:
      return fn(d)
    d = list(d)
    d[path[0]] = self.replace(d[path[0]], path[1:], fn)
    return d

  def alias_num(self, a):
    """Another spelling of the same number (bool / int / float)."""
    m, e = num_value(a)
    opts = []
    if e == 0:
      opts.append(['i', m])
      if abs(m) < 2 ** 53:
        opts.append(['f', m, 0])
      if m in (0, 1):
        opts.append(['b', m])
    opts = [o for o in opts if o != a]
    return self.r.choice(opts) if opts else a

  def variant(self, d, kind):
    """Returns a value related to d, or None if the variant is not applicable."""
    r = self.r
    if kind == 'same':
      return json.loads(json.dumps(d))
    if kind == 'alias':
      ps = self.positions(d, lambda x: is_num(x) and num_value(x)[1] == 0)
      keyed = self.positions(d, lambda x: x[0] == 'd' and not x[1]
                             and any(is_num(k) and num_value(k)[1] == 0 for k, _ in x[2]))
      if keyed and (not ps or r.chance(0.3)):
        p = r.choice(keyed)

        def f(x):
          kvs = [[self.alias_num(k) if is_num(k) and num_value(k)[1] == 0 else k, v] for k, v in x[2]]
          return ['d', x[1], kvs]
        return self.replace(d, p, f)
      if not ps:
        return None
      return self.replace(d, r.choice(ps), self.alias_num)
    if kind == 'permute':
      perm = lambda x: (x[0] == 'd' and len(x[2]) > 1) or (
          x[0] == 'o' and is_dyn(x[1]) and len(x[2]) - len(CLASSES[x[1]][1]) > 1)
      ps = self.positions(d, perm)
      if not ps:
        return None
      def f(x):
        n0 = len(CLASSES[x[1]][1]) if x[0] == 'o' else 0
        kvs = r.shuffle(x[2][n0:])
        if kvs == x[2][n0:]:
          kvs = kvs[1:] + kvs[:1]
        return [x[0], x[1], x[2][:n0] + kvs]
      if r.chance(0.6):
        return self.replace(d, r.choice(ps), f)

      def rec(x):      # permute every dict
        t = x[0]
        if t == 'l':
          return ['l', x[1], [rec(y) for y in x[2]]]
        if t == 't':
          return ['t', [rec(y) for y in x[1]]]
        if t in ('d', 'o'):
          y = [t, x[1], [[k, rec(v)] for k, v in x[2]]]
          return f(y) if perm(y) else y
        return x
      return rec(d)
    if kind == 'leaf':
      ps = self.positions(d, is_atom)
      if not ps:
        return None
      p = r.choice(ps)

      def f(x):
        if is_num(x) and r.chance(0.7):
          m, e = num_value(x)
          return canon_float(m + r.choice([-1, 1]), e) if x[0] == 'f' else ['i', m + r.choice([-1, 1])]
        if x[0] == 's' and r.chance(0.7):
          return ['s', x[1] + r.choice(['a', 'B', 'é'])] if r.chance(0.5) else ['s', r.choice(STRS)]
        in_tuple = len(p) >= 2 and p[-2] == 1
        return self.tuple_elem() if in_tuple else self.atom()
      return self.replace(d, p, f)
    if kind in ('append', 'drop'):
      ps = self.positions(d, lambda x: x[0] in ('l', 't') or x[0] == 'd')
      if not ps:
        return None
      p = r.choice(ps)

      def f(x):
        idx = 1 if x[0] == 't' else 2
        x = list(x)
        if kind == 'drop':
          if not x[idx]:
            return x
          x[idx] = x[idx][:-1]
        elif x[0] == 'd':
          x[idx] = x[idx] + [[self.key(not x[1]), self.atom()]]
        elif x[0] == 't':
          x[idx] = x[idx] + [self.tuple_elem()]
        else:
          x[idx] = x[idx] + [self.atom()]
        return x
      return self.replace(d, p, f)
    if kind == 'subclass':      # another class of the same inheritance chain
      fam = lambda c: next((f for f in FAMILIES if c in f), None)
      ps = self.positions(d, lambda x: x[0] == 'o' and fam(x[1]))
      if not ps:
        return None

      def f(x):
        c = r.choice([c for c in fam(x[1]) if c != x[1]])
        kvs = [kv for kv in x[2] if is_dyn(c) or kv[0][1] in CLASSES[c][1]]
        if c == 2 and r.chance(0.5):
          kvs = kvs + [[['s', 'z'], self.atom(False)]]
        return ['o', c, kvs]
      return self.replace(d, r.choice(ps), f)
    if kind == 'flip':
      ps = self.positions(d, lambda x: x[0] in ('l', 'd'))
      if not ps:
        return None
      return self.replace(d, r.choice(ps), lambda x: [
          x[0], r.choice([k for k in ((0, 1, 2) if x[0] == 'd' else (0, 1)) if k != x[1]]), x[2]])
    if kind == 'rename':     # one key of a dict / keyword field of an object gets another name
      ren = lambda x: (x[0] == 'd' and x[2] and any(k[0] == 's' for k, _ in x[2])) or (
          x[0] == 'o' and is_dyn(x[1]) and len(x[2]) > len(CLASSES[x[1]][1]))
      ps = self.positions(d, ren)
      if not ps:
        return None

      def f(x):
        n0 = len(CLASSES[x[1]][1]) if x[0] == 'o' else 0
        idx = r.choice([i for i in range(n0, len(x[2])) if x[2][i][0][0] == 's'])
        used = [k[1] for k, _ in x[2] if k[0] == 's']
        new = r.choice([k for k in KEYS + ['z', 'w'] if k not in used])
        kvs = [list(kv) for kv in x[2]]
        kvs[idx] = [['s', new], kvs[idx][1]]
        return [x[0], x[1], kvs]
      return self.replace(d, r.choice(ps), f)
    if kind == 'fresh':
      return self.val(2)
    raise AssertionError(kind)

  KINDS = [(14, 'same'), (14, 'alias'), (22, 'permute'), (20, 'leaf'), (8, 'append'), (4, 'drop'),
           (8, 'subclass'), (10, 'flip'), (6, 'rename'), (4, 'fresh')]

  def related(self, d):
    for _ in range(6):
      kind = self.r.weighted(self.KINDS)
      v = self.variant(d, kind)
      if v is not None:
        v = normalize(v)
        if kind in ('alias', 'permute', 'flip', 'rename') and v == d:
          continue
        return kind, v
    return 'same', json.loads(json.dumps(d))

  def kw_case(self, n):
    """Related values whose base is an object of a class with a variable-key schema, or a dict bound
    to a schema, holding 1-3 keyword fields."""
    r = self.r
    self.tuple_kind = r.choice(['num', 'num', 'str'])
    keys = r.shuffle(KEYS)[:r.randint(1, 3)]
    sub = lambda: self.val(r.below(2)) if r.chance(0.4) else self.num()
    if r.chance(0.7):
      c = r.choice([8, 9, 9, 10])
      base = ['o', c, [[['s', f], sub()] for f in CLASSES[c][1] + keys]]
    else:
      base = ['d', 2, [[['s', f], sub()] for f in keys]]
    if r.chance(0.3):
      base = r.choice([['l', 1, [base]], ['o', 0, [[['s', 'x'], base]]], ['d', 1, [[['s', 'a'], base]]]])
    base = normalize(base)
    vals, fam = [base], []
    for i in range(n - 1):
      src = vals[-1] if (i == 0 or r.chance(0.5)) else vals[0]
      kind = r.weighted([(5, 'permute'), (3, 'rename'), (3, 'flip'), (3, 'leaf'), (1, 'same'), (1, 'append')])
      v = self.variant(src, kind)
      v = normalize(v) if v is not None else json.loads(json.dumps(src))
      fam.append(kind)
      vals.append(v)
    return {'vals': vals, 'fam': 'kw+' + '+'.join(fam)}

  def chain_case(self, n):
    """Related values whose base is a top-level object of a class of one of the inheritance chains
    over `use_symbolic_comparison` (so that `==`, `!=`, `hash()` are exercised on every such class)."""
    r = self.r
    self.tuple_kind = r.choice(['num', 'num', 'str'])
    c = r.choice([c for f in FAMILIES for c in f])
    sub = lambda: self.val(r.below(2)) if r.chance(0.4) else self.atom(False)
    kw = r.shuffle(KEYS)[:r.below(3)] if is_dyn(c) else []
    base = normalize(['o', c, [[['s', f], sub()] for f in CLASSES[c][1] + kw]])
    vals, fam = [base], []
    for i in range(n - 1):
      src = vals[-1] if (i == 0 or r.chance(0.5)) else vals[0]
      kind = r.weighted([(5, 'same'), (4, 'subclass'), (3, 'leaf'), (2, 'alias'), (2, 'permute')])
      v = self.variant(src, kind)
      v = normalize(v) if v is not None else json.loads(json.dumps(src))
      fam.append(kind)
      vals.append(v)
    return {'vals': vals, 'fam': 'chain+' + '+'.join(fam)}

  def case(self, n, malformed=False):
    r = self.r
    self.tuple_kind = r.choice(['num', 'num', 'str'])
    base = normalize(self.val(r.randint(1, 3), malformed, top=True))
    vals, fam = [base], []
    for i in range(n - 1):
      src = vals[-1] if (i == 0 or r.chance(0.5)) else vals[0]
      kind, v = self.related(src)
      fam.append(kind)
      vals.append(v)
    if r.chance(0.3):
      order = r.shuffle(list(range(n)))
      vals = [vals[i] for i in order]
    return {'vals': vals, 'fam': '+'.join(fam) + ('+malformed' if malformed else '')}



  # -- values with a history ----------------------------------------------------------------
  def wval(self, in_tuple):
    """A value to write into a symbolic node."""
    r = self.r
    v = self.atom(False) if r.chance(0.6) else self.val(r.randint(1, 2))
    return untype_lists(normalize(v, True, in_tuple))

  def gen_op(self, cur):
    """One write on a random symbolic node of `cur` (None if there is none)."""
    r = self.r
    ts = sym_targets(cur)
    if not ts:
      return None
    t = r.weighted([(1 + 2 * len(x['vpath']) + (2 if x['under_obj'] else 0), x) for x in ts])
    node, tup = t['node'], t['in_tuple']
    W = lambda: self.wval(tup)
    op = {'path': t['vpath'], 'quiet': int(r.chance(0.4)), 'warm': int(r.chance(0.5))}
    skip = lambda: r.choice([None, None, 1, 1, 0])
    if node[0] == 'o':
      fields = [k for k, _ in node[2]]
      if is_dyn(node[1]):       # a keyword field may be new
        new = [['s', k] for k in KEYS if ['s', k] not in fields]
        if new and (not fields or r.chance(0.3)):
          fields = fields + [r.choice(new)]
      if r.chance(0.3) and CLASSES[node[1]][0] not in ('Node', 'NodeT'):   # (symbolized classes: attributes are not fields)
        op.update(kind='setattr', a={'k': r.choice(fields), 'v': W()})
      else:
        ks = r.shuffle(fields)[:r.randint(1, min(2, len(fields)))]
        op.update(kind='rebind', a={'kvs': [[k, W()] for k in ks]}, skip=skip())
    elif node[0] == 'd':
      old = [k for k, _ in node[2]]
      bound = node[1] == 2      # bound to a schema: the key set is fixed

      def key(rebindable=False):
        for _ in range(8):
          k = r.choice(old) if old and (bound or r.chance(0.5)) else self.key(False)
          if rebindable and k[0] not in ('s', 'i'):
            continue
          if k in old or not any(atom_eq(k, k2) for k2 in old):
            return k
        return ['s', 'n%d' % len(old)]
      kind = r.weighted([(4, 'set'), (2, 'setattr'), (0 if bound else 2, 'del'), (0 if bound else 1, 'pop'),
                         (4, 'update'), (4, 'rebind'), (0 if bound else 1, 'clear')])
      if kind in ('del', 'pop') and not old:
        kind = 'set'
      if kind == 'set':
        op.update(kind=kind, a={'k': key(), 'v': W()})
      elif kind == 'setattr':
        k = key()
        op.update(kind=kind if k[0] == 's' and k[1].isidentifier() else 'set', a={'k': k, 'v': W()})
      elif kind in ('del', 'pop'):
        op.update(kind=kind, a={'k': r.choice(old)})
      elif kind == 'clear':
        op.update(kind=kind, a={})
      else:
        kvs = []
        for _ in range(r.randint(1, 2)):
          k = key(kind == 'rebind')
          if not any(atom_eq(k, k2) for k2, _ in kvs):
            kvs.append([k, W()])
        op.update(kind=kind, a={'kvs': kvs})
        if kind == 'rebind':
          op['skip'] = skip()
    else:
      n = len(node[2])
      sortable = n > 0 and (all(is_num(x) for x in node[2]) or all(x[0] == 's' for x in node[2]))
      kind = r.weighted([(3, 'set'), (3, 'append'), (2, 'insert'), (2, 'extend'), (2, 'del'), (1, 'pop'),
                         (3 if sortable else 0, 'sort'), (3, 'reverse'), (1, 'clear'), (3, 'rebind')])
      if kind in ('set', 'del', 'pop', 'rebind') and n == 0:
        kind = 'append'
      if kind == 'set':
        op.update(kind=kind, a={'k': ['i', r.below(n)], 'v': W()})
      elif kind == 'rebind':
        op.update(kind=kind, a={'kvs': [[['i', r.below(n)], W()]]}, skip=skip())
      elif kind == 'append':
        op.update(kind=kind, a={'v': W()})
      elif kind == 'insert':
        op.update(kind=kind, a={'k': ['i', r.below(n + 1)], 'v': W()})
      elif kind == 'extend':
        op.update(kind=kind, a={'vs': [W() for _ in range(r.randint(1, 2))]})
      elif kind == 'del':
        op.update(kind=kind, a={'k': ['i', r.below(n)]})
      else:
        op.update(kind=kind, a={})
    # the same slot written through `rebind` on a symbolic ancestor (a deep key path)
    if op['kind'] == 'rebind' and t['anc'] and r.chance(0.5):
      cut = r.choice(t['anc'])
      op.update(kind='deep_rebind', path=t['vpath'][:cut], rel=t['vpath'][cut:])
    return op

  def mut_case(self):
    """A value with a history: `pre`, 1-3 writes, and partners related to the contents after (or
    before) the writes. vals = [contents after the writes] * 3 + partners; the three leading values
    are realised as: the written value, a fresh build of its contents, its deep clone."""
    r = self.r
    self.tuple_kind = r.choice(['num', 'num', 'str'])
    score = lambda d: sum(2 if t['under_obj'] else 1 for t in sym_targets(d))
    pre = max((untype_lists(normalize(self.val(r.randint(2, 3), False, top=True))) for _ in range(4)),
              key=score)
    if not sym_targets(pre):
      pre = normalize(['o', 0, [[['s', 'x'], ['l', 1, [self.num(), self.num()]]],
                                [['s', 'y'], ['d', 1, [[['s', 'a'], self.atom(False)]]]]]])
    cur, ops = pre, []
    for _ in range(r.randint(1, 3)):
      op = self.gen_op(cur)
      if op is None:
        break
      nxt = apply_desc(cur, op)
      if normalize(nxt) != nxt:
        continue
      ops.append(op)
      cur = nxt
    partners = [self.related(cur)[1] for _ in range(r.randint(1, 2))]
    if r.chance(0.5):
      partners[-1] = pre
    fam = 'mutated+' + '+'.join(op['kind'] for op in ops)
    return {'vals': [cur, cur, cur] + partners, 'fam': fam, 'mut': {'pre': pre, 'ops': ops}}


def pool_values():
  """The 40-value pool of the exhaustive thorough run."""
  s = lambda x: ['s', x]
  i = lambda x: ['i', x]
  pool = [
      ['m'], ['n'], ['b', 0], ['b', 1], i(0), i(1), i(2), ['f', 1, 0], ['f', 3, 1], i(-1),
      s(''), s('a'), s('b'), s('ab'),
      ['l', 1, []], ['l', 0, [i(1)]], ['l', 1, [i(1)]], ['l', 1, [['b', 1]]], ['l', 1, [i(1), i(2)]], ['l', 1, [i(2)]],
      ['l', 1, [['n']]], ['l', 0, [['m']]],
      ['t', []], ['t', [i(1)]], ['t', [i(1), i(2)]], ['t', [['f', 1, 0]]],
      ['d', 1, []], ['d', 1, [[s('a'), i(1)]]], ['d', 1, [[s('a'), i(1)], [s('b'), i(2)]]],
      ['d', 1, [[s('b'), i(2)], [s('a'), i(1)]]], ['d', 0, [[i(1), s('x')]]], ['d', 0, [[['b', 1], s('x')]]],
      ['d', 1, [[i(1), s('x')], [s('a'), i(1)]]], ['d', 1, [[s('a'), ['l', 1, [i(1)]]]]],
      ['o', 0, [[s('x'), i(1)], [s('y'), s('a')]]], ['o', 1, [[s('x'), i(1)], [s('y'), s('a')]]],
      ['o', 2, [[s('x'), i(1)], [s('y'), s('a')], [s('z'), i(0)]]], ['o', 0, [[s('x'), ['n']], [s('y'), s('a')]]],
      ['o', 4, [[s('y'), i(1)], [s('x'), i(2)]]], ['o', 3, [[s('p'), ['d', 1, [[s('b'), i(2)], [s('a'), i(1)]]]]]],
  ]
  return [normalize(v) for v in pool]


# ------------------------------------------------------------------------------------------
# Evaluation of the model's hash term with the real `hash`
# ------------------------------------------------------------------------------------------

class _H:
  """An object whose hash is a given hash value."""
  __slots__ = ('h',)

  def __init__(self, h):
    self.h = h

  def __hash__(self):
    return self.h


def eval_term(t, cls_hash):
  k = t[0]
  if k == 'a':
    return cls_hash['missing'] if t[1] == ['m'] else hash(build(t[1], None))
  if k == 'c':
    return cls_hash[str(t[1])]
  if k == 'r':
    return hash(int(eval_term(t[1], cls_hash)))
  if k == 't':
    return hash(tuple(_H(eval_term(x, cls_hash)) for x in t[1]))
  if k == 'f':
    return hash(frozenset(_H(eval_term(x, cls_hash)) for x in t[1]))
  raise ValueError(t)


# ------------------------------------------------------------------------------------------

def _res(f, *a):
  try:
    r = f(*a)
  except Exception as ex:   # pylint: disable=broad-except
    return type(ex).__name__
  return r


class C06(Prop):
  id = 'C06'
  props_modules = ['PgProps.C06']
  driver = 'drv_c06'
  translators = [t_c06.run]
  case_timeout_s = 60
  jobs_thorough = 14
  rule = ('pairs and triples generated in related families: a random base value (atoms incl. bool/int/'
          'float aliases, None, the missing marker, str; plain and symbolic lists / dicts with str, int, '
          'bool, float keys; tuples of mutually comparable primitives; objects of 6 classes incl. two '
          'subclasses with and without an extra field and one opt-out class; depth <= 3), then per further '
          'value one of: same value rebuilt, numeric alias, key order permuted, one leaf changed, element '
          'appended / dropped, subclass instance, symbolic/plain flip, fresh value; ~8 % malformed stream '
          '(tuples with arbitrary elements); two classes with one __qualname__ in a dedicated stream; '
          'pg.Dict bound to a schema of its own keys (also as elements of a list bound to an element schema, as '
          'object fields) against schema-less pg.Dict / plain dicts (flip); objects of three classes with a '
          'variable-key schema (pg.Object with StrKey fields, symbolized function call(fn, **kwargs), '
          'symbolized class Node(**kwargs)) with the keyword fields permuted / renamed, also in a dedicated '
          'stream; inheritance chains over use_symbolic_comparison (True -> False -> True -> inherited, '
          'False -> True, False -> inherited, symbolized classes with eq unset / True) as top-level values in '
          'a dedicated stream, with ==, != and hash() required to agree with pg.eq / pg.ne / pg.hash where the '
          'effective setting is True and to be identity-based where it is False; '
          'a stream of values with a history: a value is built, eq / ne / lt / gt / hash / == / hash() are '
          'evaluated on it against its partners, 1-3 writes are applied to its symbolic nodes (setitem, '
          'setattr, del, pop, update, clear, append, insert, extend, sort, reverse, rebind on the node or '
          'on an ancestor with a deep key path, with skip_notification unset / True / False, 40 % of the '
          'writes under pg.notify_on_change(False), the laws re-evaluated between writes half of the '
          'time), then the laws are evaluated on (written value, fresh build of its contents, deep '
          'clone, 1-2 partners related to the contents after / before the writes); the model is '
          'evaluated on the contents read back after the writes. '
          'Non-trivial: at least one value is a container or object and not all values are identical '
          'descriptions; distinct: by the list of value descriptions.')
  trusted_base = [
      "Python's `==`, `<` and `hash` on bool/int/float/str/None/classes, `hash` of tuple/frozenset/int "
      '(parameters of the model: NumOrd lemmas for exact dyadic rationals, PyHash with the law '
      '"numerically equal atoms hash equal" and permutation-invariance of the frozenset hash)',
      'modelled, not verified: eq / ne / symLt (= positional lt after key sorting) / symGt / hashTerm mirror '
      'base.py, dict.py, list.py, object.py '
      '(tied by T-ORDER extraction + correspondence); user classes overriding sym_eq / sym_lt / sym_hash, '
      'NaN / inf, sets, functions / methods / classes as values (callable_eq), typed missing values of '
      'partial objects and inferred values are outside the model',
      'the hash term of the model is evaluated with the real hash() by the harness and compared with pg.hash',
      'correspondence rule for values with a history: the (stateless) model is evaluated on the contents read '
      'back from the written value through sym_items / sym_values / iteration; the read API itself and the '
      'contents the write paths produce are not part of C06 (C01 / C02)',
  ]
  assumptions = ['dict keys are atoms (no tuple keys); floats are finite']

  # -- generation -------------------------------------------------------------------------
  def generate(self, rng, tier):
    g = Gen(rng)
    n_pairs, n_triples = (3000, 1200) if tier == 'quick' else (120000, 50000)
    for _ in range(n_pairs):
      yield g.case(2, malformed=rng.chance(0.08))
    for _ in range(n_triples):
      yield g.case(3, malformed=rng.chance(0.08))
    # values with a history: written through notifying and non-notifying paths after eq / hash / lt
    # were evaluated on them (module comment "Values with a history")
    for _ in range(900 if tier == 'quick' else 40000):
      yield g.mut_case()
    # dedicated stream: objects with keyword fields / dicts bound to a schema at the top
    for _ in range(400 if tier == 'quick' else 20000):
      yield g.kw_case(rng.randint(2, 3))
    # dedicated stream: top-level objects of the inheritance chains over use_symbolic_comparison
    for _ in range(400 if tier == 'quick' else 20000):
      yield g.chain_case(rng.randint(2, 3))
    # dedicated stream: two classes with one qualname
    for _ in range(20 if tier == 'quick' else 200):
      x = normalize(['o', rng.choice(SAME_QUALNAME), [[['s', 'x'], g.atom(False)]]])
      y = normalize(['o', rng.choice(SAME_QUALNAME), [[['s', 'x'], g.atom(False)]]])
      yield {'vals': [x, y], 'fam': 'same-qualname'}
    pool = pool_values()
    if tier == 'thorough':
      for a in pool:
        for b in pool:
          yield {'vals': [a, b], 'fam': 'pool2'}
      for a in pool:
        for b in pool:
          for c in pool:
            yield {'vals': [a, b, c], 'fam': 'pool3'}
    else:
      for _ in range(300):
        yield {'vals': [rng.choice(pool) for _ in range(3)], 'fam': 'pool3'}

  def model_request(self, case, ids=None):
    # `ids`: str(id(cls)) per class - the tie-break of `_type_order` between classes with one
    # __qualname__ (fix F286); taken from the implementation's process (model_request_with_impl)
    ids = ids or ['%04d' % c for c in range(len(CLASSES))]
    return {'quals': QUALS, 'ids': ids, 'dyn': DYN, 'vals': case['vals']}

  def effective(self, case, out):
    """A case with a history, with the contents read back from the written value in the place of the
    script's prediction: vals = [contents after the writes] * 3 + partners. The model and the oracle
    are evaluated on these (correspondence rule: the laws are functions of the current contents)."""
    if case.get('mut') and isinstance(out, dict) and 'post' in out:
      case = dict(case)
      case['vals'] = [out['post']] * 3 + case['vals'][3:]
    return case

  def model_request_with_impl(self, case, impl_out):
    ids = impl_out.get('cls_ids') if isinstance(impl_out, dict) else None
    return self.model_request(self.effective(case, impl_out), ids)

  def warm(self, pg, x, partners):
    """Everything the laws evaluate, on a value that is about to be written (may memoise)."""
    _res(pg.hash, x)
    _res(hash, x)
    for p in partners:
      for f in (pg.eq, pg.ne, pg.lt, pg.gt):
        _res(f, x, p)
        _res(f, p, x)
      _res(lambda a, b: a == b, x, p)
      _res(pg.hash, p)

  # -- implementation ---------------------------------------------------------------------
  def setup_impl(self):
    super().setup_impl()
    env()

  def impl(self, case):
    e = env()
    pg = e['pg']
    mut = case.get('mut')
    if mut:
      import copy

      def written():
        x = build(mut['pre'], e)
        ps = [build(d, e) for d in case['vals'][3:]]
        self.warm(pg, x, ps)
        for op in mut['ops']:
          apply_op(e, x, op)
          if op.get('warm'):
            self.warm(pg, x, ps)
        return x
      clone = lambda v: v.clone(deep=True) if isinstance(v, pg.Symbolic) else copy.deepcopy(v)
      xa, xb = written(), written()
      post = describe_value(xa, e)
      vals = [xa, build(post, e), clone(xa)] + [build(d, e) for d in case['vals'][3:]]
      copies = [xb, build(post, e), clone(xb)] + [build(d, e) for d in case['vals'][3:]]
    else:
      vals = [build(d, e) for d in case['vals']]
      copies = [build(d, e) for d in case['vals']]
    n = len(vals)
    mat = lambda f: [[_res(f, vals[i], copies[j]) for j in range(n)] for i in range(n)]
    out = {'model': {'eq': mat(pg.eq), 'ne': mat(pg.ne), 'lt': mat(pg.lt), 'gt': mat(pg.gt)}}
    out['hash'] = [_res(pg.hash, v) for v in vals]
    out['hash_copy'] = [_res(pg.hash, v) for v in copies]
    # the EFFECTIVE setting of use_symbolic_comparison of the class of a top-level object, from the
    # harness's class table (None: not an object)
    eff = [CLASSES[e['classes'].index(type(v))][3] if isinstance(v, pg.Object) else None for v in vals]
    opt_in = [x is True for x in eff]
    # opt-out classes: `==` / `!=` / `hash()` are those of `object` (identity)
    out['op_ident'] = [
        [_res(lambda a: a == a, v), _res(lambda a: a != a, v), _res(lambda a: hash(a) == object.__hash__(a), v),
         [_res(lambda a, b: a == b, v, w) for w in copies], [_res(lambda a, b: a != b, v, w) for w in copies]]
        if x is False else None for v, x in zip(vals, eff)]
    out['op_eq'] = [[_res(lambda a, b: a == b, vals[i], copies[j]) if opt_in[i] else None
                     for j in range(n)] for i in range(n)]
    out['op_ne'] = [[_res(lambda a, b: a != b, vals[i], copies[j]) if opt_in[i] else None
                     for j in range(n)] for i in range(n)]
    out['op_hash'] = [_res(hash, v) if o else None for v, o in zip(vals, opt_in)]

    def cmp(i, j):
      return -1 if pg.lt(vals[i], vals[j]) else (1 if pg.lt(vals[j], vals[i]) else 0)
    out['sorted'] = _res(lambda: sorted(range(n), key=functools.cmp_to_key(cmp)))
    ch = {'list': hash(pg.List), 'dict': hash(pg.Dict), 'missing': hash(pg.MISSING_VALUE)}
    for i, c in enumerate(e['classes']):
      ch[str(i)] = hash(c)
    out['cls_hash'] = ch
    out['cls_ids'] = [str(id(c)) for c in e['classes']]
    if mut:
      out['post'] = post
    return out

  def compare(self, case, impl_out, model_out):
    case = self.effective(case, impl_out)
    a = impl_out['model']
    b = {k: model_out.get(k) for k in ('eq', 'ne', 'lt', 'gt')}
    if a != b:
      for k in ('eq', 'ne', 'lt', 'gt'):
        if a[k] != b[k]:
          return '%s: impl=%s model=%s' % (k, a[k], b[k])
    # the literal transcription of base.lt (keys sorted when the dict branch is reached; proved equal
    # to symLt on well-formed values: C06_lt_direct) must agree with pg.lt as well
    if model_out.get('lt_direct') != a['lt']:
      return 'lt (literal transcription ltDirect): impl=%s model=%s' % (a['lt'], model_out.get('lt_direct'))
    for i, (h, t) in enumerate(zip(impl_out['hash'], model_out['hash'])):
      if isinstance(t, str) or isinstance(h, str):
        if t != h:
          return 'hash[%d]: impl=%s model=%s' % (i, h, t)
      else:
        mh = eval_term(t, impl_out['cls_hash'])
        if mh != h:
          return 'hash[%d]: impl=%s, the model term %s hashes to %s' % (i, h, json.dumps(t), mh)
    return None

  # -- the property itself ------------------------------------------------------------------
  def in_order_quantifier(self, case):
    """Tuples hold mutually comparable primitives (over all values of the case)."""
    kinds = set()
    for d in case['vals']:
      kinds |= tuple_kinds(d)
    return kinds in (set(), {'num'}, {'str'})

  _known = None

  def oracle(self, case, out):
    """All laws are evaluated; a failure that matches no known finding is reported in preference
    to one that does (so a known defect never masks a new one in the same case)."""
    case = self.effective(case, out)
    fails = [f for f in (self.eq_hash_laws(case, out), ) if f]
    if case.get('check') in (None, 'order'):
      f = self.order_laws(case, out)
      if f:
        fails.append(f)
    if case.get('check') is None:
      f = self.hash_laws(case, out, skip_plain=True)
      if f:
        fails.append(f)
    f = self.history_laws(case, out)
    if f:
      fails.append(f)
    if not fails:
      return None
    if C06._known is None:
      from harness.common import framework
      C06._known = [p for e in framework.load_findings('C06') if e.get('status') == 'known'
                    for p in e['signature'].split('|')]
    for f in fails:
      if f['signature'] not in C06._known:
        return f
    return fails[0]

  def eq_hash_laws(self, case, out):
    if case.get('check') == 'order':
      return None
    f = self.eq_laws(case, out)
    if f or case.get('check') == 'eq':
      return f
    return self.hash_laws(case, out)

  def eq_laws(self, case, out):
    vals = case['vals']
    n = len(vals)
    m = out['model']
    eq, ne, lt, gt = m['eq'], m['ne'], m['lt'], m['gt']
    R = range(n)
    fail = lambda sig, what: {'signature': sig, 'what': what}
    # ---- equality --------------------------------------------------------------------------
    for i in R:
      for j in R:
        if not isinstance(eq[i][j], bool) or not isinstance(ne[i][j], bool):
          return fail('eq-raises', 'pg.eq / pg.ne raised: %s / %s on values %d, %d' % (eq[i][j], ne[i][j], i, j))
    for i in R:
      if eq[i][i] is not True:
        return fail('eq-not-reflexive', 'pg.eq(x, rebuilt x) is False for value %d' % i)
    for i in R:
      for j in R:
        if eq[i][j] != eq[j][i]:
          return fail('eq-not-symmetric', 'pg.eq(v%d, v%d)=%s but pg.eq(v%d, v%d)=%s' % (i, j, eq[i][j], j, i, eq[j][i]))
        if ne[i][j] != (not eq[i][j]):
          return fail('ne-not-negation', 'pg.ne(v%d, v%d)=%s, pg.eq=%s' % (i, j, ne[i][j], eq[i][j]))
    for i in R:
      for j in R:
        for k in R:
          if eq[i][j] and eq[j][k] and not eq[i][k]:
            return fail('eq-not-transitive', 'eq(v%d,v%d), eq(v%d,v%d) but not eq(v%d,v%d)' % (i, j, j, k, i, k))
    return None

  def hash_laws(self, case, out, skip_plain=False):
    """Equal values have equal hashes; operators of opt-in classes agree. With skip_plain, values
    whose hash raises on a plain container (F16) are left out, so that the remaining values of the
    case are still checked."""
    vals = case['vals']
    n = len(vals)
    m = out['model']
    eq, ne = m['eq'], m['ne']
    fail = lambda sig, what: {'signature': sig, 'what': what}
    hs = out['hash']
    R = [i for i in range(n) if not (skip_plain and isinstance(hs[i], str)
                                     and plain_container_reachable_by_hash(vals[i]))]
    for i in R:
      for h in (hs[i], out['hash_copy'][i]):
        if isinstance(h, str):
          if h == 'TypeError' and plain_container_reachable_by_hash(vals[i]):
            return fail('hash-raises-on-plain-container',
                        'pg.hash(v%d) raises %s although v%d is pg.eq to its rebuilt copy (and to the '
                        'symbolic container with the same content)' % (i, h, i))
          return fail('hash-raises:' + h, 'pg.hash(v%d) raises %s' % (i, h))
      if hs[i] != out['hash_copy'][i]:
        return fail('hash-differs-on-rebuilt', 'pg.hash of value %d and of its rebuilt copy differ' % i)
    for i in R:
      for j in R:
        if eq[i][j] and hs[i] != hs[j]:
          sig = 'hash-differs-on-equal'
          if key_order_differs(vals[i], vals[j]):
            sig += ':dict-key-order'
          return fail(sig, 'pg.eq(v%d, v%d) but pg.hash differs' % (i, j))
    # ---- operators of classes that opt in ------------------------------------------------------
    for i in R:
      if out['op_hash'][i] is not None and out['op_hash'][i] != hs[i]:
        return fail('operator-hash-disagrees', 'hash(v%d) != pg.hash(v%d)' % (i, i))
      for j in R:
        if out['op_eq'][i][j] is not None and out['op_eq'][i][j] != eq[i][j]:
          return fail('operator-eq-disagrees', '(v%d == v%d) = %s, pg.eq = %s' % (i, j, out['op_eq'][i][j], eq[i][j]))
        if out['op_ne'][i][j] is not None and out['op_ne'][i][j] != ne[i][j]:
          return fail('operator-ne-disagrees', '(v%d != v%d) = %s, pg.ne = %s' % (i, j, out['op_ne'][i][j], ne[i][j]))
    # ---- operators of classes that opt out: identity --------------------------------------------
    for i in R:
      o = (out.get('op_ident') or [None] * n)[i]
      if o is not None:
        want = [True, False, True, [False] * n, [True] * n]
        if o != want:
          return fail('operator-identity-disagrees',
                      'v%d is an object of a class whose use_symbolic_comparison is False, but [v == v, v != v, '
                      'hash(v) == object.__hash__(v), [v == other objects], [v != other objects]] = %s' % (i, o))
    return None

  def history_laws(self, case, out):
    """A written value (0) behaves as the fresh build of its contents (1) and as its deep clone (2)
    in every comparison, on either side, and hashes as they do."""
    if not case.get('mut'):
      return None
    fail = lambda what, txt: {'signature': 'history-dependent:' + what, 'what': txt}
    n = len(case['vals'])
    ops = '; '.join('%s%s at %s' % (o['kind'], ' (notification off)' if o.get('quiet') else '',
                                    json.dumps(o['path'])) for o in case['mut']['ops'])
    mats = dict(out['model'])
    mats['op_eq'], mats['op_ne'] = out['op_eq'], out['op_ne']
    for name in ('eq', 'ne', 'lt', 'gt', 'op_eq', 'op_ne'):
      M = mats[name]
      for j, who in ((1, 'a fresh build of its contents'), (2, 'its deep clone')):
        for k in range(n):
          if M[0][k] != M[j][k]:
            return fail(name, '%s(written value, v%d) = %s but %s(%s, v%d) = %s after: %s' % (
                name, k, M[0][k], name, who, k, M[j][k], ops))
          if M[k][0] != M[k][j]:
            return fail(name, '%s(v%d, written value) = %s but %s(v%d, %s) = %s after: %s' % (
                name, k, M[k][0], name, k, who, M[k][j], ops))
    for name in ('hash', 'op_hash'):
      h = out[name]
      for j, who in ((1, 'a fresh build of its contents'), (2, 'its deep clone')):
        if h[0] != h[j]:
          return fail(name, '%s of the written value differs from that of %s after: %s' % (name, who, ops))
    return None

  def order_laws(self, case, out):
    vals = case['vals']
    n = len(vals)
    m = out['model']
    eq, lt, gt = m['eq'], m['lt'], m['gt']
    R = range(n)
    fail = lambda sig, what: {'signature': sig, 'what': what}
    if not self.in_order_quantifier(case):
      return None
    ko = ':dict-key-order' if key_order_conflict(vals) else ''
    for i in R:
      for j in R:
        if gt[i][j] != lt[j][i]:
          return fail('gt-not-swapped-lt', 'pg.gt(v%d, v%d)=%s, pg.lt(v%d, v%d)=%s' % (i, j, gt[i][j], j, i, lt[j][i]))
    for i in R:
      for j in R:
        if not isinstance(lt[i][j], bool):
          cs = classes_of(vals[i]) | classes_of(vals[j])
          if lt[i][j] == 'RecursionError' and set(SAME_QUALNAME) <= cs:
            return fail('lt-raises:RecursionError:same-qualname',
                        'pg.lt(v%d, v%d) does not terminate (instances of two classes with one __qualname__)' % (i, j))
          return fail('lt-raises:%s:%s' % (lt[i][j], self.raise_cause(vals[i], vals[j])),
                      'pg.lt(v%d, v%d) raises %s' % (i, j, lt[i][j]))
    for i in R:
      if lt[i][i]:
        return fail('lt-not-irreflexive', 'pg.lt(v%d, rebuilt v%d) is True' % (i, i))
    for i in R:
      for j in R:
        cnt = int(lt[i][j]) + int(eq[i][j]) + int(lt[j][i])
        if cnt != 1:
          which = 'lt=%s eq=%s gt=%s' % (lt[i][j], eq[i][j], lt[j][i])
          if eq[i][j] and key_order_differs(vals[i], vals[j]):
            return fail('lt-inconsistent-with-eq:dict-key-order',
                        'v%d and v%d are pg.eq dicts with different key order, yet ordered by pg.lt (%s)' % (i, j, which))
          return fail('trichotomy', 'not exactly one of lt / eq / gt for v%d, v%d: %s' % (i, j, which))
    for i in R:
      for j in R:
        for k in R:
          if lt[i][j] and lt[j][k] and not lt[i][k]:
            return fail('lt-not-transitive' + ko, 'lt(v%d,v%d), lt(v%d,v%d) but not lt(v%d,v%d)' % (i, j, j, k, i, k))
    s = out['sorted']
    if isinstance(s, str):
      return fail('sort-raises:' + s, 'sorted(key=cmp_to_key(pg.lt)) raises ' + s)
    for a, b in zip(s, s[1:]):
      if lt[b][a]:
        return fail('sort-not-ordered' + ko, 'sorted order %s has v%d before v%d although lt(v%d, v%d)' % (s, a, b, b, a))
    return None

  def raise_cause(self, a, b):
    """Coarse cause of a TypeError of lt (for the signature)."""
    atoms = lambda d: {x[0] for x in walk(d) if is_atom(x)}
    keys = lambda d: {('num' if is_num(k) else k[0]) for x in walk(d) if x[0] in ('d',) for k, _ in x[2]}
    if len(keys(a) | keys(b)) > 1:
      return 'mixed-key-types'
    if (atoms(a) | atoms(b)) & {'n', 'm'}:
      return 'none-or-missing'
    return 'other'

  def nontrivial(self, case, out):
    if case.get('mut'):
      return bool(case['mut']['ops']) and isinstance(out, dict) and out.get('post') != case['mut']['pre']
    vals = case['vals']
    return any(not is_atom(v) for v in vals) and any(v != vals[0] for v in vals[1:])

  def describe(self, case, out):
    if not isinstance(out, dict) or 'model' not in out:
      return ['no-output(timeout)']
    script_vals = case['vals']
    case = self.effective(case, out)
    vals = case['vals']
    n = len(vals)
    m = out['model']
    h = ['arity:%d' % n] + ['fam:' + f for f in case.get('fam', '?').replace('/', '+').split('+')[:1]]
    if case.get('mut'):
      ops = case['mut']['ops']
      h.append('writes:%d' % len(ops))
      for o in ops:
        how = o['kind'] + ('/skip=%s' % o['skip'] if 'skip' in o else '')
        h.append('write:%s%s' % (how, '/notification-off' if o.get('quiet') else ''))
        h.append('write-depth:%d' % len(o['path'] + o.get('rel', [])))
      if any(o.get('quiet') or o.get('skip') or o['kind'] == 'update' for o in ops):
        h.append('case-with-non-notifying-write')
      if vals[0] != script_vals[0]:
        h.append('contents-differ-from-script-prediction(the-read-back-contents-are-used)')
      if vals[0] == case['mut']['pre']:
        h.append('writes-without-effect')
    else:
      h += ['fam:' + f for f in case.get('fam', '?').replace('/', '+').split('+')[1:]]
    pairs = [(i, j) for i in range(n) for j in range(n) if i < j]
    n_eq = sum(1 for i, j in pairs if m['eq'][i][j] is True)
    h.append('pairs')
    h += ['pairs'] * (len(pairs) - 1)
    h += ['pairs-eq-true'] * n_eq
    for i, j in pairs:
      r = m['lt'][i][j]
      h.append('lt:' + (str(r)))
    for v in vals:
      h.append('top:' + v[0])
      h.append('depth:%d' % self.depth(v))
    if any(isinstance(x, str) for x in out['hash']):
      h.append('hash-raises')
    if not self.in_order_quantifier(case):
      h.append('outside-order-quantifier(malformed tuples)')
    if any(key_order_differs(vals[i], vals[j]) for i, j in pairs if m['eq'][i][j] is True):
      h.append('eq-pair-with-different-key-order')
    if not self.nontrivial(case, out):
      h.append('trivial')
    return h

  def depth(self, d):
    t = d[0]
    if t == 'l':
      return 1 + max([self.depth(x) for x in d[2]] + [0])
    if t == 't':
      return 1 + max([self.depth(x) for x in d[1]] + [0])
    if t in ('d', 'o'):
      return 1 + max([self.depth(v) for _, v in d[2]] + [0])
    return 0

  def mk_mut(self, pre, ops, partners, fam):
    """A case with a history from its parts (None if the script does not apply to `pre`)."""
    try:
      cur = pre
      for op in ops:
        cur = normalize(apply_desc(cur, op))
    except (KeyError, IndexError, ValueError, TypeError):
      return None
    return {'vals': [cur, cur, cur] + partners, 'fam': fam, 'mut': {'pre': pre, 'ops': ops}}

  def shrink_candidates(self, case):
    if case.get('mut'):
      pre, ops, partners = case['mut']['pre'], case['mut']['ops'], case['vals'][3:]
      cands = [(pre, ops[:i] + ops[i + 1:], partners) for i in range(len(ops))]
      cands += [(pre, ops, partners[:i] + partners[i + 1:]) for i in range(len(partners))]
      cands += [(pre, [dict(o, warm=0) for o in ops], partners)] if any(o.get('warm') for o in ops) else []
      cands += [(normalize(w), ops, partners) for w in self.smaller(pre)]
      for i, v in enumerate(partners):
        cands += [(pre, ops, partners[:i] + [normalize(w)] + partners[i + 1:]) for w in self.smaller(v)]
      for c in cands:
        c = self.mk_mut(c[0], c[1], c[2], 'shrunk')
        if c is not None and c != case:
          yield c
      return
    vals = case['vals']
    if len(vals) > 2:
      for i in range(len(vals)):
        yield {'vals': vals[:i] + vals[i + 1:], 'fam': 'shrunk'}
    for i, v in enumerate(vals):
      for w in self.smaller(v):
        w = normalize(w)
        if w != v:
          yield {'vals': vals[:i] + [w] + vals[i + 1:], 'fam': 'shrunk'}

  def smaller(self, d):
    t = d[0]
    if t in ('l', 't'):
      idx = 2 if t == 'l' else 1
      for i, x in enumerate(d[idx]):
        yield x
        y = list(d)
        y[idx] = d[idx][:i] + d[idx][i + 1:]
        yield y
        for s in self.smaller(x):
          y = list(d)
          y[idx] = d[idx][:i] + [s] + d[idx][i + 1:]
          yield y
    elif t in ('d', 'o'):
      for i, (k, v) in enumerate(d[2]):
        yield v
        if t == 'd':
          yield [t, d[1], d[2][:i] + d[2][i + 1:]]
        for s in self.smaller(v):
          yield [t, d[1], d[2][:i] + [[k, s]] + d[2][i + 1:]]
    elif t == 'i' and d[1] not in (0, 1):
      yield ['i', 1]
    elif t == 's' and d[1] not in ('', 'a'):
      yield ['s', 'a']


PROP = C06()
