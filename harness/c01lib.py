"""C01, oracle-only family: containers bound to a value spec whose fields have container defaults.

The forest model of C01 (lean/PgModel/Sym*.lean) knows one minimal value spec (a typed list of
objects). A pg.Dict / pg.Object bound to a schema re-populates the keys that are removed with the
defaults of the schema (clear, del, pop, rebind to MISSING, assignment of MISSING): FRESH nodes
appear under the old keys, and the old nodes leave the tree. That machinery is checked here on the
real code only (no model, no correspondence).

A case: one of a few schemata (nested Dict fields with defaults, List fields with list defaults,
Any fields), initial values, optionally a holder around the typed container, then 1-8 operations
on the typed container or on one of its typed sub-containers, under notification on / off.
Every symbolic node ever seen in a tree of the case is kept. Oracle after every operation (also
after a rejected one):
  * every node held by a container of the case reports that container as sym_parent and the
    holder's path + its key as sym_path, and looking the path up from its root yields the node;
  * every node that no container holds any more reports no parent ("no orphan claims a place");
  * no node object is held twice.
"""

import json

from harness import symcommon as sc

_LIB = {}


def lib():
  if _LIB:
    return _LIB
  pg = sc.env()['pg']
  t = pg.typing

  def spec0():
    return t.Dict([
        ('name', t.Str(default='model')),
        ('opt', t.Dict([('lr', t.Float(default=0.1)), ('extra', t.Any(default=None))])),
        ('layers', t.List(t.Dict(), default=[])),
        ('tags', t.List(t.Int(), default=[1, 2])),
    ])

  def spec1():
    return t.Dict([
        ('a', t.Dict([('x', t.Int(default=1)), ('inner', t.Dict([('y', t.Any(default=None))]))])),
        ('b', t.Any(default=None)),
        ('c', t.List(t.Any(), default=[])),
    ])

  def spec2():
    # no defaults for `req`: clearing is rejected unless the Dict allows partial values
    return t.Dict([
        ('req', t.Dict([('z', t.Int())])),
        ('opt', t.Dict([('w', t.List(t.Any(), default=[]))])),
    ])

  @pg.members([
      ('opt', t.Dict([('lr', t.Float(default=0.1)), ('extra', t.Any(default=None))])),
      ('layers', t.List(t.Dict(), default=[])),
      ('any', t.Any(default=None)),
  ])
  class Cfg(pg.Object):
    allow_symbolic_assignment = True

  _LIB.update(pg=pg, specs=[spec0, spec1, spec2], Cfg=Cfg)
  return _LIB


# ------------------------------------------------------------------------------------------------
# generator
# ------------------------------------------------------------------------------------------------

def _val(r, depth):
  k = r.below(6 if depth > 0 else 3)
  if k == 0:
    return r.below(5)
  if k == 1:
    return None
  if k == 2:
    return 's%d' % r.below(3)
  if k == 3:
    return {'d': [['k%d' % i, _val(r, depth - 1)] for i in range(r.below(3))]}
  if k == 4:
    return {'l': [_val(r, depth - 1) for _ in range(r.below(3))]}
  return {'d': [['k0', {'d': [['deep', True]]}]]}


KEYS = [['name', 'opt', 'layers', 'tags'], ['a', 'b', 'c'], ['req', 'opt'], ['opt', 'layers', 'any']]
SUBS = [['opt'], ['a', 'a.inner'], ['req', 'opt'], ['opt']]


def gen_case(r):
  kind = r.below(4)            # 0-2: typed Dict with schema i; 3: Object
  s = {'kind': kind, 'holder': ('none', 'dict', 'list')[r.below(3)], 'partial': r.chance(0.3)}
  init = {}
  if kind == 0:
    if r.chance(0.7):
      init['opt'] = {'d': [['lr', 0.5], ['extra', _val(r, 2)]]}
    if r.chance(0.7):
      init['layers'] = {'l': [{'d': [['units', i]]} for i in range(r.below(3))]}
    if r.chance(0.4):
      init['name'] = 'm1'
  elif kind == 1:
    if r.chance(0.7):
      init['a'] = {'d': [['x', 2], ['inner', {'d': [['y', _val(r, 2)]]}]]}
    if r.chance(0.7):
      init['b'] = _val(r, 2)
    if r.chance(0.6):
      init['c'] = {'l': [_val(r, 1) for _ in range(r.below(3))]}
  elif kind == 2:
    if r.chance(0.85):
      init['req'] = {'d': [['z', 1]]}
    if r.chance(0.6):
      init['opt'] = {'d': [['w', {'l': [_val(r, 1)]}]]}
  else:
    if r.chance(0.7):
      init['opt'] = {'d': [['lr', 0.5], ['extra', _val(r, 2)]]}
    if r.chance(0.7):
      init['layers'] = {'l': [{'d': [['units', i]]} for i in range(r.below(3))]}
    if r.chance(0.6):
      init['any'] = _val(r, 2)
  s['init'] = init
  ops = []
  for _ in range(r.randint(1, 8)):
    where = '' if r.chance(0.7) else SUBS[kind][r.below(len(SUBS[kind]))]
    key = KEYS[kind][r.below(len(KEYS[kind]))] if not where else ('lr', 'extra', 'x', 'inner', 'y', 'z', 'w')[r.below(7)]
    what = ('clear', 'del', 'pop', 'popitem', 'missing', 'rebind_missing', 'set', 'rebind', 'update',
            'setdefault', 'clear')[r.below(11)]
    ops.append({'w': where, 'k': key, 'op': what, 'v': _val(r, 2), 'n': not r.chance(0.25)})
  s['ops'] = ops
  return {'ops': [], 'tlib': s}


# ------------------------------------------------------------------------------------------------
# runner + oracle
# ------------------------------------------------------------------------------------------------

def _mk(pg, v):
  if isinstance(v, dict) and 'd' in v:
    return pg.Dict({k: _mk(pg, x) for k, x in v['d']})
  if isinstance(v, dict) and 'l' in v:
    return pg.List([_mk(pg, x) for x in v['l']])
  return v


def _plain(v):
  if isinstance(v, dict) and 'd' in v:
    return {k: _plain(x) for k, x in v['d']}
  if isinstance(v, dict) and 'l' in v:
    return [_plain(x) for x in v['l']]
  return v


def _nodes(pg, root, acc):
  stack = [root]
  while stack:
    n = stack.pop()
    if id(n) in acc:
      continue
    acc[id(n)] = n
    try:
      for _, c in n.sym_items():
        if isinstance(c, pg.Symbolic):
          stack.append(c)
    except Exception:   # pylint: disable=broad-except
      pass


def _check(pg, tracked):
  held = {}     # id(child) -> (holder, key)
  for n in tracked.values():
    if isinstance(n, pg.Ref):
      continue
    try:
      items = list(n.sym_items())
    except Exception:   # pylint: disable=broad-except
      continue
    for k, c in items:
      if isinstance(c, pg.Symbolic):
        if id(c) in held and held[id(c)][0] is not n:
          return ('two-places', 'one node object is held at %r[%r] and at %r[%r]' % (
              str(held[id(c)][0].sym_path), held[id(c)][1], str(n.sym_path), k))
        held[id(c)] = (n, k)
  for n in tracked.values():
    h = held.get(id(n))
    if h is None:
      if n.sym_parent is not None:
        return ('claims-parent', 'a node that no container holds any more reports a parent (sym_path %r, a %s)'
                % (str(n.sym_path), type(n).__name__))
      continue
    holder, k = h
    if n.sym_parent is not holder:
      return ('stale-parent', 'node held at %r[%r]: sym_parent is %s' % (
          str(holder.sym_path), k, 'None' if n.sym_parent is None else 'another object'))
    want = list(holder.sym_path.keys) + [k]
    if list(n.sym_path.keys) != want:
      return ('stale-path', 'node held at %r reports path %r' % (want, list(n.sym_path.keys)))
    root = n
    while held.get(id(root)) is not None:
      root = held[id(root)][0]
    rel = list(n.sym_path.keys)[len(list(root.sym_path.keys)):]
    try:
      got = root.sym_get(pg.KeyPath(rel))
    except Exception as e:   # pylint: disable=broad-except
      return ('lookup', 'root.sym_get(%r) raised %s' % (rel, type(e).__name__))
    if got is not n:
      return ('lookup', 'root.sym_get(%r) is not the node that reports that path' % (rel,))
  return None


def _target(pg, top, where):
  x = top
  if where:
    for part in where.split('.'):
      x = x.sym_getattr(part) if x.sym_hasattr(part) else None
      if not isinstance(x, pg.Symbolic):
        return None
  return x


def _apply(pg, x, op):
  k, what = op['k'], op['op']
  is_obj = isinstance(x, pg.Object)
  v = _mk(pg, op['v'])
  if what == 'clear':
    x.clear() if not is_obj else x.rebind({kk: pg.MISSING_VALUE for kk in list(x.sym_keys())})
  elif what == 'del':
    if is_obj:
      delattr(x, k)
    else:
      del x[k]
  elif what == 'pop':
    x.pop(k) if not is_obj else x.rebind({k: pg.MISSING_VALUE})
  elif what == 'popitem':
    x.popitem() if not is_obj else x.rebind({k: pg.MISSING_VALUE})
  elif what == 'missing':
    if is_obj:
      setattr(x, k, pg.MISSING_VALUE)
    else:
      x[k] = pg.MISSING_VALUE
  elif what == 'rebind_missing':
    x.rebind({k: pg.MISSING_VALUE})
  elif what == 'set':
    if is_obj:
      setattr(x, k, v)
    else:
      x[k] = v
  elif what == 'rebind':
    x.rebind({k: v})
  elif what == 'update':
    if is_obj:
      x.rebind({k: v, 'any': 1}, raise_on_no_change=False)
    else:
      x.update({k: v})
  else:
    if is_obj:
      x.rebind({k: v}, raise_on_no_change=False)
    else:
      x.setdefault(k, v)


def run_case(case):
  lb = lib()
  pg = lb['pg']
  s = case['tlib']
  init = {k: _plain(v) for k, v in s['init'].items()}
  try:
    if s['kind'] < 3:
      if s['partial']:
        top = pg.Dict(init, value_spec=lb['specs'][s['kind']](), allow_partial=True)
      else:
        top = pg.Dict(init, value_spec=lb['specs'][s['kind']]())
    else:
      top = lb['Cfg'].partial(**init) if s['partial'] else lb['Cfg'](**init)
  except Exception:   # pylint: disable=broad-except
    return {'model': [], 'fail': None, 'tlib': 'rejected', 'effective': 0}
  if s['holder'] == 'dict':
    root = pg.Dict(cfg=top, other=pg.Dict(z=1))
    top = root.sym_getattr('cfg')
  elif s['holder'] == 'list':
    root = pg.List([pg.Dict(z=1), top])
    top = root[1]
  else:
    root = top
  tracked = {}
  _nodes(pg, root, tracked)
  fail = None
  bad = _check(pg, tracked)
  effective = 0
  if bad:
    fail = {'step': -1, 'op': {'op': 'tlib:new', 'n': True}, 'kind': bad[0], 'what': bad[1]}
  else:
    for i, op in enumerate(s['ops']):
      x = _target(pg, top, op['w'])
      if x is None:
        continue
      out = 'ok'
      try:
        if op['n']:
          _apply(pg, x, op)
        else:
          with pg.notify_on_change(False):
            _apply(pg, x, op)
        effective += 1
      except Exception as e:   # pylint: disable=broad-except
        out = type(e).__name__
      _nodes(pg, root, tracked)
      for n in list(tracked.values()):
        _nodes(pg, n, tracked)
      bad = _check(pg, tracked)
      if bad:
        fail = {'step': i, 'op': {'op': 'tlib:' + op['op'], 'n': op['n']}, 'kind': bad[0],
                'what': '%s (operation %s on %r key %r, outcome %s)' % (bad[1], op['op'], op['w'] or '<top>', op['k'], out)}
        break
  return {'model': [], 'fail': fail, 'tlib': 'obj' if s['kind'] == 3 else 'dict%d' % s['kind'], 'effective': effective}
