"""C08 — write protection: generator, implementation runner, oracle.

Case shape (self-contained JSON):
  {"tree": T, "steps": [STEP, ...]}
  T     = int | str | null | {"k": "dict"|"list"|"obj", "s": sealed, "w": accessor_writable,
                              "c": class index (obj), "items": [[key, T], ...] | [T, ...]}
  STEP  = {"kind": "call", "recv": [key|index, ...], "sealed_scopes": [true|false|null, ...],
           "acc_scopes": [...], "call": {"name": <entry point>, ...args}}        (scopes outermost first)
        | {"kind": "seal" | "set_acc", "recv": [...], "b": bool}
        | {"kind": "generic", "recv": [...], "sealed_scopes": ..., "method": name, "args": [...]}
          (a mutating method found by introspection that the model does not know)

Implementation observables (public API only): the exception class of the call, `pg.to_json(root)`
before/after, and a structural dump (kind, `is_sealed`, `accessor_writable`, `sym_items()`).
"""

import contextlib
import io
import operator

from harness.common.framework import Prop
from translate import t_c08

FIELDS = ['x', 'y', 'z']
DKEYS = ['a', 'b', 'c', 'd']
LIST_OPS = ['l_setitem', 'l_setslice', 'l_delitem', 'l_delslice', 'l_iadd', 'l_imul', 'l_append', 'l_extend', 'l_insert',
            'l_pop', 'l_remove', 'l_clear', 'l_sort', 'l_reverse', 'rebind', 'sym_setparent', 'sym_setpath']
DICT_OPS = ['d_setitem', 'd_delitem', 'd_ior', 'd_update', 'd_setdefault', 'd_pop', 'd_popitem', 'd_clear',
            'd_setattr', 'd_delattr', 'rebind', 'sym_setparent', 'sym_setpath']
OBJ_OPS = ['o_setattr', 'o_delattr', 'rebind', 'sym_setparent', 'sym_setpath']
ACCESSOR_OPS = {'l_setitem', 'l_setslice', 'l_delitem', 'l_delslice', 'd_setitem', 'd_delitem', 'd_setattr', 'd_delattr',
                'o_setattr'}
# python method name -> model op names, per class (used to match the introspected entry points)
METHOD_OPS = {
    'List': {'__setitem__': ['l_setitem', 'l_setslice'], '__delitem__': ['l_delitem', 'l_delslice'], '__iadd__': ['l_iadd'],
             '__imul__': ['l_imul'], 'append': ['l_append'], 'extend': ['l_extend'], 'insert': ['l_insert'],
             'pop': ['l_pop'], 'remove': ['l_remove'], 'clear': ['l_clear'], 'sort': ['l_sort'],
             'reverse': ['l_reverse'], 'rebind': ['rebind'], 'sym_rebind': ['rebind'],
             'sym_setparent': ['sym_setparent'], 'sym_setpath': ['sym_setpath']},
    'Dict': {'__setitem__': ['d_setitem'], '__delitem__': ['d_delitem'], '__ior__': ['d_ior'],
             'update': ['d_update'], 'setdefault': ['d_setdefault'], 'pop': ['d_pop'], 'popitem': ['d_popitem'],
             'clear': ['d_clear'], '__setattr__': ['d_setattr'], '__delattr__': ['d_delattr'],
             'rebind': ['rebind'], 'sym_rebind': ['rebind'],
             'sym_setparent': ['sym_setparent'], 'sym_setpath': ['sym_setpath']},
    'Object': {'__setattr__': ['o_setattr'], '__delattr__': ['o_delattr'], 'rebind': ['rebind'],
               'sym_rebind': ['rebind'], 'sym_setparent': ['sym_setparent'], 'sym_setpath': ['sym_setpath']},
}
ERR = [('WritePermissionError', 'perm'), ('IndexError', 'index'), ('KeyError', 'key'), ('ValueError', 'value'),
       ('TypeError', 'type'), ('AttributeError', 'attr')]

_CLS = {}


def classes():
  """Test classes (defined once per process, after pyglove is importable)."""
  if not _CLS:
    import pyglove as pg

    class C08A(pg.Object):            # accessor assignment disabled (the pg.Object default)
      x: pg.typing.Any(default=None)
      y: pg.typing.Any(default=None)
      z: pg.typing.Any(default=None)

    class C08B(pg.Object):            # accessor assignment enabled
      allow_symbolic_assignment = True
      x: pg.typing.Any(default=None)
      y: pg.typing.Any(default=None)
      z: pg.typing.Any(default=None)

    class C08Inf(pg.symbolic.ValueFromParentChain):
      """An inferential element: resolves to the attribute `src` of the nearest ancestor (beyond its
      parent) that has one. A symbolic node without fields of its own."""

      @property
      def inference_key(self):
        return 'src'

    class C08F(pg.Object):            # immutable by class: every instance is sealed by its constructor
      allow_symbolic_mutation = False
      allow_symbolic_assignment = True
      x: pg.typing.Any(default=None)
      y: pg.typing.Any(default=None)
      z: pg.typing.Any(default=None)

    _CLS['list'] = [C08A, C08B, C08Inf, pg.Ref, C08F]
  return _CLS['list']


CLASS_ACCW = [False, True, False, False, True]     # default accessor_writable of the classes (C08A, C08B, C08Inf, pg.Ref, C08F)
FROZEN = 4                             # class index of the class with allow_symbolic_mutation = False
INF = 2                                # class index of the inferential element
REF = 3                                # class index of a pg.Ref to the external value of the case
_EXT = [None]                          # the external value that the pg.Ref elements of the tree being built refer to


# ------------------------------------------------------------------------------------------
# JSON tree helpers (pure, no pyglove)
# ------------------------------------------------------------------------------------------

def is_node(t):
  return isinstance(t, dict) and 'k' in t


def children(t):
  """[(key, child)] of a node."""
  if t['k'] == 'list':
    return list(enumerate(t['items']))
  return [(k, v) for k, v in t['items']]


def get_at(t, path):
  for k in path:
    if not is_node(t):
      return None
    nxt = None
    for kk, c in children(t):
      if kk == k:
        nxt = c
        break
    else:
      return None
    t = nxt
  return t


def all_nodes(t, path=()):
  """[(path, node)] of all symbolic nodes, pre-order."""
  out = []
  if is_node(t):
    out.append((list(path), t))
    for k, c in children(t):
      out += all_nodes(c, path + (k,))
  return out


def deep_flag(t, flag, value):
  return all(n[flag] == value and (flag != 's' or n['k'] != 'obj' or n.get('ci', n['s']) == value)
             for _, n in all_nodes(t))


def set_deep(t, flag, value):
  """`seal(value)` / flag setting on every node (for an object, `seal` also sets the flag `ci` of its
  attribute container)."""
  for _, n in all_nodes(t):
    n[flag] = value
    if flag == 's' and n['k'] == 'obj':
      n['ci'] = value


def flags_of(n):
  return {k: n[k] for k in ('s', 'w', 'ci') if k in n}


def masked(t, path):
  """The tree with the subtree at `path` cut out."""
  t = _copy(t)
  if not path:
    return None
  parent = get_at(t, path[:-1])
  for i, (k, _) in enumerate(children(parent)):
    if k == path[-1]:
      if parent['k'] == 'list':
        parent['items'][i] = '<cut>'
      else:
        parent['items'][i][1] = '<cut>'
  return t


def shape_of(t):
  """Contents without the sealed flags."""
  if not is_node(t):
    return t
  t = {k: v for k, v in t.items() if k not in ('s', 'ci')}
  t['items'] = [shape_of(c) for c in t['items']] if t['k'] == 'list' else [[k, shape_of(c)] for k, c in t['items']]
  return t


def val_node(kind, items, c=0):
  """A fresh value as the implementation will create it (default flags)."""
  if kind == 'obj':
    return {'k': 'obj', 's': False, 'w': CLASS_ACCW[c], 'ci': False, 'c': c, 'items': items}
  return {'k': kind, 's': False, 'w': True, 'items': items}


# ------------------------------------------------------------------------------------------
# Real-implementation side
# ------------------------------------------------------------------------------------------

def literal(x, ext):
  """`{'from_ext': path}` (the node at that path of the external tree, handed in as it is) -> a copy of
  that sub-tree: what the receiving container must end up holding."""
  if isinstance(x, dict) and 'from_ext' in x:
    return _copy(get_at(ext, x['from_ext']))
  if isinstance(x, list):
    return [literal(y, ext) for y in x]
  if isinstance(x, dict):
    return {k: literal(v, ext) for k, v in x.items()}
  return x


def build(t):
  """JSON tree -> real symbolic value with exactly the given per-node flags."""
  import pyglove as pg
  if isinstance(t, dict) and 'from_ext' in t:
    return navigate(_EXT[0], t['from_ext'])     # offered to the CONSTRUCTOR of the enclosing container
  if not is_node(t):
    return t
  # `ctor`: the value is sealed BY ITS CONSTRUCTOR (`sealed=True`), not by a later seal() call
  kw = {'sealed': True} if t.get('ctor') else {}
  if t['k'] == 'list':
    v = pg.List([build(c) for c in t['items']], **kw)
  elif t['k'] == 'dict':
    v = pg.Dict({k: build(c) for k, c in t['items']}, **kw)
  elif t.get('c', 0) == REF:
    v = pg.Ref(_EXT[0])
  else:
    v = classes()[t.get('c', 0)](**{k: build(c) for k, c in t['items']}, **kw)
  return v


def is_ctor(t):
  """Is the node sealed by its constructor, and still as the constructor left it? (An instance of the
  immutable class is, as long as its sub-tree is sealed throughout.)"""
  return bool(t.get('ctor')) or (t['k'] == 'obj' and t.get('c') == FROZEN and deep_flag(t, 's', True))


def strip_ctor(t):
  if not is_node(t):
    return t
  out = {k: v for k, v in t.items() if k != 'ctor'}
  out['items'] = [strip_ctor(c) for c in t['items']] if t['k'] == 'list' else [[k, strip_ctor(c)] for k, c in t['items']]
  return out


def apply_flags(v, t, under_ctor=False):
  """Sets `_sealed` / `_accessor_writable` node by node (shallow setters of the public API). The
  sealed flags of a value that was sealed by its constructor (and of everything below it) are left
  as the constructor made them."""
  import pyglove as pg
  if not is_node(t):
    return
  under_ctor = under_ctor or is_ctor(t)
  for k, c in children(t):
    apply_flags(v.sym_getattr(k), c, under_ctor)
  v.set_accessor_writable(t['w'])
  if under_ctor:
    return
  v.sym_seal(t['s'])
  if isinstance(v, pg.Object):
    v.sym_init_args.sym_seal(t.get('ci', t['s']))      # the attribute container has a flag of its own


def build_full(t):
  v = build(t)
  apply_flags(v, t)
  return v


def dump(v):
  import pyglove as pg
  if isinstance(v, pg.List):
    return {'k': 'list', 's': bool(v.is_sealed), 'w': bool(v.accessor_writable),
            'items': [dump(c) for _, c in v.sym_items()]}
  if isinstance(v, pg.Dict):
    return {'k': 'dict', 's': bool(v.is_sealed), 'w': bool(v.accessor_writable),
            'items': [[k, dump(c)] for k, c in v.sym_items()]}
  if isinstance(v, pg.Object):
    c = [i for i, cls in enumerate(classes()) if type(v) is cls]
    return {'k': 'obj', 's': bool(v.is_sealed), 'w': bool(v.accessor_writable),
            'ci': bool(v.sym_init_args.is_sealed), 'c': c[0] if c else 99,
            'items': [[k, dump(c)] for k, c in v.sym_items()]}
  if v is None or isinstance(v, (int, str)) and not isinstance(v, bool):
    return v
  return '<%s>' % type(v).__name__


def has_flags(t):
  """Does a value tree carry a non-default per-node flag (sealed, or accessor_writable flipped)?"""
  if not is_node(t) or t['k'] == 'idict':
    return False
  return any(n.get('s') or n.get('ci') or n.get('w', True) != (CLASS_ACCW[n.get('c', 0)] if n['k'] == 'obj' else True)
             for _, n in all_nodes(t))


def plain(t, sink=None):
  """JSON value tree -> value handed to the API: plain python containers (objects are fresh
  instances); a value that carries its own flags (e.g. a value sealed before it is inserted) is built
  as a parent-less symbolic value with exactly these flags and recorded in `sink` as (json, object)."""
  if isinstance(t, dict) and 'from_ext' in t:
    # a value that ALREADY HAS A PARENT: the node at this path of the external tree, handed in as it is
    return navigate(_EXT[0], t['from_ext'])
  if not is_node(t):
    return t
  if has_flags(t):
    v = build_full(t)
    if sink is not None:
      sink.append((t, v))
    return v
  if t['k'] == 'list':
    return [plain(c, sink) for c in t['items']]
  if t['k'] in ('dict', 'idict'):        # idict: int keys (probe argument of List.rebind)
    return {k: plain(c, sink) for k, c in t['items']}
  return classes()[t.get('c', 0)](**{k: plain(c, sink) for k, c in t['items']})


def bad_links(root):
  """Paths of the symbolic nodes of the tree whose sym_parent / sym_path is not what their place in
  the tree says (the children of an object have the object as parent)."""
  import pyglove as pg
  out = []
  def walk(v, path, parent):
    if not isinstance(v, pg.Symbolic):
      return
    want = pg.KeyPath(list(path))
    if v.sym_parent is not parent or (parent is not None and v.sym_path != root.sym_path + want):
      out.append(list(path))
    for k, c in v.sym_items():
      walk(c, path + (k,), v)
  walk(root, (), root.sym_parent)
  return out


def navigate(root, path):
  v = root
  for k in path:
    v = v.sym_getattr(k)
  return v


def do_call(node, call, sink=None):
  import pyglove as pg
  n = call['name']
  v = plain(call['v'], sink) if 'v' in call else None
  vs = [plain(x, sink) for x in call['vs']] if 'vs' in call else None
  i = call.get('i')
  key = call.get('key')
  if n == 'l_setitem':
    node[i] = v
  elif n == 'l_setslice':
    node[call.get('a'):call.get('b'):call.get('step')] = vs
  elif n == 'l_delslice':
    del node[call.get('a'):call.get('b'):call.get('step')]
  elif n == 'l_delitem':
    del node[i]
  elif n == 'l_iadd':
    operator.iadd(node, vs)
  elif n == 'l_imul':
    operator.imul(node, i)
  elif n == 'l_append':
    node.append(v)
  elif n == 'l_extend':
    node.extend(vs)
  elif n == 'l_insert':
    node.insert(i, v)
  elif n == 'l_pop':
    node.pop(i)
  elif n == 'l_remove':
    node.remove(call['atom'])
  elif n == 'l_clear':
    node.clear()
  elif n == 'l_sort':
    node.sort()
  elif n == 'l_reverse':
    node.reverse()
  elif n == 'd_setitem':
    node[key] = v
  elif n == 'd_delitem':
    del node[key]
  elif n == 'd_ior':
    operator.ior(node, {k: plain(x, sink) for k, x in call['kvs']})
  elif n == 'd_update':
    node.update({k: plain(x, sink) for k, x in call['kvs']})
  elif n == 'd_setdefault':
    node.setdefault(key, v)
  elif n == 'd_pop':
    if call.get('has_default'):
      node.pop(key, None)
    else:
      node.pop(key)
  elif n == 'd_popitem':
    node.popitem()
  elif n == 'd_clear':
    node.clear()
  elif n in ('d_setattr', 'o_setattr'):
    setattr(node, key, v)
  elif n in ('d_delattr', 'o_delattr'):
    delattr(node, key)
  elif n == 'sym_setparent':
    node.sym_setparent(None)
  elif n == 'sym_setpath':
    node.sym_setpath(pg.KeyPath.parse('zzz'))
  elif n == 'rebind':
    node.rebind({pg.KeyPath(list(p)): plain(x, sink) for p, x in call['pairs']})
  else:
    raise AssertionError('unknown call ' + n)


def classify(e):
  import pyglove as pg
  if isinstance(e, pg.WritePermissionError):
    return 'perm'
  for cname, short in ERR[1:]:
    if isinstance(e, getattr(__import__('builtins'), cname)):
      return short
  return type(e).__name__


def run_call(root, step, extra_sealed=(), extra_acc=(), sink=None):
  """Runs one call step inside its scopes; returns the outcome class. `sink` collects the flagged
  symbolic values handed to the call as (json, object)."""
  import pyglove as pg
  res = 'ok'
  with contextlib.ExitStack() as stack:
    for s in list(step.get('sealed_scopes', [])) + list(extra_sealed):
      stack.enter_context(pg.as_sealed(s))
    for s in list(step.get('acc_scopes', [])) + list(extra_acc):
      stack.enter_context(pg.allow_writable_accessors(s))
    try:
      node = navigate(root, step['recv'])
      if step['kind'] == 'generic':
        args = [plain(a) for a in step['args']]
        with contextlib.redirect_stdout(io.StringIO()):
          getattr(node, step['method'])(*args)
      else:
        do_call(node, step['call'], sink)
    except Exception as e:    # pylint: disable=broad-except
      res = classify(e)
  return res


class Worker:
  """A real thread that executes what it is handed, one piece at a time, and waits in between: the
  steps of a threaded case happen in the order of the case, each on the thread the case names, so the
  thread-local scopes of pyglove are exercised deterministically."""

  def __init__(self):
    import queue
    import threading
    self.inbox, self.outbox = queue.Queue(), queue.Queue()
    self.cms = []        # the scopes this thread is inside of, innermost last
    self.thread = threading.Thread(target=self._loop, daemon=True)
    self.thread.start()
    self.run(self._base_scopes)

  def _base_scopes(self):
    """Every thread of a case starts inside `as_sealed(None)` / `allow_writable_accessors(None)`
    (= no override: the per-object flags decide), so that a case never depends on what an earlier
    case of the same process may have left behind."""
    import pyglove as pg
    for cm in (pg.as_sealed(None), pg.allow_writable_accessors(None)):
      cm.__enter__()
      self.cms.append(cm)

  def _loop(self):
    while True:
      fn = self.inbox.get()
      if fn is None:
        return
      try:
        self.outbox.put((True, fn()))
      except BaseException as e:    # pylint: disable=broad-except
        self.outbox.put((False, e))

  def run(self, fn):
    self.inbox.put(fn)
    ok, v = self.outbox.get()
    if not ok:
      raise v
    return v

  def stop(self):
    def leave_all():
      while self.cms:
        self.cms.pop().__exit__(None, None, None)
    self.run(leave_all)
    self.inbox.put(None)
    self.thread.join(5)


class Inline:
  """The thread of the harness itself (no scopes of its own in a threaded case)."""
  cms = []

  def run(self, fn):
    return fn()

  def stop(self):
    pass


LIFECYCLE = t_c08.LIFECYCLE | {'__getattribute__', '__getattr__'}
PROBE_ARGS = [[], [0], ['a'], ['x'], [0, 9], ['a', 9], ['x', 9], [[9]], [val_node('dict', [['a', 9]])],
              [val_node('dict', [['b', 9]])], [val_node('dict', [['x', 9]])], [val_node('idict', [[0, 9]])],
              [2], [-1], [1, 9]]


def discover_entry_points():
  """Every public callable of pg.List / pg.Dict / pg.Object (whole MRO) whose call changes
  `pg.to_json` of an unprotected sample instance. Returns {class: {method: args}}."""
  import os
  import sys
  import pyglove as pg
  sys.stdout.flush()
  saved = os.dup(1)
  devnull = os.open(os.devnull, os.O_WRONLY)
  os.dup2(devnull, 1)
  try:
    return _discover(pg)
  finally:
    sys.stdout.flush()
    os.dup2(saved, 1)
    os.close(saved)
    os.close(devnull)


def _discover(pg):
  samples = {
      'List': lambda: pg.List([3, 1, 2]),
      'Dict': lambda: pg.Dict(a=1, c=2),
      'Object': lambda: classes()[1](x=1, y=2),
  }
  found = {}
  for cname, mk in samples.items():
    cls = type(mk())
    found[cname] = {}
    for n in sorted(dir(cls)):
      if n in LIFECYCLE or (n.startswith('_') and not n.startswith('__')):
        continue
      if not callable(getattr(cls, n, None)):
        continue
      for args in PROBE_ARGS:
        s = mk()
        before = pg.to_json(s)
        try:
          with contextlib.redirect_stdout(io.StringIO()), contextlib.redirect_stderr(io.StringIO()):
            getattr(s, n)(*[plain(a) for a in args])
        except BaseException:    # pylint: disable=broad-except
          pass
        try:
          after = pg.to_json(s)
        except Exception:    # pylint: disable=broad-except
          after = None
        if after != before:
          found[cname][n] = args
          break
  return found


# ------------------------------------------------------------------------------------------
# Generator
# ------------------------------------------------------------------------------------------

class Gen:
  def __init__(self, rng):
    self.r = rng

  def atom(self):
    r = self.r
    k = r.below(8)
    if k == 0:
      return None
    if k == 1:
      return r.choice(['p', 'q', ''])
    return r.randint(-3, 9)

  def tree(self, depth, kind=None):
    r = self.r
    kind = kind or r.choice(['dict', 'list', 'obj', 'dict', 'list'])
    def child():
      if depth <= 0 or r.chance(0.55):
        return self.atom()
      return self.tree(depth - 1)
    if kind == 'list':
      n = r.randint(0, 4)
      if r.chance(0.3):       # homogeneous ints (sortable)
        return val_node('list', [r.randint(-3, 9) for _ in range(n)])
      return val_node('list', [child() for _ in range(n)])
    if kind == 'dict':
      keys = [k for k in DKEYS if r.chance(0.6)]
      return val_node('dict', [[k, child()] for k in keys])
    c = r.below(2)
    return val_node('obj', [[k, child()] for k in FIELDS], c)

  def value(self):
    r = self.r
    if r.chance(0.7):
      return self.atom()
    if r.chance(0.3):
      return self.sealed_value(r.below(2))
    return self.tree(r.below(2))

  def sealed_value(self, depth, kind=None, shallow_ok=False):
    """A value that was sealed (deeply, as `seal()` leaves it) before it is handed to the call;
    now and then with flipped accessor flags or (`shallow_ok`: only where the value is not cloned on
    its way into the tree, clone semantics being C07's) an unsealed descendant."""
    r = self.r
    v = self.tree(depth, kind)
    set_deep(v, 's', True)
    nodes = all_nodes(v)
    if r.chance(0.15):
      for _, n in nodes:
        if r.chance(0.3):
          n['w'] = not n['w']
    if shallow_ok and len(nodes) > 1 and r.chance(0.1):
      r.choice(nodes[1:])[1]['s'] = False
    return v

  def scopes(self):
    r = self.r
    k = r.below(10)
    if k < 4:
      return []
    if k < 7:
      return [r.choice([True, False, None])]
    return [r.choice([True, False, None]) for _ in range(r.randint(2, 4))]

  def flags(self, t):
    """Per-node flags: mostly 'a protected node, deep-sealed as seal() leaves it'."""
    r = self.r
    nodes = all_nodes(t)
    mode = r.below(10)
    if mode < 5:
      _, n = r.choice(nodes)
      set_deep(n, 's', True)
    elif mode < 7:
      for _, n in nodes:
        n['s'] = r.chance(0.4)
        if n['k'] == 'obj':
          n['ci'] = n['s'] if r.chance(0.7) else not n['s']     # as the shallow sym_seal leaves it
    for _, n in nodes:
      if r.chance(0.25):
        n['w'] = not n['w']
    return t

  def call(self, node, root_rel_nodes):
    """A call for a receiver node of the given shape (mostly valid arguments)."""
    r = self.r
    kind = node['k']
    n = len(node['items'])
    if kind == 'list':
      name = r.choice(LIST_OPS)
    elif kind == 'dict':
      name = r.choice(DICT_OPS)
    else:
      name = r.choice(OBJ_OPS + ['o_setattr', 'rebind'])
    c = {'name': name}
    def idx():
      if n and r.chance(0.8):
        return r.randint(-n, n - 1)
      return r.choice([n, n + 1, -n - 1, 0])
    def key(present=0.7):
      ks = [k for k, _ in node['items']]
      if kind == 'obj':
        return r.choice(FIELDS)
      if ks and r.chance(present):
        return r.choice(ks)
      return r.choice(DKEYS + ['e'])
    if name in ('l_setitem', 'l_insert'):
      c.update(i=idx(), v=self.value())
    elif name in ('l_setslice', 'l_delslice'):
      def bound():
        return None if r.chance(0.25) else r.randint(-n - 2, n + 2)
      step = r.choice([None, 1, 1, 2, -1, -2, 3, 0] if r.chance(0.5) else [None, 1])
      c.update(a=bound(), b=bound(), step=step)
      if name == 'l_setslice':
        k = r.below(3)
        if step not in (None, 1, 0) and r.chance(0.8):
          k = len(range(*slice(c['a'], c['b'], step).indices(n)))     # extended slice: the size must fit
        c.update(vs=[self.value() for _ in range(k)])
    elif name in ('l_delitem', 'l_pop'):
      c.update(i=idx())
    elif name in ('l_iadd', 'l_extend'):
      c.update(vs=[self.value() for _ in range(r.below(3))])
    elif name == 'l_imul':
      c.update(i=r.choice([0, 1, -1, 2, 3]))
    elif name == 'l_append':
      c.update(v=self.value())
    elif name == 'l_remove':
      atoms = [x for x in node['items'] if not is_node(x)]
      c.update(atom=r.choice(atoms) if atoms and r.chance(0.75) else r.choice([77, 'zz', None]))
    elif name in ('d_setitem', 'd_setdefault', 'd_setattr', 'o_setattr'):
      c.update(key=key(), v=self.value())
    elif name in ('d_delitem', 'd_delattr', 'o_delattr'):
      c.update(key=key(0.8))
    elif name == 'd_pop':
      c.update(key=key(0.7), has_default=r.chance(0.4))
    elif name in ('d_ior', 'd_update'):
      ks = r.sample(DKEYS, r.below(3))
      c.update(kvs=[[k, self.value()] for k in ks])
    elif name == 'rebind':
      c.update(pairs=self.rebind_pairs(node))
    if name == 'l_sort' and not sortable(node):
      c = {'name': 'l_reverse'}           # CPython leaves a list in an unspecified order when a comparison fails
    if name == 'l_imul' and c['i'] >= 2 and any(is_node(x) for x in node['items']):
      c['i'] = r.choice([0, 1, -1])       # replication clones symbolic children (clone semantics: C07)
    return c

  def rebind_pairs(self, node):
    """1-3 (relative path, value) pairs with type-correct keys; paths end at an existing or a
    new key of a symbolic node below (or at) the receiver."""
    r = self.r
    parents = all_nodes(node)
    pairs, seen = [], set()
    for _ in range(r.choice([1, 1, 1, 2, 2, 3, 0])):
      ppath, p = r.choice(parents)
      n = len(p['items'])
      if p['k'] == 'list':
        k = r.randint(0, n + 1)
      elif p['k'] == 'obj':
        k = r.choice(FIELDS)
      else:
        ks = [kk for kk, _ in p['items']]
        k = r.choice(ks) if ks and r.chance(0.6) else r.choice(DKEYS)
      path = list(ppath) + [k]
      # a pair that replaces an ancestor of another pair's parent makes the batch order-dependent in
      # ways this property is not about: keep the parents of one batch on disjoint branches or equal.
      if tuple(path) in seen or any(tuple(path) == q[:len(path)] or q == tuple(path)[:len(q)] for q in seen):
        continue
      seen.add(tuple(path))
      pairs.append([path, self.value()])
    return pairs

  def steps_for(self, t):
    """Generates 1-4 steps, tracking the evolving tree with a *shadow* of shapes only when the
    previous steps cannot have changed it (otherwise receivers are re-drawn from the root)."""
    r = self.r
    steps = []
    for _ in range(r.randint(1, 3)):
      nodes = all_nodes(t)
      sealed_nodes = [(p, n) for p, n in nodes if n['s']]
      if sealed_nodes and r.chance(0.6):
        path, node = r.choice(sealed_nodes)
      else:
        path, node = r.choice(nodes)
      k = r.below(20)
      if k == 0:
        steps.append({'kind': 'seal', 'recv': path, 'b': r.chance(0.5)})
      elif k == 1:
        steps.append({'kind': 'set_acc', 'recv': path, 'b': r.chance(0.5)})
      elif k == 2:
        steps.append({'kind': 'sym_seal', 'recv': path, 'b': r.chance(0.6)})
      else:
        steps.append({'kind': 'call', 'recv': path, 'sealed_scopes': self.scopes(),
                      'acc_scopes': self.scopes() if r.chance(0.5) else [],
                      'call': self.call(node, nodes)})
      # later steps address the original shape; a receiver that vanished is a harmless KeyError
      # in both model and implementation only if navigation fails identically, so stop here when
      # the step may have changed the structure.
      if steps[-1]['kind'] == 'call':
        break
    return steps


def call_values(call):
  """The value arguments of a call."""
  out = [call['v']] if 'v' in call else []
  out += list(call.get('vs', []))
  out += [x for _, x in call.get('kvs', [])]
  out += [x for _, x in call.get('pairs', [])]
  return out


def sortable(node):
  return len(node['items']) <= 1 or all(isinstance(x, int) for x in node['items'])


def canonical_call(name, node):
  """One would-change argument set per entry point for the exhaustive grid."""
  n = len(node['items'])
  if name in ('l_setitem',):
    return {'name': name, 'i': 0, 'v': 42}
  if name == 'l_setslice':
    return {'name': name, 'a': 0, 'b': 1, 'step': None, 'vs': [41, 42]}
  if name == 'l_delslice':
    return {'name': name, 'a': None, 'b': None, 'step': 2}
  if name in ('l_delitem', 'l_pop'):
    return {'name': name, 'i': -1}
  if name in ('l_iadd', 'l_extend'):
    return {'name': name, 'vs': [42]}
  if name == 'l_imul':
    return {'name': name, 'i': 2}
  if name == 'l_append':
    return {'name': name, 'v': 42}
  if name == 'l_insert':
    return {'name': name, 'i': 1, 'v': 42}
  if name == 'l_remove':
    return {'name': name, 'atom': [x for x in node['items'] if not is_node(x)][0]}
  if name in ('l_clear', 'l_sort', 'l_reverse', 'd_popitem', 'd_clear', 'sym_setparent', 'sym_setpath'):
    return {'name': name}
  if name in ('d_setitem', 'd_setattr', 'd_setdefault'):
    return {'name': name, 'key': 'n' if name == 'd_setdefault' else node['items'][0][0], 'v': 42}
  if name == 'o_setattr':
    return {'name': name, 'key': 'x', 'v': 42}
  if name in ('d_delitem', 'd_delattr', 'o_delattr'):
    return {'name': name, 'key': node['items'][0][0]}
  if name == 'd_pop':
    return {'name': name, 'key': node['items'][0][0]}
  if name in ('d_ior', 'd_update'):
    return {'name': name, 'kvs': [['n', 42]]}
  if name == 'rebind':
    if node['k'] == 'list':
      return {'name': name, 'pairs': [[[0], 42]]}
    return {'name': name, 'pairs': [[[node['items'][0][0]], 42]]}
  raise AssertionError(name)


def grid_templates():
  """Small trees in which every receiver kind occurs as node, child and grandchild."""
  def L(*xs):
    return val_node('list', list(xs))
  def D(**kw):
    return val_node('dict', [[k, v] for k, v in kw.items()])
  def O(c, x, y=None, z=None):
    return val_node('obj', [['x', x], ['y', y], ['z', z]], c)
  out = []
  for leafk in ('list', 'dict', 'obj0', 'obj1'):
    def mk():
      if leafk == 'list':
        return L(3, 1, 2)
      if leafk == 'dict':
        return D(a=1, b=2)
      return O(int(leafk[-1]), 1, 2)
    out.append((leafk, D(a=D(b=mk(), c=5), d=7), ['a', 'b']))
    out.append((leafk, L(L(0, mk()), 9), [0, 1]))
    out.append((leafk, O(1, O(0, mk(), 4), 8), ['x', 'x']))
  return out


class C08(Prop):
  id = 'C08'
  props_modules = ['PgProps.C08']
  driver = 'drv_c08'
  translators = [t_c08.run]
  case_timeout_s = 20
  rule = ('trees of pg.Dict / pg.List / two pg.Object classes (depth <= 3, per-node sealed and '
          'accessor_writable flags, for objects also the flag of the attribute container: one deep-sealed subtree '
          '50 %, random flags 20 %, none 30 %); 1-3 steps (call of a random mutating entry point of the receiver '
          'type with mostly valid arguments -- slices with any start/stop/step incl. del slices; 9 % of the '
          'symbolic values handed to a call were sealed beforehand --, seal/unseal, shallow sym_seal, '
          'set_accessor_writable) under 0-4 nested as_sealed / allow_writable_accessors '
          'scopes (True/False/None); 400 dependent batches (a pair of a rebind inserts a sealed value, another '
          'pair of the same rebind addresses a key at or below that path, both orders, every receiver kind); '
          '250 batches on a sealed receiver one of whose descendants was unsealed individually, pairs inside and '
          'outside the unsealed part in every order; 300 histories of 2-4 calls on one accessor-protected receiver '
          '(non-accessor mutators, then accessor writes), flags of all nodes compared after every call; 250 trees '
          'whose lists / dict values / object fields hold inferential elements (a ValueFromParentChain subclass '
          'that evaluates to a value outside the sealed subtree), sealed / unsealed at any node; 300 forests (the tree '
          'plus an external value that pg.Ref elements of the tree refer to; steps on either tree); the plumbing '
          'entry points sym_setparent / sym_setpath are part of the entry-point grid; 250 threaded histories (two worker '
          'threads + the harness thread, scheduled step by step with hand-offs: scopes entered / left per thread, '
          'overlapping without being nested across threads, calls by each thread, all scopes left at the end and '
          'every thread calling again); 300 histories on values SEALED BY THEIR CONSTRUCTOR (sealed=True on pg.Dict / '
          'pg.List / objects, and a class with allow_symbolic_mutation=False) at any depth of the tree -- the built value '
          'must be sealed down to its last symbolic descendant, every mutator is tried on the descendants; 300 histories '
          'in which a node OF ANOTHER (85 %: deep-sealed) TREE is offered to a container of the tree -- item / attribute '
          'assignment, append, extend, insert, update, setdefault, one-pair rebind, or the constructor of the container -- '
          'then seal(False) / writes inside the received element / pop, del, clear, replacement on the receiving side: '
          'the other tree keeps contents, flags and the sym_parent / sym_path of every node; '
          'two oracle-only exhaustive grids: a bound pg.Functor (function-based and class-based) x {unsealed, seal(), '
          'sym_seal()} x accessor flag x 6 as_sealed stacks x 6 allow_writable_accessors stacks x {del f.a, f.a = v, '
          'rebind(a=v), rebind(a=MISSING_VALUE)} (1728 cases), and Dict.use_value_spec with a COMPLETING spec x Dict shape '
          '(keys missing at the root / in the nested Dict / nowhere) x {unsealed, seal(), sym_seal(), nested Dict sealed} x '
          '6 as_sealed stacks x {direct, through the constructor of an object whose field has the spec} (132 cases): a '
          'node treated as sealed keeps its own contents and flag, and the call is refused iff it would write to one; '
          'plus an exhaustive grid: every entry point x {node, child, '
          'grandchild} x own flag x 9 scope stacks x accessor flag, and every mutating method found by '
          'introspection of the classes\' MRO. Non-trivial: the step addresses a node that is protected '
          '(sealed flag, sealed scope or accessor protection) or exercises seal/unseal; distinct by JSON.')
  trusted_base = [
      'T-GUARD (translate/t_c08.py): pure-ast extraction of guards / delegation / notification per entry point; '
      'cross-checked behaviourally by the exhaustive entry-point grid',
      'closed list of builtin list/dict mutators re-derived from the running interpreter by a behavioural probe',
      'modelled, not verified: bodies of the mutators (pre-checks, delegation order, rebind path resolution, '
      'KeyPath ordering, slice.indices) tied by correspondence; value specs, use_value_spec, pickling '
      '(__setstate__/__init__) are outside the model; a symbolic node that already has a parent arrives in the model '
      'as a copy of its sub-tree (trees are values there: sharing cannot be expressed, the oracle checks the links '
      'of both trees through sym_parent / sym_path instead)',
      'pg.Functor receivers and Dict.use_value_spec are checked by the oracle only (no model, no theorem): the '
      'expected verdict is the precedence table of C08_precedence_sealed / C08_precedence_writable applied to the '
      'receiver; known findings F381 / F382 (del f.arg ignores the functor\'s own accessor flag / shallow seal; '
      'fixes/C08-F381.patch) are listed in findings/C08.json',
      'constructors: T-GUARD reads `if sealed: self.seal(True)` in List.__init__ / Dict.__init__ and, for Object, either '
      'the same or the attribute Dict built with sealed=sealed (genCtorSealsDeep); the model of a constructed-sealed '
      'value is constructSealed = sealT true',
      'a batched rebind stopped by a target that became sealed during the batch keeps its earlier pairs applied '
      '(the receiver is not protected; the property text demands the sealed value to be unchanged): modelled as '
      'the code does it, the oracle demands WritePermissionError and the sealed value unchanged',
      'unbound builtin calls such as list.append(l, x) are not public API of the symbolic types',
      'sym_setparent / sym_setpath (TopologyAware plumbing, used by every insertion) are not write-protected by the '
      'code: they change the parent link / path of a node, never contents or flags; modelled as calls that end '
      'normally and leave the tree as it is, the oracle checks contents and flags (tree integrity is C01)',
      'threads: real threading.Thread workers driven one step at a time (deterministic schedule); the model gives '
      'every thread its own two scope stacks (thread-local storage) -- preemption inside a call is not exercised',
      'a forest is a list of trees without shared nodes; pg.Ref elements are field-less symbolic nodes, the value '
      'they refer to is another tree of the forest (references into the same tree are rejected by pyglove)',
  ]
  assumptions = ['sym_init_args is the attribute container _sym_attributes of a pg.Object (its sealed flag is observed and set through it)']

  # -- generation -------------------------------------------------------------------------
  def generate(self, rng, tier):
    g = Gen(rng)
    n = 3000 if tier == 'quick' else 60000
    for _ in range(n):
      t = g.flags(g.tree(rng.randint(1, 3)))
      yield {'tree': t, 'steps': g.steps_for(t)}
    yield from self.history_cases(rng, 150 if tier == 'quick' else 3000)
    yield from self.mixed_rebind_cases(rng, 60 if tier == 'quick' else 1500)
    yield from self.dependent_batch_cases(rng, 400 if tier == 'quick' else 8000)
    yield from self.partial_seal_batch_cases(rng, 250 if tier == 'quick' else 5000)
    yield from self.flag_history_cases(rng, 300 if tier == 'quick' else 6000)
    yield from self.inferential_cases(rng, 250 if tier == 'quick' else 5000)
    yield from self.ref_cases(rng, 300 if tier == 'quick' else 6000)
    yield from self.thread_cases(rng, 250 if tier == 'quick' else 5000)
    yield from self.constructed_sealed_cases(rng, 300 if tier == 'quick' else 6000)
    yield from self.shared_sealed_cases(rng, 300 if tier == 'quick' else 6000)
    yield from self.functor_cases()
    yield from self.usespec_cases()
    yield from self.grid_cases()
    yield from self.discovered_cases()
    yield from self.shallow_seal_cases()

  def history_cases(self, rng, n):
    """seal -> mutate (refused) -> unseal -> mutate (works) -> re-seal after an insertion under
    as_sealed(False)."""
    g = Gen(rng)
    for _ in range(n):
      t = g.tree(rng.randint(1, 3))
      nodes = all_nodes(t)
      path, node = rng.choice(nodes)
      sub = all_nodes(node)
      rpath, rnode = rng.choice(sub)
      call = g.call(rnode, sub)
      if call['name'] in ('l_sort',) and not sortable(rnode):
        call = {'name': 'l_reverse'}
      if call['name'] == 'l_imul':
        call['i'] = 0
      steps = [{'kind': 'seal', 'recv': path, 'b': True},
               {'kind': 'call', 'recv': path + rpath, 'sealed_scopes': [], 'acc_scopes': [True], 'call': call},
               {'kind': 'seal', 'recv': path, 'b': False},
               {'kind': 'call', 'recv': path + rpath, 'sealed_scopes': [], 'acc_scopes': [True], 'call': call}]
      yield {'tree': t, 'steps': steps}
    # re-seal: insert an unsealed child into a sealed container inside as_sealed(False), seal again
    for kind in ('dict', 'list', 'obj'):
      for inner in ('dict', 'list', 'obj'):
        t = g.tree(1, kind)
        v = g.tree(0, inner)
        if kind == 'list':
          ins = {'name': 'l_append', 'v': v}
          at = [len(t['items'])]
        elif kind == 'dict':
          ins = {'name': 'd_setitem', 'key': 'n', 'v': v}
          at = ['n']
        else:
          ins = {'name': 'rebind', 'pairs': [[['x'], v]]}
          at = ['x']
        probe = canonical_call({'list': 'l_append', 'dict': 'd_setitem', 'obj': 'rebind'}[inner],
                               v if v['items'] else val_node(inner, [['x', 1]] if inner != 'list' else [1]))
        if inner == 'dict' and not v['items']:
          probe = {'name': 'd_setitem', 'key': 'q', 'v': 1}
        yield {'tree': t, 'steps': [
            {'kind': 'seal', 'recv': [], 'b': True},
            {'kind': 'call', 'recv': [], 'sealed_scopes': [False], 'acc_scopes': [True], 'call': ins},
            {'kind': 'seal', 'recv': [], 'b': True},
            {'kind': 'call', 'recv': at, 'sealed_scopes': [], 'acc_scopes': [True], 'call': probe}]}

  def mixed_rebind_cases(self, rng, n):
    """Batched rebind issued at an unprotected ancestor whose pairs address both unprotected and
    sealed parents, in both orders."""
    g = Gen(rng)
    made = 0
    for _ in range(n * 6):
      if made >= n:
        break
      t = g.tree(rng.randint(2, 3), rng.choice(['dict', 'obj', 'list']))
      inner = [(p, x) for p, x in all_nodes(t) if p]
      if len(inner) < 2:
        continue
      (ps, s), (pu, u) = rng.sample(inner, 2)
      if ps[:len(pu)] == pu or pu[:len(ps)] == ps:
        continue
      set_deep(s, 's', True)
      def target(p, x):
        if x['k'] == 'list':
          return p + [rng.randint(0, len(x['items']))]
        if x['k'] == 'obj':
          return p + [rng.choice(FIELDS)]
        return p + [rng.choice(DKEYS)]
      pairs = [[target(pu, u), g.value()], [target(ps, s), g.value()]]
      if rng.chance(0.5):
        pairs.reverse()
      made += 1
      yield {'tree': t, 'steps': [{'kind': 'call', 'recv': [], 'sealed_scopes': rng.choice([[], [None], [False, None]]),
                                   'acc_scopes': [], 'call': {'name': 'rebind', 'pairs': pairs}}]}

  def dependent_batch_cases(self, rng, n):
    """One batched rebind in which a pair inserts a value that was sealed beforehand (under a new
    key, or in place of an existing unsealed child) and another pair of the same batch addresses a
    key at or below that very path -- so the target only becomes sealed *during* the batch. Both
    orders, optional unrelated third pair, receivers of every kind at every depth."""
    g = Gen(rng)
    made = 0
    for _ in range(n * 4):
      if made >= n:
        break
      t = g.tree(rng.randint(1, 3), rng.choice(['dict', 'obj', 'list', 'dict']))
      if rng.chance(0.2):
        g.flags(t)
      nodes = all_nodes(t)
      rpath, recv = rng.choice(nodes)
      sub = all_nodes(recv)
      ppath, par = rng.choice(sub)
      keys = [k for k, _ in children(par)]
      if par['k'] == 'list':
        k = rng.randint(0, len(keys))
      elif par['k'] == 'obj':
        k = rng.choice(FIELDS)
      else:
        k = rng.choice(keys) if keys and rng.chance(0.5) else rng.choice(DKEYS + ['n'])
      vkind = rng.choice(['dict', 'list', 'obj', 'dict'])
      v = g.sealed_value(rng.randint(0, 2), vkind, shallow_ok=True)
      if not rng.chance(0.85):
        set_deep(v, 's', False)                  # control: the inserted value is not sealed
      inner = all_nodes(v)
      qpath, q = rng.choice(inner)
      qkeys = [kk for kk, _ in children(q)]
      if q['k'] == 'list':
        k2 = rng.randint(0, len(qkeys))
      elif q['k'] == 'obj':
        k2 = rng.choice(FIELDS)
      else:
        k2 = rng.choice(qkeys) if qkeys and rng.chance(0.6) else rng.choice(DKEYS)
      P = list(ppath) + [k]
      pairs = [[P, v], [P + list(qpath) + [k2], g.atom() if rng.chance(0.8) else g.tree(0)]]
      # the pair below is applied *before* the insertion when it comes first (Dict / Object receivers
      # apply in the given order) or when the receiver is a List (descending path order): it then
      # meets the old occupant of that path, which must accept the key type (or not exist at all).
      old_p = get_at(recv, P)
      old_q = get_at(recv, P + list(qpath))
      compatible = not is_node(old_p) or (is_node(old_q) and old_q['k'] == q['k'])
      if compatible and rng.chance(0.25):
        pairs.reverse()
      if recv['k'] == 'list' and not compatible:
        continue
      if rng.chance(0.35):
        others = [(pp, x) for pp, x in sub if pp[:len(P)] != P and P[:len(pp) + 1] != list(pp) + P[len(pp):len(pp) + 1]]
        if others:
          op_, ox = rng.choice(others)
          if ox['k'] == 'list':
            ok_ = rng.randint(0, len(ox['items']))
          elif ox['k'] == 'obj':
            ok_ = rng.choice(FIELDS)
          else:
            ok_ = rng.choice(DKEYS)
          extra = [list(op_) + [ok_], g.atom()]
          if extra[0] != P:
            pairs.insert(rng.randint(0, len(pairs)), extra)
      made += 1
      yield {'tree': t, 'steps': [{'kind': 'call', 'recv': rpath,
                                   'sealed_scopes': rng.choice([[], [], [], [None], [False], [True], [False, None]]),
                                   'acc_scopes': rng.choice([[], [], [False]]),
                                   'call': {'name': 'rebind', 'pairs': pairs}, 'dependent': True}]}

  def partial_seal_batch_cases(self, rng, n):
    """A receiver sealed as `seal()` leaves it, one of its descendants unsealed individually
    afterwards (`child.seal(False)`), and ONE batched rebind on the receiver whose pairs address
    keys inside the unsealed descendant as well as keys of still sealed nodes (the receiver itself
    included), in every order. The refusal concerns nodes sealed before the batch: nothing may be
    written."""
    g = Gen(rng)
    made = 0
    for _ in range(n * 6):
      if made >= n:
        break
      t = g.tree(rng.randint(2, 3), rng.choice(['dict', 'list', 'obj', 'dict', 'list']))
      nodes = all_nodes(t)
      rpath, recv = rng.choice([(p, x) for p, x in nodes if len(p) <= 1])
      inner = [(p, x) for p, x in all_nodes(recv) if p]
      if not inner:
        continue
      upath, u = rng.choice(inner)
      set_deep(recv, 's', True)
      set_deep(u, 's', False)
      def target(p, x):
        if x['k'] == 'list':
          return list(p) + [rng.randint(0, len(x['items']))]
        if x['k'] == 'obj':
          return list(p) + [rng.choice(FIELDS)]
        ks = [k for k, _ in x['items']]
        return list(p) + [rng.choice(ks) if ks and rng.chance(0.5) else rng.choice(DKEYS)]
      sealed_parents = [(p, x) for p, x in all_nodes(recv) if x['s']]
      open_parents = [(p, x) for p, x in all_nodes(recv) if not x['s']]
      pairs, seen = [], []
      for p, x in [rng.choice(open_parents) for _ in range(rng.randint(1, 2))] + \
                  [rng.choice(sealed_parents) if rng.chance(0.6) else ([], recv) for _ in range(rng.randint(1, 2))]:
        loc = target(p, x)
        if any(loc[:len(q)] == q or q[:len(loc)] == loc for q in seen):
          continue
        seen.append(loc)
        pairs.append([loc, g.atom()])
      if len(pairs) < 2:
        continue
      if rng.chance(0.5):
        rng.shuffle(pairs)
      made += 1
      yield {'tree': t, 'steps': [{'kind': 'call', 'recv': rpath,
                                   'sealed_scopes': rng.choice([[], [], [], [None], [False], [None, None]]),
                                   'acc_scopes': rng.choice([[], [], [False]]),
                                   'call': {'name': 'rebind', 'pairs': pairs}, 'partial_seal': True}]}

  def flag_history_cases(self, rng, n):
    """Histories of 2-4 calls on ONE receiver that is accessor-protected (or whose flags are mixed):
    mutators that are not accessor writes (clear, update, pop, popitem, rebind, append, extend, insert,
    sort, reverse, remove, +=, *=) first, then accessor writes / deletions. The flags of every node are
    part of the compared state after every call, and no call may change them."""
    g = Gen(rng)
    non_acc = {'list': ['l_clear', 'l_append', 'l_extend', 'l_insert', 'l_pop', 'l_remove', 'l_reverse', 'l_iadd',
                        'l_imul', 'rebind'],
               'dict': ['d_clear', 'd_update', 'd_ior', 'd_pop', 'd_popitem', 'rebind', 'd_clear', 'd_clear'],
               'obj': ['rebind']}
    acc = {'list': ['l_setitem', 'l_delitem', 'l_setslice', 'l_delslice'],
           'dict': ['d_setitem', 'd_delitem', 'd_setattr', 'd_delattr', 'd_setdefault'],
           'obj': ['o_setattr']}
    for _ in range(n):
      t = g.tree(rng.randint(1, 2), rng.choice(['dict', 'dict', 'list', 'obj']))
      nodes = all_nodes(t)
      path, node = rng.choice(nodes)
      mode = rng.below(4)
      if mode < 3:
        node['w'] = False
      else:
        g.flags(t)
      steps = []
      names = [rng.choice(non_acc[node['k']]) for _ in range(rng.randint(1, 2))] + \
              [rng.choice(acc[node['k']]) for _ in range(rng.randint(1, 2))]
      for name in names:
        call = None
        if name == 'rebind':
          # direct keys of the receiver only: earlier calls of the history may have replaced its children
          if node['k'] == 'list':
            ks = [rng.randint(0, len(node['items']))]
          elif node['k'] == 'obj':
            ks = rng.sample(FIELDS, rng.randint(1, 2))
          else:
            ks = rng.sample(DKEYS, rng.randint(1, 2))
          call = {'name': 'rebind', 'pairs': [[[k], g.atom()] for k in ks]}
        for _ in range(30):
          if call is not None:
            break
          c = g.call(node, nodes)
          if c['name'] == name:
            call = c
        if call is None:
          continue
        steps.append({'kind': 'call', 'recv': path, 'sealed_scopes': rng.choice([[], [], [None], [False]]),
                      'acc_scopes': rng.choice([[], [], [], [None], [None, None]]), 'call': call})
      if len(steps) >= 2:
        yield {'tree': t, 'steps': steps, 'flag_history': True}

  def inferential_cases(self, rng, n):
    """Trees in which lists, dict values and object fields hold INFERENTIAL elements (a
    `pg.symbolic.ValueFromParentChain` subclass: a symbolic node of its own that *evaluates* to the
    value under the root key `src`, outside the subtree that is sealed): seal / unseal of a subtree
    holding them, then calls on the elements and on what they resolve to."""
    g = Gen(rng)
    inf = lambda: val_node('obj', [], INF)
    for _ in range(n):
      src = g.tree(rng.randint(0, 1), rng.choice(['dict', 'list', 'obj']))
      kind = rng.choice(['list', 'list', 'dict', 'obj'])
      def holder(kind, depth):
        def child():
          k = rng.below(10)
          if k < 4:
            return inf()
          if k < 6 and depth > 0:
            return holder(rng.choice(['list', 'dict', 'obj']), depth - 1)
          return g.atom()
        if kind == 'list':
          return val_node('list', [child() for _ in range(rng.randint(1, 4))])
        if kind == 'dict':
          return val_node('dict', [[k, child()] for k in DKEYS if rng.chance(0.6)] or [['a', inf()]])
        return val_node('obj', [[k, child()] for k in FIELDS], rng.below(2))
      h = holder(kind, 1)
      t = val_node('dict', [['src', src], ['h', h], ['c', g.atom()]])
      if rng.chance(0.3):
        g.flags(t)
      hn = all_nodes(h)
      spath, _ = rng.choice(hn)
      steps = [{'kind': 'seal', 'recv': ['h'] + spath, 'b': True}]
      infs = [p for p, x in hn if x.get('c') == INF]
      probes = []
      if infs and rng.chance(0.7):
        ip = rng.choice(infs)
        probes.append({'kind': 'call', 'recv': ['h'] + ip, 'sealed_scopes': [], 'acc_scopes': [True],
                       'call': {'name': 'rebind', 'pairs': [[['x'], 1]]}})
      srcn = all_nodes(src)
      if srcn and rng.chance(0.7):
        sp, sn = rng.choice(srcn)
        probes.append({'kind': 'call', 'recv': ['src'] + sp, 'sealed_scopes': [], 'acc_scopes': [True],
                       'call': g.call(sn, srcn)})
      steps += probes[:1]       # a call may change the structure: at most one before the next seal
      if rng.chance(0.6):
        steps.append({'kind': 'seal', 'recv': ['h'] + rng.choice(hn)[0], 'b': False})
        steps += probes[1:2]
      yield {'tree': t, 'steps': steps, 'inferential': True}

  def ref_cases(self, rng, n):
    """A forest: the tree and an EXTERNAL value that `pg.Ref` elements in its lists, dict values and
    object fields refer to (a Ref is a symbolic node of its own that evaluates to the external value).
    seal / unseal / sym_seal / calls on either tree must not reach the other one."""
    g = Gen(rng)
    ref = lambda: val_node('obj', [], REF)
    for _ in range(n):
      ext = g.tree(rng.randint(0, 2), rng.choice(['dict', 'list', 'obj']))
      if rng.chance(0.3):
        g.flags(ext)
      def holder(kind, depth):
        def child():
          k = rng.below(10)
          if k < 4:
            return ref()
          if k < 6 and depth > 0:
            return holder(rng.choice(['list', 'dict', 'obj']), depth - 1)
          if k < 7:
            return val_node('obj', [], INF)
          return g.atom()
        if kind == 'list':
          return val_node('list', [child() for _ in range(rng.randint(1, 4))])
        if kind == 'dict':
          return val_node('dict', [[k, child()] for k in DKEYS if rng.chance(0.6)] or [['a', ref()]])
        return val_node('obj', [[k, child()] for k in FIELDS], rng.below(2))
      t = val_node('dict', [['src', g.tree(0, 'dict')], ['h', holder(rng.choice(['list', 'list', 'dict', 'obj']), 1)]])
      if rng.chance(0.3):
        g.flags(t)
      tn, en = all_nodes(t), all_nodes(ext)
      steps = []
      for i in range(rng.randint(1, 4)):
        in_ext = rng.chance(0.3)
        nodes = en if in_ext else tn
        path, node = rng.choice(nodes)
        k = rng.below(10)
        if k < 4:
          st = {'kind': 'seal', 'recv': path, 'b': rng.chance(0.6)}
        elif k < 5:
          st = {'kind': 'sym_seal', 'recv': path, 'b': rng.chance(0.6)}
        else:
          if node.get('c') in (REF, INF):
            call = rng.choice([{'name': 'rebind', 'pairs': [[['x'], 1]]}, {'name': 'o_setattr', 'key': 'x', 'v': 1},
                               {'name': 'sym_setparent'}])
          else:
            call = g.call(node, nodes)
          st = {'kind': 'call', 'recv': path, 'sealed_scopes': rng.choice([[], [], [None], [True], [False]]),
                'acc_scopes': rng.choice([[], [True]]), 'call': call}
        if in_ext:
          st['in'] = 'ext'
        steps.append(st)
        if st['kind'] == 'call':
          break                      # a call may change the structure the later steps were drawn for
      yield {'tree': t, 'ext': ext, 'steps': steps, 'forest': True}

  def thread_cases(self, rng, n):
    """Two worker threads and the thread of the harness, scheduled step by step: each thread enters
    and leaves `as_sealed` / `allow_writable_accessors` scopes (True / False / None, nested within the
    thread, overlapping in any way with the other thread's) and makes entry-point calls on sealed and
    unsealed values; at the end all scopes are left (in an order that is not nested across threads)
    and every thread makes a call again. The calls put atoms at existing places, so the shape stays."""
    g = Gen(rng)
    def atom_call(node):
      kind = node['k']
      at = [(k, c) for k, c in children(node) if not is_node(c)]
      if kind == 'list':
        if at and rng.chance(0.6):
          return {'name': 'l_setitem', 'i': rng.choice(at)[0], 'v': g.atom()}
        if at and rng.chance(0.5):
          return {'name': 'rebind', 'pairs': [[[rng.choice(at)[0]], g.atom()]]}
        return {'name': 'l_reverse'} if not any(is_node(c) for _, c in children(node)) else {'name': 'sym_setpath'}
      if kind == 'dict':
        key = rng.choice(at)[0] if at and rng.chance(0.7) else rng.choice(['n1', 'n2'])
        return rng.choice([{'name': 'd_setitem', 'key': key, 'v': g.atom()}, {'name': 'd_setattr', 'key': key, 'v': g.atom()},
                           {'name': 'rebind', 'pairs': [[[key], g.atom()]]}, {'name': 'd_update', 'kvs': [[key, g.atom()]]}])
      fld = [k for k, c in at] or None
      if fld is None:
        return {'name': 'sym_setpath'}
      key = rng.choice(fld)
      return rng.choice([{'name': 'o_setattr', 'key': key, 'v': g.atom()}, {'name': 'rebind', 'pairs': [[[key], g.atom()]]}])
    for _ in range(n):
      t = g.flags(g.tree(rng.randint(1, 3)))
      nodes = all_nodes(t)
      open_ = {0: [], 1: []}
      steps = []
      def call_by(th):
        sealed_nodes = [(p, x) for p, x in nodes if x['s']]
        path, node = rng.choice(sealed_nodes) if sealed_nodes and rng.chance(0.5) else rng.choice(nodes)
        steps.append({'kind': 'call', 't': th, 'recv': path, 'sealed_scopes': [], 'acc_scopes': [], 'call': atom_call(node)})
      for _ in range(rng.randint(4, 10)):
        th = rng.below(2)
        k = rng.below(10)
        if k < 4 and len(open_[th]) < 3:
          which = 'sealed' if rng.chance(0.75) else 'acc'
          steps.append({'kind': 'enter', 't': th, 'which': which, 'v': rng.choice([True, False, None]), 'recv': []})
          open_[th].append(which)
        elif k < 6 and open_[th]:
          steps.append({'kind': 'leave', 't': th, 'which': open_[th].pop(), 'recv': []})
        else:
          call_by(rng.choice([0, 1, 0, 1, 2]))
      while open_[0] or open_[1]:
        th = rng.choice([x for x in (0, 1) if open_[x]])
        steps.append({'kind': 'leave', 't': th, 'which': open_[th].pop(), 'recv': []})
        if rng.chance(0.3):
          call_by(rng.below(3))
      for th in (0, 1, 2):
        call_by(th)
      yield {'tree': t, 'steps': steps, 'threads': 2}

  def constructed_sealed_cases(self, rng, n):
    """Trees in which a Dict / List / Object is sealed BY ITS CONSTRUCTOR (`sealed=True`, or a class
    with allow_symbolic_mutation = False) -- never by a seal() call -- and has symbolic descendants;
    then every mutator on the node and, above all, on its descendants; and unseal / reseal."""
    g = Gen(rng)
    for _ in range(n):
      t = g.tree(rng.randint(2, 3))
      nodes = all_nodes(t)
      inner = [(p, x) for p, x in nodes if any(is_node(c) for _, c in children(x))] or nodes
      cpath, cnode = rng.choice(inner)
      if cnode['k'] == 'obj' and rng.chance(0.5):
        cnode['c'] = FROZEN
        cnode['w'] = CLASS_ACCW[FROZEN]
      else:
        cnode['ctor'] = True
      set_deep(cnode, 's', True)
      if rng.chance(0.2):
        for _, x in all_nodes(cnode):
          if rng.chance(0.3):
            x['w'] = not x['w']
      sub = all_nodes(cnode)
      deep = [(p, x) for p, x in sub if p] or sub
      steps = []
      for i in range(rng.randint(1, 3)):
        rp, rn = rng.choice(deep if rng.chance(0.8) else sub)
        k = rng.below(10)
        if k == 0:
          steps.append({'kind': 'seal', 'recv': cpath + rp, 'b': rng.chance(0.5)})
          continue
        steps.append({'kind': 'call', 'recv': cpath + rp, 'sealed_scopes': rng.choice([[], [], [], [None], [False]]),
                      'acc_scopes': rng.choice([[], [True], [True]]), 'call': g.call(rn, sub)})
        break
      yield {'tree': t, 'steps': steps, 'constructed': True}

  def shared_sealed_cases(self, rng, n):
    """A node of a SEALED tree (it has a parent there) is offered to a second container -- by item /
    attribute assignment, append, extend, insert, update, rebind --, which must take a copy; then the
    receiving tree is unsealed, written to, and the element is detached there (pop / replace / clear /
    del). The sealed original keeps content, flags, parent and path. (Controls: unsealed originals.)"""
    g = Gen(rng)
    made = 0
    for _ in range(n * 5):
      if made >= n:
        break
      ext = g.tree(rng.randint(2, 3), rng.choice(['dict', 'list', 'obj']))
      enodes = [(p, x) for p, x in all_nodes(ext) if p]
      if not enodes:
        continue
      if rng.chance(0.85):
        set_deep(ext, 's', True)
      epath, enode = rng.choice(enodes)
      val = {'from_ext': epath}
      hk = rng.choice(['list', 'dict', 'obj'])
      if hk == 'list':
        holder = val_node('list', [g.atom() for _ in range(rng.randint(0, 2))])
        n0 = len(holder['items'])
        offer, at = rng.choice([({'name': 'l_append', 'v': val}, n0), ({'name': 'l_extend', 'vs': [val]}, n0),
                                ({'name': 'l_insert', 'i': 0, 'v': val}, 0), ({'name': 'rebind', 'pairs': [[[n0], val]]}, n0)]
                               + ([({'name': 'l_setitem', 'i': 0, 'v': val}, 0)] if n0 else []))
        detach = [{'name': 'l_pop', 'i': at}, {'name': 'l_delitem', 'i': at}, {'name': 'l_setitem', 'i': at, 'v': g.atom()},
                  {'name': 'l_clear'}, {'name': 'l_setslice', 'a': at, 'b': at + 1, 'step': None, 'vs': []}]
      elif hk == 'dict':
        holder = val_node('dict', [['a', g.atom()]])
        at = 'n'
        offer = rng.choice([{'name': 'd_setitem', 'key': 'n', 'v': val}, {'name': 'd_setattr', 'key': 'n', 'v': val},
                            {'name': 'd_update', 'kvs': [['n', val]]}, {'name': 'rebind', 'pairs': [[['n'], val]]},
                            {'name': 'd_setdefault', 'key': 'n', 'v': val}])
        detach = [{'name': 'd_pop', 'key': 'n'}, {'name': 'd_delitem', 'key': 'n'}, {'name': 'd_setitem', 'key': 'n', 'v': g.atom()},
                  {'name': 'd_clear'}, {'name': 'd_popitem'}]
      else:
        holder = val_node('obj', [['x', g.atom()], ['y', None], ['z', None]], 1)
        at = 'x'
        offer = rng.choice([{'name': 'o_setattr', 'key': 'x', 'v': val}, {'name': 'rebind', 'pairs': [[['x'], val]]}])
        detach = [{'name': 'o_setattr', 'key': 'x', 'v': g.atom()}, {'name': 'rebind', 'pairs': [[['x'], g.atom()]]}]
      t = val_node('dict', [['h', holder], ['c', g.atom()]])
      def call(recv, c, scopes=None):
        return {'kind': 'call', 'recv': recv, 'sealed_scopes': scopes or [], 'acc_scopes': [True], 'call': c}
      steps = [call(['h'], offer)]
      if rng.chance(0.25):
        # offered to the CONSTRUCTOR of the holder instead
        if hk == 'list':
          holder['items'].append(val)
          at = len(holder['items']) - 1
          detach = [{'name': 'l_pop', 'i': at}, {'name': 'l_delitem', 'i': at}, {'name': 'l_setitem', 'i': at, 'v': g.atom()},
                    {'name': 'l_clear'}]
        elif hk == 'dict':
          holder['items'].append(['n', val])
        else:
          holder['items'][0][1] = val
        steps = []
      inner = all_nodes(enode)
      for _ in range(rng.randint(1, 3)):
        k = rng.below(10)
        if k < 3:
          steps.append({'kind': 'seal', 'recv': rng.choice([[], ['h'], ['h', at]]), 'b': False})
        elif k < 6:
          ip, inode = rng.choice(inner)
          c = g.call(inode, inner)
          while c['name'] in ('sym_setparent', 'sym_setpath'):     # these re-link on purpose
            c = g.call(inode, inner)
          steps.append(call(['h', at] + ip, c, rng.choice([[], [], [False]])))
          break
        else:
          steps.append(call(['h'], rng.choice(detach), rng.choice([[], [False]])))
          break
      made += 1
      yield {'tree': t, 'ext': ext, 'steps': steps, 'shared': True, 'forest': True}

  def grid_cases(self):
    stacks = [[], [True], [False], [None], [True, None], [None, True], [False, True], [True, False], [None, None, False]]
    for leafk, tmpl, path in grid_templates():
      for depth in range(3):           # protected node = receiver, its parent, its grandparent
        ppath = path[:len(path) - depth]
        for own in (True, False):
          for accw in (None, False, True):
            if accw is not None and depth:
              continue
            t = _copy(tmpl)
            if own:
              set_deep(get_at(t, ppath), 's', True)
            recv = get_at(t, path)
            if accw is not None:
              recv['w'] = accw
            names = {'list': LIST_OPS, 'dict': DICT_OPS, 'obj0': OBJ_OPS, 'obj1': OBJ_OPS}[leafk]
            for name in names:
              call = canonical_call(name, recv)
              for st in stacks:
                if accw is not None and len(st) > 1:
                  continue
                yield {'tree': t, 'steps': [{'kind': 'call', 'recv': path, 'sealed_scopes': st,
                                             'acc_scopes': [], 'call': call}]}
              if accw is not None or depth == 0:
                for ast_ in ([True], [False], [None], [False, True], [True, None]):
                  yield {'tree': t, 'steps': [{'kind': 'call', 'recv': path, 'sealed_scopes': [],
                                               'acc_scopes': ast_, 'call': call}]}
              # rebind issued at the protected ancestor, addressing the receiver's contents
              if depth and name == 'rebind':
                rel = path[len(ppath):]
                pairs = [[rel + p, v] for p, v in call['pairs']]
                for st in ([], [True], [False], [None]):
                  yield {'tree': t, 'steps': [{'kind': 'call', 'recv': ppath, 'sealed_scopes': st,
                                               'acc_scopes': [], 'call': {'name': 'rebind', 'pairs': pairs}}]}

  def discovered_cases(self):
    """Every mutating method found by introspection: protected receiver, own flag and scope."""
    self.setup_impl()
    found = discover_entry_points()
    self._discovered = found
    samples = {'List': val_node('list', [3, 1, 2]), 'Dict': val_node('dict', [['a', 1], ['c', 2]]),
               'Object': val_node('obj', [['x', 1], ['y', 2], ['z', None]], 1)}
    for cname, methods in found.items():
      for m, args in methods.items():
        for own, st in ((True, []), (False, [True]), (True, [None]), (False, [False, True])):
          t = _copy(samples[cname])
          t['s'] = own
          wrap = val_node('dict', [['h', t]])
          yield {'tree': wrap, 'steps': [{'kind': 'generic', 'recv': ['h'], 'sealed_scopes': st, 'acc_scopes': [],
                                          'method': m, 'args': args, 'cls': cname,
                                          'modelled': m in METHOD_OPS[cname]}]}

  def shallow_seal_cases(self):
    """A value sealed with the shallow public setter
    `sym_seal(True)` -- for a pg.Object this leaves the flag of the attribute container unset, so only
    the object's own guards protect it -- must refuse every entry point of its type."""
    samples = {'list': val_node('list', [3, 1, 2]), 'dict': val_node('dict', [['a', 1], ['c', 2]]),
               'obj0': val_node('obj', [['x', 1], ['y', 2], ['z', None]], 0),
               'obj1': val_node('obj', [['x', 1], ['y', 2], ['z', None]], 1)}
    ops = {'list': LIST_OPS, 'dict': DICT_OPS, 'obj0': OBJ_OPS, 'obj1': OBJ_OPS}
    for kind, t in samples.items():
      for name in ops[kind]:
        for st in ([], [None], [False, None]):
          yield {'tree': val_node('dict', [['h', _copy(t)]]), 'steps': [
              {'kind': 'sym_seal', 'recv': ['h'], 'b': True},
              {'kind': 'call', 'recv': ['h'], 'sealed_scopes': st, 'acc_scopes': [True],
               'call': canonical_call(name, t)}]}

  def search_cases(self, rng, tier, broken):
    yield from self.generate(rng.fork(), 'thorough' if tier == 'thorough' else 'quick')
    yield from self.generate(rng.fork(), 'quick')

  # -- execution --------------------------------------------------------------------------
  # -- pg.Functor receivers (oracle only) ---------------------------------------------------
  def functor_cases(self):
    """Exhaustive: a bound pg.Functor (function-based / class-based) x how it is sealed (not, seal(),
    shallow sym_seal()) x its accessor_writable flag x stacks of as_sealed / allow_writable_accessors
    scopes x the calls `del f.a`, `f.a = v`, `f.rebind(a=v)`, `f.rebind(a=MISSING_VALUE)`."""
    stacks = [[], [True], [False], [None], [False, True], [True, None]]
    for kind in ('fn', 'cls'):
      for how in ('none', 'seal', 'sym_seal'):
        for acc in (True, False):
          for ss in stacks:
            for as_ in stacks:
              for op in ('del', 'set', 'rebind', 'rebind_del'):
                yield {'functor': kind, 'how': how, 'acc': acc, 'sealed_scopes': ss, 'acc_scopes': as_, 'op': op,
                       'tree': None, 'steps': []}

  def usespec_cases(self):
    """Exhaustive: `Dict.use_value_spec(spec)` with a COMPLETING spec (defaults for missing keys, also of a
    nested Dict) as an entry point: Dict shapes (keys missing at the root / only in the nested Dict / none)
    x how it is sealed (not, seal(), shallow sym_seal(), only the nested Dict) x as_sealed stacks x applied
    directly / by handing the Dict to the constructor of an object whose field has the spec."""
    stacks = [[], [True], [False], [None], [False, True], [True, None]]
    for shape in ('A', 'B', 'FULL'):
      for how in ('none', 'seal', 'sym_seal', 'child'):
        if how == 'child' and shape == 'A':
          continue
        for ss in stacks:
          for via in ('direct', 'ctor'):
            yield {'usespec': shape, 'how': how, 'sealed_scopes': ss, 'via': via, 'tree': None, 'steps': []}

  def impl_usespec(self, case):
    import contextlib
    import pyglove as pg
    def make_spec():
      return pg.typing.Dict([('x', pg.typing.Any(default=0)), ('y', pg.typing.Any(default=5)),
                             ('z', pg.typing.Dict([('w', pg.typing.Any(default=1))]))])
    d = {'A': lambda: pg.Dict(x=1), 'B': lambda: pg.Dict(x=1, y=2, z=pg.Dict()),
         'FULL': lambda: pg.Dict(x=1, y=2, z=pg.Dict(w=3))}[case['usespec']]()
    if case['how'] == 'seal':
      d.seal(True)
    elif case['how'] == 'sym_seal':
      d.sym_seal(True)
    elif case['how'] == 'child':
      d.z.seal(True)
    def state():
      """per node (root, z): own sealed flag and own direct contents (a nested Dict counts as present)"""
      def own(n):
        return {'sealed': n.sym_sealed, 'items': [[k, '<dict>' if isinstance(v, pg.Dict) else repr(v)] for k, v in n.sym_items()]}
      out = {'root': own(d)}
      z = d.sym_getattr('z', None)
      if isinstance(z, pg.Dict):
        out['z'] = own(z)
      return out
    pre = state()
    class C08Holder(pg.Object):
      d: make_spec()
    with contextlib.ExitStack() as st:
      for v in case['sealed_scopes']:
        st.enter_context(pg.as_sealed(v))
      try:
        if case['via'] == 'direct':
          d.use_value_spec(make_spec())
        else:
          C08Holder(d=d)
        res = 'ok'
      except pg.WritePermissionError:
        res = 'perm'
      except Exception as e:    # pylint: disable=broad-except
        res = type(e).__name__
    return {'model': None, 'usespec': {'res': res, 'pre': pre, 'post': state()}, 'steps': [], 'pre': None}

  def oracle_usespec(self, case, out):
    o = out['usespec']
    ss = case['sealed_scopes']
    by_scope = bool(ss) and ss[-1] is not None
    def treated(node):
      return ss[-1] if by_scope else o['pre'][node]['sealed']
    # which nodes the completing spec would write to
    would = {'root': case['usespec'] == 'A', 'z': case['usespec'] == 'B'}
    what = 'Dict %s sealed by %s, as_sealed%s, use_value_spec via %s -> %s: %s -> %s' % (
        case['usespec'], case['how'], ss, case['via'], o['res'], o['pre'], o['post'])
    for node in o['pre']:
      if treated(node) and o['post'].get(node) != o['pre'][node]:
        return {'signature': 'use-value-spec-sealed-modified:' + ('scope' if by_scope else case['how']), 'what': what}
    blocked = [n for n in o['pre'] if treated(n) and would.get(n)]
    if blocked and o['res'] != 'perm':
      return {'signature': 'use-value-spec-sealed-no-error:' + ('scope' if by_scope else case['how']), 'what': what}
    if not blocked and o['res'] == 'perm':
      return {'signature': 'use-value-spec-spurious-permission-error', 'what': what}
    return None

  def impl_functor(self, case):
    import contextlib
    import pyglove as pg
    if case['functor'] == 'fn':
      @pg.functor([('a', pg.typing.Any(default=1)), ('b', pg.typing.Any(default=2))])
      def c08fn(a, b):
        return a
      f = c08fn(a=5, b=6)
    else:
      class C08Fun(pg.Functor):
        a: pg.typing.Any(default=1)
        b: pg.typing.Any(default=2)
        def _call(self):
          return self.a
      f = C08Fun(a=5, b=6)
    f.set_accessor_writable(case['acc'])
    if case['how'] == 'seal':
      f.seal(True)
    elif case['how'] == 'sym_seal':
      f.sym_seal(True)
    def state():
      return {'a': repr(f.sym_getattr('a', 'MISSING')), 'b': repr(f.sym_getattr('b', 'MISSING')),
              'sealed': f.sym_sealed, 'acc': f.accessor_writable}
    pre = state()
    with contextlib.ExitStack() as st:
      for v in case['sealed_scopes']:
        st.enter_context(pg.as_sealed(v))
      for v in case['acc_scopes']:
        st.enter_context(pg.allow_writable_accessors(v))
      try:
        if case['op'] == 'del':
          del f.a
        elif case['op'] == 'set':
          f.a = 9
        elif case['op'] == 'rebind':
          f.rebind(a=9)
        else:
          f.rebind(a=pg.MISSING_VALUE)
        res = 'ok'
      except pg.WritePermissionError:
        res = 'perm'
      except Exception as e:    # pylint: disable=broad-except
        res = type(e).__name__
    return {'model': None, 'functor': {'res': res, 'pre': pre, 'post': state()}, 'steps': [], 'pre': None}

  def oracle_functor(self, case, out):
    o = out['functor']
    ss, as_ = case['sealed_scopes'], case['acc_scopes']
    by_scope_s = bool(ss) and ss[-1] is not None
    sealed = ss[-1] if by_scope_s else case['how'] != 'none'
    by_scope_a = bool(as_) and as_[-1] is not None
    writable = as_[-1] if by_scope_a else case['acc']
    op = case['op']
    what = 'functor(%s) %s, accessor_writable=%s, as_sealed%s, allow_writable_accessors%s, %s -> %s, %s -> %s' % (
        case['functor'], case['how'], case['acc'], ss, as_, op, o['res'], o['pre'], o['post'])
    if sealed:
      if o['post'] != o['pre']:
        return {'signature': 'functor-sealed-modified:%s:%s' % (op, 'scope' if by_scope_s else case['how']), 'what': what}
      if o['res'] != 'perm':
        return {'signature': 'functor-sealed-no-error:%s:%s' % (op, 'scope' if by_scope_s else case['how']), 'what': what}
    elif not writable and op in ('del', 'set'):
      if o['post'] != o['pre'] or o['res'] != 'perm':
        return {'signature': 'functor-accessor-no-error:%s:%s' % (op, 'scope' if by_scope_a else 'flag'), 'what': what}
    elif o['res'] == 'perm':
      return {'signature': 'functor-spurious-permission-error:' + op, 'what': what}
    return None

  def model_request(self, case):
    if case.get('functor') or case.get('usespec'):
      return None
    if any(s['kind'] == 'generic' for s in case['steps']):
      return None
    steps = case['steps']
    if case.get('shared'):
      steps = literal(steps, case['ext'])
    req = {'op': 'run', 'tree': self.model_tree(case), 'steps': steps}
    if 'ext' in case:
      req['ext'] = case['ext']
    if case.get('threads'):
      req['threads'] = case['threads'] + 1        # the harness thread is the last one
    return req

  @staticmethod
  def model_tree(case):
    t = strip_ctor(case['tree'])
    return literal(t, case['ext']) if case.get('shared') else t

  def impl(self, case):
    import pyglove as pg
    # the harness thread starts from "no override" (see Worker._base_scopes)
    with pg.as_sealed(None), pg.allow_writable_accessors(None):
      if case.get('functor'):
        return self.impl_functor(case)
      if case.get('usespec'):
        return self.impl_usespec(case)
      return self._impl_body(case)

  def _impl_body(self, case):
    import pyglove as pg
    classes()
    has_ext = 'ext' in case
    ext = build_full(case['ext']) if has_ext else None
    _EXT[0] = ext
    root = build_full(case['tree'])
    pre0 = (dump(root), {'tree': bad_links(root), 'ext': bad_links(ext)} if case.get('shared') else None)
    def twin(pre, pre_ext, in_ext):
      """A fresh copy of the forest; returns the tree the step addresses and a function dumping it."""
      e = build_full(pre_ext) if has_ext else None
      _EXT[0] = e
      r = build_full(pre)
      _EXT[0] = ext
      return ((e, r) if in_ext else (r, e)) + (e,)
    def tojson(v):
      return pg.to_json(v, save_ref_value=True)
    nthreads = case.get('threads', 0)
    workers = [Worker() for _ in range(nthreads)] + [Inline()]
    try:
      return self._impl_steps(case, pg, root, ext, has_ext, twin, tojson, workers, pre0)
    finally:
      for w in workers:
        w.stop()
      _EXT[0] = None

  def _impl_steps(self, case, pg, root, ext, has_ext, twin, tojson, workers, pre0):
    outs = []
    for step in case['steps']:
      in_ext = step.get('in') == 'ext'
      pre_root, pre_ext = dump(root), (dump(ext) if has_ext else None)
      target = ext if in_ext else root
      pre = pre_ext if in_ext else pre_root
      o = {}
      worker = workers[step['t']] if 't' in step and step['t'] < len(workers) - 1 else workers[-1]
      if step['kind'] in ('enter', 'leave'):
        def scope_action(step=step, worker=worker):
          if step['kind'] == 'enter':
            cm = (pg.as_sealed if step['which'] == 'sealed' else pg.allow_writable_accessors)(step['v'])
            cm.__enter__()
            worker.cms.append(cm)
          else:
            worker.cms.pop().__exit__(None, None, None)
        worker.run(scope_action)
        o['res'] = 'ok'
      elif step['kind'] in ('call', 'generic'):
        o = worker.run(lambda: self._call_outcome(step, target, pre, pre_root, pre_ext, in_ext, twin, tojson))
      elif step['kind'] == 'seal':
        try:
          navigate(target, step['recv']).seal(step['b'])
          o['res'] = 'ok'
        except Exception as e:    # pylint: disable=broad-except
          o['res'] = classify(e)
      elif step['kind'] == 'set_acc':
        navigate(target, step['recv']).set_accessor_writable(step['b'])
        o['res'] = 'ok'
      elif step['kind'] == 'sym_seal':
        navigate(target, step['recv']).sym_seal(step['b'])
        o['res'] = 'ok'
      o['tree'] = dump(root)
      if has_ext:
        o['ext'] = dump(ext)
      if case.get('shared'):
        o['links'] = {'tree': bad_links(root), 'ext': bad_links(ext)}
      outs.append(o)
    model = {'steps': [dict({'res': o['res'], 'tree': o['tree']}, **({'ext': o['ext']} if has_ext else {})) for o in outs]}
    return {'model': model, 'steps': outs, 'pre': pre0[0], 'pre_links': pre0[1]}

  def _call_outcome(self, step, target, pre, pre_root, pre_ext, in_ext, twin, tojson):
    """One call with its two twins (nothing sealed / accessors writable), all on the calling thread."""
    o = {}
    jb = tojson(target)
    sink = []
    o['res'] = run_call(target, step, sink=sink)
    o['json_same'] = tojson(target) == jb
    # the flagged (e.g. sealed) values handed to the call: what they look like afterwards
    o['ins'] = [{'v': vj, 'after': dump(v)} for vj, v in sink]
    # would the call change anything if nothing were sealed / if accessors were writable?
    real_ext = _EXT[0]
    try:
      r1, _, _EXT[0] = twin(pre_root, pre_ext, in_ext)       # values taken "from ext" come from the twin's ext
      sink1 = []
      o['unsealed'] = {'res': run_call(r1, step, extra_sealed=[False], sink=sink1)}
      o['unsealed']['changes'] = dump(r1) != pre
      o['unsealed']['ins_changed'] = [dump(v) != vj for vj, v in sink1]
      r2, _, _EXT[0] = twin(pre_root, pre_ext, in_ext)
      o['acc_true'] = {'res': run_call(r2, step, extra_acc=[True])}
      o['acc_true']['tree'] = dump(r2)
    finally:
      _EXT[0] = real_ext
    return o

  # -- the property itself ------------------------------------------------------------------
  def oracle(self, case, out):
    if case.get('functor'):
      return self.oracle_functor(case, out)
    if case.get('usespec'):
      return self.oracle_usespec(case, out)
    pre = out['pre']
    want = self.model_tree(case)
    if out.get('pre_links') and (out['pre_links']['tree'] or out['pre_links']['ext']):
      return {'signature': 'links-broken:constructor',
              'what': 'after building %s the nodes %s do not have the parent / path that their place in the tree says' % (
                  case['tree'], out['pre_links'])}
    if pre != want:
      if case.get('shared'):
        return {'signature': 'constructor-copy-differs',
                'what': 'a container built from a node of another tree must hold a copy of it: built %s, expected %s' % (pre, want)}
      if any(is_ctor(n) for _, n in all_nodes(case['tree'])):
        return {'signature': 'constructed-sealed-not-deep',
                'what': 'a value built with sealed=True (or of a class with allow_symbolic_mutation=False) must come '
                        'out sealed with all its symbolic descendants: built %s, expected %s' % (pre, want)}
      return {'signature': 'harness-build-mismatch', 'what': 'built %s from %s' % (pre, case['tree'])}
    pre = want
    pre_ext = case.get('ext')
    stacks = {}          # thread -> [(which, value)], innermost last: the scopes each thread is inside of
    for step, o in zip(case['steps'], out['steps']):
      if step['kind'] == 'enter':
        stacks.setdefault(step['t'], []).append((step['which'], step['v']))
        continue
      if step['kind'] == 'leave':
        stacks[step['t']].pop()
        continue
      if case.get('threads') and step['kind'] == 'call':
        # a call is judged by the scopes of the thread that makes it, and by nothing else
        mine = stacks.get(step['t'], [])
        step = dict(step, sealed_scopes=[v for w, v in mine if w == 'sealed'], acc_scopes=[v for w, v in mine if w == 'acc'])
      in_ext = step.get('in') == 'ext'
      if pre_ext is not None:
        # the forest: what is done to one tree does not reach the other (a pg.Ref element is a node of
        # its own; the value it refers to is not part of the tree that holds the Ref)
        other_pre, other_post = (pre, o['tree']) if in_ext else (pre_ext, o['ext'])
        if other_pre != other_post:
          return {'signature': 'changed-other-tree:' + (step['call']['name'] if step['kind'] == 'call' else step['kind']),
                  'what': '%s at %s of the %s changed the %s: %s -> %s' % (
                      step.get('call', step['kind']), step['recv'], 'external value' if in_ext else 'tree',
                      'tree' if in_ext else 'external value (reachable through pg.Ref only)', other_pre, other_post)}
      if o.get('links') and (o['links']['tree'] or o['links']['ext']):
        return {'signature': 'links-broken:' + (step['call']['name'] if step['kind'] == 'call' else step['kind']),
                'what': 'after %s at %s the nodes %s no longer have the parent / path that their place in the tree says' % (
                    step.get('call', step['kind']), step['recv'], o['links'])}
      if case.get('shared') and step['kind'] == 'call':
        step = literal(step, case['ext'])
      o2 = dict(o, tree=o['ext']) if in_ext else o
      f = self.oracle_step(pre_ext if in_ext else pre, step, o2)
      if f:
        return f
      pre = o['tree']
      if pre_ext is not None:
        pre_ext = o['ext']
    return None

  def oracle_step(self, pre, step, o):
    recv = get_at(pre, step['recv'])
    if step['kind'] in ('seal', 'set_acc', 'sym_seal'):
      if step['kind'] == 'seal' and is_node(recv):
        after = get_at(o['tree'], step['recv'])
        if not deep_flag(after, 's', step['b']):
          return {'signature': 'seal-not-deep' if step['b'] else 'unseal-not-deep',
                  'what': 'after seal(%s) at %s not every symbolic descendant has is_sealed == %s: %s' % (
                      step['b'], step['recv'], step['b'], after)}
      if is_node(recv):
        # seal / sym_seal / set_accessor_writable concern the subtree of the receiver only: every node
        # outside it (e.g. the value an inferential element resolves to) keeps its flags and contents.
        a, b = masked(pre, step['recv']), masked(o['tree'], step['recv'])
        if a != b:
          return {'signature': step['kind'] + '-outside-subtree',
                  'what': '%s(%s) at %s changed something outside the subtree of the receiver: %s -> %s' % (
                      step['kind'], step['b'], step['recv'], a, b)}
        if step['kind'] != 'seal':
          want = _copy(recv)
          if step['kind'] == 'sym_seal':
            want['s'] = step['b']
          else:
            want['w'] = step['b']
          if get_at(o['tree'], step['recv']) != want:
            return {'signature': step['kind'] + '-not-shallow',
                    'what': '%s(%s) at %s: %s -> %s' % (step['kind'], step['b'], step['recv'], recv,
                                                        get_at(o['tree'], step['recv']))}
        elif shape_of(get_at(o['tree'], step['recv'])) != shape_of(recv):
          return {'signature': 'seal-changed-contents', 'what': 'seal changed more than sealed flags: %s -> %s' % (
              recv, get_at(o['tree'], step['recv']))}
      return None
    if not is_node(recv):
      return None
    ss, as_ = step.get('sealed_scopes', []), step.get('acc_scopes', [])
    eff_s = ss[-1] if ss else None
    eff_a = as_[-1] if as_ else None
    if step['kind'] == 'generic':
      name, targets = 'generic:' + step['method'], [recv]
    else:
      name = step['call']['name']
      targets = [recv] if name != 'rebind' or recv['k'] == 'obj' else []
      if name == 'rebind':
        for p, _ in step['call']['pairs']:
          t = get_at(recv, p[:-1])
          if is_node(t):
            targets.append(t)
    # nodes of values inserted by one pair of a batch that another pair of the same batch addresses:
    # whether such a node is the target of a write depends on the time at which the pair is applied.
    dyn = []
    if name == 'rebind':
      for p, _ in step['call']['pairs']:
        for p2, v2 in step['call']['pairs']:
          if p2 != p and len(p2) < len(p) and p[:len(p2)] == p2 and is_node(v2):
            t = get_at(v2, p[len(p2):-1])
            if is_node(t):
              dyn.append(t)
    # every target is the node whose *direct* contents the call writes: its own flag decides (a value
    # whose own is_sealed is True is sealed, however it got there: seal() or the shallow sym_seal()).
    # `weak` only relaxes R3: an unsealed object whose attribute container is sealed (possible through
    # the shallow setters) refuses __setattr__ and rebind of its fields.
    strong = [t for t in targets if eff_s is True or (eff_s is None and t['s'])]
    weak = [t for t in targets if eff_s is True or (eff_s is None and (t['s'] or t.get('ci')))]
    weak_dyn = [t for t in dyn if eff_s is True or (eff_s is None and (t['s'] or t.get('ci')))]
    acc_prot = eff_a is False or (eff_a is None and not recv['w'])
    changed = o['tree'] != pre or not o['json_same']
    # R0: a call is not seal() / set_accessor_writable(): the protection flags of the receiver and of its
    # ancestors (the nodes a call cannot replace) are afterwards what they were.
    for i in range(len(step['recv']) + 1):
      a, b = get_at(pre, step['recv'][:i]), get_at(o['tree'], step['recv'][:i])
      if is_node(a) and is_node(b) and flags_of(a) != flags_of(b):
        return {'signature': 'flags-changed:' + name,
                'what': '%s at %s changed the protection flags of the node at %s: %s -> %s' % (
                    name, step['recv'], step['recv'][:i], flags_of(a), flags_of(b))}
    # R1: sealed (by flag, deeply, or by scope) => nothing changes; WPE if it would have changed.
    if strong:
      if changed:
        if o['res'] == 'perm' and name == 'rebind' and len(step['call']['pairs']) > 1:
          return {'signature': 'rebind-partial-before-permission-error',
                  'what': 'batched rebind raised WritePermissionError for a sealed target after having '
                          'applied earlier pairs: tree %s -> %s' % (pre, o['tree'])}
        return {'signature': 'sealed-modified:' + name,
                'what': '%s on a sealed value (scope=%s) changed the tree: %s -> %s (outcome %s)' % (
                    name, ss, pre, o['tree'], o['res'])}
      if o['unsealed']['changes'] and o['res'] != 'perm':
        return {'signature': 'sealed-no-error:' + name,
                'what': '%s on a sealed value (scope=%s) would change it but ended with %s instead of '
                        'WritePermissionError' % (name, ss, o['res'])}
    # R1b: a value that was sealed before it was handed to the call (e.g. inserted by one pair of a
    # batched rebind and addressed by another pair of the same batch) never changes; if the call would
    # change it (it does inside as_sealed(False)), the call ends in WritePermissionError.
    if eff_s is None:
      for i, ins in enumerate(o.get('ins', [])):
        if not deep_flag(ins['v'], 's', True):
          continue
        if ins['after'] != ins['v']:
          return {'signature': 'sealed-value-modified:' + name,
                  'what': '%s (scope=%s) changed a value that was sealed before it was handed to the call: '
                          '%s -> %s (outcome %s)' % (name, ss, ins['v'], ins['after'], o['res'])}
        would = o['unsealed'].get('ins_changed', [])
        if i < len(would) and would[i] and o['res'] != 'perm':
          return {'signature': 'sealed-value-no-error:' + name,
                  'what': '%s (scope=%s) would change the sealed value %s handed to it but ended with %s '
                          'instead of WritePermissionError' % (name, ss, ins['v'], o['res'])}
    # R2: accessor protection.
    if acc_prot and name in ACCESSOR_OPS and not weak:
      if changed:
        return {'signature': 'accessor-modified:' + name,
                'what': '%s with accessor writes disabled (scope=%s, flag=%s) changed the tree: %s -> %s' % (
                    name, as_, recv['w'], pre, o['tree'])}
      if o['acc_true']['tree'] != pre and o['res'] != 'perm':
        return {'signature': 'accessor-no-error:' + name,
                'what': '%s with accessor writes disabled ended with %s instead of WritePermissionError' % (
                    name, o['res'])}
    if name == 'rebind' and (o['res'], o['tree']) != (o['acc_true']['res'], o['acc_true']['tree']):
      return {'signature': 'rebind-depends-on-accessor-flag',
              'what': 'rebind under acc scopes %s / flag %s: %s; with allow_writable_accessors(True): %s' % (
                  as_, recv['w'], o['res'], o['acc_true']['res'])}
    # R3: nothing sealed, accessors writable => never a permission error.
    if not weak and not weak_dyn and not acc_prot and o['res'] == 'perm':
      return {'signature': 'spurious-permission-error:' + name,
              'what': '%s raised WritePermissionError although no target is sealed (scope=%s) and accessor '
                      'writes are allowed (scope=%s)' % (name, ss, as_)}
    return None

  def compare(self, case, impl_out, model_out):
    a, b = impl_out['model']['steps'], model_out.get('steps')
    if a != b:
      for i, (x, y) in enumerate(zip(a, b or [])):
        if x != y:
          return 'step %d (%s): impl=%s model=%s' % (i, case['steps'][i].get('call', case['steps'][i]), x, y)
      return 'impl=%s model=%s' % (a, b)
    return None

  def nontrivial(self, case, out):
    if case.get('functor') or case.get('usespec'):
      return True
    t = case['tree']
    for s in case['steps']:
      if s['kind'] in ('seal', 'enter'):
        return True
      if s['kind'] in ('call', 'generic'):
        if True in s.get('sealed_scopes', []) or False in s.get('acc_scopes', []):
          return True
        r = get_at(t, s['recv'])
        if is_node(r) and (r['s'] or not r['w']):
          return True
        if s['kind'] == 'call' and any(has_flags(x) for x in call_values(s['call'])):
          return True
    return False

  def describe(self, case, out):
    if case.get('functor'):
      return ['functor:' + case['functor'], 'functor-sealed-by:' + case['how'], 'functor-op:' + case['op'],
              'functor-result:' + out['functor']['res']]
    if case.get('usespec'):
      return ['use_value_spec:' + case['usespec'], 'use_value_spec-sealed-by:' + case['how'], 'use_value_spec-via:' + case['via'],
              'use_value_spec-result:' + out['usespec']['res']]
    h = ['steps:%d' % len(case['steps'])]
    if case.get('flag_history'):
      h.append('flag-history')
    if case.get('inferential'):
      h.append('inferential-elements')
    if case.get('forest'):
      h.append('forest(pg.Ref)')
    if case.get('constructed'):
      h.append('sealed-by-constructor')
    if case.get('threads'):
      h.append('threads:%d+harness' % case['threads'])
      h.append('scope-steps:%d' % min(8, sum(1 for s_ in case['steps'] if s_['kind'] == 'enter')))
    for s, o in zip(case['steps'], out['steps']):
      if s['kind'] in ('call', 'generic'):
        name = s['call']['name'] if s['kind'] == 'call' else 'generic'
        h.append('op:' + name)
        h.append('res:' + str(o['res']))
        h.append('sealed-scope-depth:%d' % len(s.get('sealed_scopes', [])))
        ss = s.get('sealed_scopes', [])
        h.append('eff-sealed-scope:%s' % (ss[-1] if ss else 'outside'))
        h.append('recv-depth:%d' % len(s['recv']))
        r = get_at(case['tree'], s['recv'])
        if is_node(r):
          h.append('recv:%s sealed=%s accW=%s' % (r['k'], r['s'], r['w']))
        if s.get('dependent'):
          h.append('dependent-batch')
        if s.get('partial_seal'):
          h.append('partial-seal-batch')
        if any(deep_flag(i['v'], 's', True) for i in o.get('ins', [])):
          h.append('sealed-value-handed-in')
          if any(o.get('unsealed', {}).get('ins_changed', [])):
            h.append('call-would-change-sealed-value')
        if o['res'] == 'perm':
          h.append('refused')
        elif o.get('unsealed', {}).get('changes') is False:
          h.append('no-op call')
      else:
        h.append('op:' + s['kind'])
    if not self.nontrivial(case, out):
      h.append('trivial(unprotected)')
    return h

  def shrink_candidates(self, case):
    if case.get('functor') or case.get('usespec'):
      return
    steps = case['steps']
    if case.get('threads'):
      # calls go one by one; a scope goes with its own leave (matched per thread)
      for i, s_ in enumerate(steps):
        if s_['kind'] == 'call' and sum(1 for x in steps if x['kind'] == 'call') > 1:
          yield dict(case, steps=steps[:i] + steps[i + 1:])
      open_ = {}
      for i, s_ in enumerate(steps):
        if s_['kind'] == 'enter':
          open_.setdefault(s_['t'], []).append(i)
        elif s_['kind'] == 'leave':
          j = open_[s_['t']].pop()
          yield dict(case, steps=[x for k, x in enumerate(steps) if k not in (i, j)])
      return
    for i in range(len(steps)):
      if len(steps) > 1:
        yield {'tree': case['tree'], 'steps': steps[:i] + steps[i + 1:]}
    for i, s in enumerate(steps):
      for fld in ('sealed_scopes', 'acc_scopes'):
        if len(s.get(fld, [])) > 1:
          s2 = dict(s)
          s2[fld] = s[fld][-1:]
          yield {'tree': case['tree'], 'steps': steps[:i] + [s2] + steps[i + 1:]}
      if s.get('kind') == 'call' and s['call']['name'] == 'rebind' and len(s['call']['pairs']) > 2:
        for j in range(len(s['call']['pairs'])):
          s2 = dict(s)
          s2['call'] = dict(s['call'])
          s2['call']['pairs'] = s['call']['pairs'][:j] + s['call']['pairs'][j + 1:]
          yield {'tree': case['tree'], 'steps': steps[:i] + [s2] + steps[i + 1:]}

  def extra_checks(self, ctx):
    """Every mutating method found by introspection of the real classes must be a modelled entry
    point (otherwise the model's closed list is incomplete: broken tie)."""
    found = getattr(self, '_discovered', None)
    if found is None:
      return
    ctx.coverage['entry_points_by_introspection'] = {c: sorted(m) for c, m in found.items()}
    for cname, methods in found.items():
      for m in methods:
        if m not in METHOD_OPS[cname]:
          ctx.broken.append({'kind': 'correspondence', 'name': 'C08 entry-point list',
                             'detail': 'introspection found the mutating method %s.%s which the model does '
                                       'not know' % (cname, m)})


def _copy(t):
  import json
  return json.loads(json.dumps(t))


PROP = C08()
