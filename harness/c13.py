"""C13 — hyper values: decode / encode are mutually inverse and side-effect free.

Case shape (all JSON):
  {"tmpl": T, "where": null | [tags], "dnas": "all" | [D, ...], "values": [V, ...]}
  T, V ::= ["const", A] | ["dict", [keys], [T..]] | ["list", [T..]] | ["obj", cls, [keys], [T..]]
         | ["choice", tag, one, k, [T..], distinct, sorted] | ["floatv", tag, [m, e], [m, e]]
  A    ::= ["none"] | ["int", n] | ["str", s] | ["flt", m, e]          (float = m / 2**e, exact)
  D    ::= [null | ["i", n] | ["f", m, e], [D..]]                      (what DNA(value, children) holds)

The placeholder tag travels in `hints`; `where` is `lambda x: x.hints in tags`.

Implementation observables (public API only): pg.template / dna_spec / decode / encode,
DNASpec.validate / space_size / iter_dna, pg.iter, pg.materialize, pg.is_deterministic, pg.eq / pg.ne,
pg.to_json_str of the hyper value before / after.
"""

import json

from harness.common.framework import Prop, CaseTimeout

# ------------------------------------------------------------------------------------------
# Pure-Python helpers on the JSON forms (no pyglove): scan, normalisation, generators
# ------------------------------------------------------------------------------------------

CLASSES = [            # (name, [(field, type)]); type in any | int | float | str | list_int
    ('A', [('x', 'any'), ('y', 'any')]),
    ('B', [('p', 'int'), ('q', 'float'), ('r', 'str')]),
    ('C', [('items', 'list_int'), ('z', 'any')]),
    ('D', [('x', 'any'), ('y', 'any')]),      # `class D(A)`: a subclass of A that adds no fields
    ('E', [('u', 'any'), ('w', 'any')]),      # `_on_bound` derives state (`_sig`) from the fields
    ('F', [('a', 'float_ge0'), ('b', 'float_le0'), ('c', 'int_ge0'), ('d', 'int_le0')]),   # bounds exactly 0
    ('G', [('units', 'any'), ('act', 'any')]),  # pg.symbolize of a regular class: `==` is identity, pg.eq structural
    ('H', [('x', 'any'), ('y', 'any')]),        # pg.Object with use_symbolic_comparison = False (`==` is identity)
    ('L', [('xs', 'list_int_max1'), ('ys', 'list_int_min2')]),   # size-constrained list fields
    ('M', [('x', 'any'), ('y', 'any')]),      # `class M(A)`: a sibling of D (same fields, another subclass of A)
]
SUBCLASS_OF = {3: 0, 9: 0}                     # class index -> base class index
FAMILY = [0, 3, 9]                             # A and its field-less subclasses: only the class tells them apart
SIZES = {'list_int_max1': (0, 1), 'list_int_min2': (2, None)}   # min_size, max_size
SYMBOLIZED = {6}
IDENTITY_EQ = {7}
DERIVED = {4}                                 # classes with `_on_bound`-derived state
# bounded numeric field types: base type, min_value, max_value
BOUNDS = {'float_ge0': ('float', 0, None), 'float_le0': ('float', None, 0),
          'int_ge0': ('int', 0, None), 'int_le0': ('int', None, 0)}


def in_bounds(x, lo, hi):
  """Every value the (value) template `x` can produce lies within [lo, hi] (None = unbounded)."""
  k = x[0]
  if k == 'const':
    n = atom_num(x[1])
    if n is None:
      return True
    return (lo is None or num_le([lo, 0], n)) and (hi is None or num_le(n, [hi, 0]))
  if k == 'floatv':
    return (lo is None or num_le([lo, 0], x[2])) and (hi is None or num_le(x[3], [hi, 0]))
  if k == 'choice' and x[2]:
    return all(in_bounds(c, lo, hi) for c in x[4])
  return True


def ok_b(x, lo, hi):
  """Mirror of `okB` (lean/PgModel/HyperSpec.lean): the bounded numeric field accepts `x` at binding time."""
  k = x[0]
  if k == 'const':
    return atom_num(x[1]) is not None and in_bounds(x, lo, hi)
  if k == 'floatv':
    return in_bounds(x, lo, hi)
  if k == 'choice':
    return bool(x[2]) and all(ok_b(c, lo, hi) for c in x[4])
  return False


def bound_slots(t, acc=None):
  """[lo, hi, template] for every bounded numeric field in `t`."""
  acc = [] if acc is None else acc
  k = t[0]
  if k == 'obj':
    for c, (_, fty) in zip(t[3], CLASSES[t[1]][1]):
      if fty in BOUNDS:
        acc.append([BOUNDS[fty][1], BOUNDS[fty][2], c])
  if k in ('dict', 'list', 'obj'):
    for c in t[-1]:
      bound_slots(c, acc)
  elif k == 'choice':
    for c in t[4]:
      bound_slots(c, acc)
  return acc


def size_fits(x, lo, hi):
  """Every list the (value) template `x` can produce has a length within [lo, hi]."""
  k = x[0]
  if k == 'list':
    n = len(x[1])
  elif k == 'choice' and not x[2]:
    n = x[3]
  elif k == 'choice':
    return all(size_fits(c, lo, hi) for c in x[4])
  else:
    return True
  return n >= lo and (hi is None or n <= hi)


def sizes_ok(t):
  """No manyof / list bound to a size-constrained list field can produce a list of a forbidden length."""
  k = t[0]
  if k == 'obj':
    for c, (_, fty) in zip(t[3], CLASSES[t[1]][1]):
      if fty in SIZES and not size_fits(c, *SIZES[fty]):
        return False
    return all(sizes_ok(c) for c in t[3])
  if k in ('dict', 'list'):
    return all(sizes_ok(c) for c in t[-1])
  if k == 'choice':
    return all(sizes_ok(c) for c in t[4])
  return True


def bounds_ok(t):
  """No placeholder / constant bound to a bounded numeric field can produce a value outside it."""
  k = t[0]
  if k == 'obj':
    for c, (_, fty) in zip(t[3], CLASSES[t[1]][1]):
      if fty in BOUNDS and not in_bounds(c, BOUNDS[fty][1], BOUNDS[fty][2]):
        return False
    return all(bounds_ok(c) for c in t[3])
  if k in ('dict', 'list'):
    return all(bounds_ok(c) for c in t[-1])
  if k == 'choice':
    return all(bounds_ok(c) for c in t[4])
  return True


def kids_of(t):
  return t[-1] if t[0] in ('dict', 'list', 'obj') else None


# Custom hyper primitives the harness instantiates: (class name, well-behaved?, genomes of its own range).
# Mirrors: the Python classes in `_setup_pg`, `hookDec` / `hookEnc` in lean/Driver/C13.lean.
HOOKS = [
    ('C13StrId', True, ['', 'a', 'ab', 'b c', ' pad ']),            # value = genome
    ('C13IntSeq', True, ['', '1', '1,2', '12,-3,4']),      # '1,2' <-> [1, 2]
    ('Evolvable', True, ['{"x": 1, "y": [1, 2]}', '{"x": 2, "y": [1, 2]}', '{"x": 1, "y": [1, 2, 3]}']),
    ('C13BadEnc', False, ['a', 'b']),                      # custom_encode appends '!'
    ('C13Raises', False, ['ok', 'xbad']),                  # custom_decode raises on genomes starting with x
    ('C13NoEncode', False, ['a']),                         # custom_encode not implemented
    ('C13Impure', False, ['a']),                           # custom_decode returns a placeholder
]
EVO_INITIAL = {'x': 1, 'y': [1, 2]}


def evo_transform(location, value, parent):   # node_transform of the evolvable value (module level: serialisable)
  if isinstance(value, int):
    return value + 1
  return value


def json_to_tmpl(j):
  if j is None:
    return ['const', ['none']]
  if isinstance(j, int):
    return ['const', ['int', j]]
  if isinstance(j, str):
    return ['const', ['str', j]]
  if isinstance(j, list):
    return ['list', [json_to_tmpl(x) for x in j]]
  return ['dict', list(j.keys()), [json_to_tmpl(x) for x in j.values()]]


def hook_value(cid, g):
  """What the hook decodes genome `g` to (JSON value form), harness-side mirror."""
  if cid == 1:
    return ['list', [['const', ['int', int(x)]] for x in g.split(',') if x]]
  if cid == 2:
    return json_to_tmpl(json.loads(g))
  if cid == 6:
    return ['choice', 9000, True, 1, [['const', ['int', 1]], ['const', ['int', 2]]], True, False]
  return ['const', ['str', g]]


def custom_cids(t, acc=None):
  acc = set() if acc is None else acc
  k = t[0]
  if k in ('dict', 'list', 'obj'):
    for c in t[-1]:
      custom_cids(c, acc)
  elif k == 'choice':
    for c in t[4]:
      custom_cids(c, acc)
  elif k == 'custom':
    acc.add(t[2])
  return acc


def is_active(t, W):
  return W is None or t[1] in W


def prims(t, W):
  """Active top-level placeholders in traversal order (mirror of `_parse_generators`)."""
  k = t[0]
  if k in ('const', 'ref'):
    return []
  if k in ('dict', 'list', 'obj'):
    return [p for c in t[-1] for p in prims(c, W)]
  if k == 'choice':
    return [t] if is_active(t, W) else [p for c in t[4] for p in prims(c, W)]
  if k in ('floatv', 'custom'):
    return [t] if is_active(t, W) else []
  raise AssertionError(t)


def all_tags(t, acc=None):
  acc = [] if acc is None else acc
  k = t[0]
  if k in ('dict', 'list', 'obj'):
    for c in t[-1]:
      all_tags(c, acc)
  elif k == 'choice':
    acc.append(t[1])
    for c in t[4]:
      all_tags(c, acc)
  elif k in ('floatv', 'custom'):
    acc.append(t[1])
  return acc


def norm(value, children):
  """DNA.__init__ normalisation (geno/base.py:587-600)."""
  if len(children) == 1 and children[0][0] is None:
    children = children[0][1]
  if value is None and len(children) == 1:
    return [children[0][0], children[0][1]]
  return [value, list(children)]


def renorm(d):
  return norm(d[0], [renorm(c) for c in d[1]])


def num_le(a, b):
  return a[0] * (1 << b[1]) <= b[0] * (1 << a[1])


def to_float(m, e):
  return m / (1 << e)


def of_float(x):
  m, den = float(x).as_integer_ratio()
  return [m, den.bit_length() - 1]


def size_of_prims(ps, W, cap=10 ** 9):
  """Space size (None = infinite), counting admissible index sequences directly."""
  total = 1
  for p in ps:
    s = size_of_prim(p, W, cap)
    if s is None:
      return None
    total = min(cap, total * s)
  return total


def size_of_prim(p, W, cap):
  if p[0] in ('floatv', 'custom'):
    return None
  _, _, _, k, cands, distinct, sorted_ = p
  ss = [size_of_prims(prims(c, W), W, cap) for c in cands]
  if any(s is None for s in ss):
    return None

  def rec(r, prior):
    if r == 0:
      return 1
    tot = 0
    for i in range(len(ss)):
      if distinct and i in prior:
        continue
      if sorted_ and prior and prior[-1] > i:
        continue
      tot += ss[i] * rec(r - 1, prior + [i])
    return min(cap, tot)
  return rec(k, [])


class _Extreme:
  """Stands in for the PRNG: every float at its lower (0) / upper (1) bound, first / last candidates."""

  def __init__(self, end):
    self.end = end

  def below(self, n):
    return (n - 1) if self.end else 0

  def sample(self, xs, k):
    return xs[-k:] if self.end else xs[:k]


def rand_space_dna(ps, W, rng):
  return norm(None, [rand_prim_dna(p, W, rng) for p in ps])


def rand_prim_dna(p, W, rng):
  if p[0] == 'custom':
    gs = HOOKS[p[2]][2]
    return [['s', gs[rng.below(len(gs))]], []]
  if p[0] == 'floatv':
    lo, hi = to_float(*p[2]), to_float(*p[3])
    c = rng.below(5) if not isinstance(rng, _Extreme) else rng.end
    x = lo if c == 0 else hi if c == 1 else lo + (hi - lo) * (rng.below(1000) / 1000.0)
    x = min(max(x, lo), hi)
    return [['f'] + of_float(x), []]
  _, _, _, k, cands, distinct, sorted_ = p
  n = len(cands)
  if distinct:
    idx = rng.sample(list(range(n)), k)
  else:
    idx = [rng.below(n) for _ in range(k)]
  if sorted_:
    idx = sorted(idx)
  subs = [norm(['i', i], [rand_space_dna(prims(cands[i], W), W, rng)]) for i in idx]
  if k == 1:
    return subs[0]
  return norm(None, subs)


def dna_nodes(d, path=()):
  yield path, d
  for i, c in enumerate(d[1]):
    yield from dna_nodes(c, path + (i,))


def dna_replace(d, path, fn):
  if not path:
    return fn(d)
  cs = list(d[1])
  cs[path[0]] = dna_replace(cs[path[0]], path[1:], fn)
  return [d[0], cs]


def mutate_dna(d, rng):
  """A (probably) invalid DNA next to a valid one."""
  nodes = list(dna_nodes(d))
  path, node = rng.choice(nodes)
  op = rng.below(8)

  def fn(x):
    v, cs = x
    if op == 7 and v is None and len(cs) >= 2:
      return [['i', rng.randint(0, 5)], cs]                 # stray value on a node that hands its children on (F85)
    if op == 0 and v is not None and v[0] == 'i':
      return [['i', v[1] + rng.randint(1, 4)], cs]          # index (maybe) out of range / duplicate
    if op == 1 and cs:
      return [v, cs[:-1]]                                   # a child dropped
    if op == 2:
      return [v, cs + [[['i', 0], []]]]                     # an extra child
    if op == 3 and v is not None and v[0] == 'f':
      return [['f'] + of_float(to_float(v[1], v[2]) + rng.choice([-1000.0, 1000.0])), cs]
    if op == 4 and v is not None:
      return [(['f', 1, 1] if v[0] == 'i' else ['i', 0]), cs]  # wrong value type
    if op == 5 and len(cs) >= 2:
      return [v, [cs[1], cs[0]] + cs[2:]]                   # order swapped (sorted / per-position)
    if op == 6 and len(cs) >= 2:
      return [v, [cs[0], cs[0]] + cs[2:]]                   # duplicate (distinct)
    return [v, cs + [[['f', 1, 1], []]]]
  return renorm(dna_replace(d, path, fn))


def rand_value(t, W, rng, perturb):
  """A value the template can (probably) encode; with `perturb`, (probably) cannot."""
  k = t[0]
  if k == 'ref':
    return t

  def hit():
    return perturb and rng.chance(0.15)
  if k == 'const':
    if hit():
      return ['const', rng.choice([['int', 777], ['str', 'zz'], ['none'], ['flt', 1555, 1]])]
    return t
  if k in ('dict', 'list', 'obj'):
    kids = [rand_value(c, W, rng, perturb) for c in t[-1]]
    if hit() and k == 'list':
      kids = kids[:-1] if kids and rng.chance(0.5) else kids + [['const', ['int', 5]]]
      return ['list', kids]
    if hit():
      return ['const', ['int', 3]]
    return t[:-1] + [kids]
  if k == 'custom':
    if not is_active(t, W):
      return t
    gs = HOOKS[t[2]][2]
    if hit():
      return ['const', ['int', 42]]
    return hook_value(t[2], gs[rng.below(len(gs))])
  if k == 'floatv':
    if not is_active(t, W):
      return t
    lo, hi = to_float(*t[2]), to_float(*t[3])
    if hit():
      return ['const', rng.choice([['flt'] + of_float(hi + 5.5), ['int', 1], ['str', 'f']])]
    return ['const', ['flt'] + of_float(min(max(lo + (hi - lo) * (rng.below(8) / 8.0), lo), hi))]
  if k == 'choice':
    _, tag, one, kk, cands, distinct, sorted_ = t
    if not is_active(t, W):
      return [k, tag, one, kk, [rand_value(c, W, rng, perturb) for c in cands], distinct, sorted_]
    if one:
      return rand_value(rng.choice(cands), W, rng, perturb)
    n = kk
    if hit():
      n = max(0, kk + rng.choice([-1, 1]))
    # encode does not check distinct / sorted: sample freely
    return ['list', [rand_value(rng.choice(cands), W, rng, perturb) for _ in range(n)]]
  raise AssertionError(t)


# -- head-level distinguishability (mirror of `headDistinct` in lean/PgModel/Hyper.lean) ------

def atom_num(a):
  if a[0] == 'int':
    return [a[1], 0]
  if a[0] == 'flt':
    return [a[1], a[2]]
  return None


def py_eq(a, b):
  na, nb = atom_num(a), atom_num(b)
  if na is not None and nb is not None:
    return num_le(na, nb) and num_le(nb, na)
  return a == b


def label_of(t):
  if t[0] == 'dict':
    return ['dict', t[1]]
  if t[0] == 'list':
    return ['list']
  return ['obj', t[1], t[2]]


def heads(t, W):
  k = t[0]
  if k == 'ref':
    return [['any']]
  if k == 'const':
    return [['atom', t[1]]]
  if k in ('dict', 'list', 'obj'):
    return [['node', label_of(t), len(t[-1])]]
  if k == 'floatv':
    return [['float', t[2], t[3]]] if is_active(t, W) else [['inactive', t[1]]]
  if k == 'custom':
    return [['any']] if is_active(t, W) else [['inactive', t[1]]]
  if not is_active(t, W):
    return [['inactive', t[1]]]
  if t[2]:
    return [h for c in t[4] for h in heads(c, W)]
  return [['node', ['list'], t[3]]]


def match_head(t, h, W):
  """Could template `t` encode a value whose head is `h`? (over-approximation)"""
  k = t[0]
  if k == 'ref':
    return True
  if k == 'custom':
    return True if is_active(t, W) else h in (['inactive', t[1]], ['any'])
  if h == ['any']:
    if k == 'choice' and is_active(t, W) and t[2]:
      return any(match_head(c, h, W) for c in t[4])
    return True
  if k == 'const':
    if h[0] == 'atom':
      return py_eq(t[1], h[1])
    if h[0] == 'float':
      n = atom_num(t[1])
      return n is not None and num_le(h[1], n) and num_le(n, h[2])
    return False
  if k in ('dict', 'list', 'obj'):
    return h[0] == 'node' and h[1] == label_of(t) and h[2] == len(t[-1])
  if k == 'floatv':
    if not is_active(t, W):
      return h == ['inactive', t[1]]
    if h[0] == 'atom':
      return h[1][0] == 'flt' and num_le(t[2], [h[1][1], h[1][2]]) and num_le([h[1][1], h[1][2]], t[3])
    if h[0] == 'float':
      return num_le(t[2], h[2]) and num_le(h[1], t[3])
    return False
  if not is_active(t, W):
    return h == ['inactive', t[1]]
  if t[2]:
    return any(match_head(c, h, W) for c in t[4])
  return h[0] == 'node' and h[1] == ['list'] and h[2] == t[3]


def head_distinct(t, W):
  """No earlier candidate of an active choice matches a head of a later one, recursively."""
  k = t[0]
  if k in ('const', 'floatv', 'custom', 'ref'):
    return True
  if k in ('dict', 'list', 'obj'):
    return all(head_distinct(c, W) for c in t[-1])
  cands = t[4]
  if not all(head_distinct(c, W) for c in cands):
    return False
  if not is_active(t, W):
    return True
  for i in range(len(cands)):
    for j in range(i):
      if any(match_head(cands[j], h, W) for h in heads(cands[i], W)):
        return False
  return True


def shape_ok(t, v, W):
  """The shape the template prescribes (mirror of `shapeT`)."""
  k = t[0]
  if k == 'ref':
    return not has_ref(v)            # a reference is replaced by the (decoded) value it points to
  if k == 'const':
    return v == t
  if k in ('dict', 'list', 'obj'):
    return (v[0] == k and v[:-1] == t[:-1] and len(v[-1]) == len(t[-1])
            and all(shape_ok(a, b, W) for a, b in zip(t[-1], v[-1])))
  if k == 'floatv':
    if not is_active(t, W):
      return v == t
    return (v[0] == 'const' and v[1][0] == 'flt'
            and num_le(t[2], v[1][1:]) and num_le(v[1][1:], t[3]))
  if k == 'custom':
    if not is_active(t, W):
      return v == t
    return not all_tags(v)                       # an opaque value without placeholders
  _, tag, one, kk, cands, distinct, sorted_ = t
  if not is_active(t, W):
    return (v[0] == 'choice' and v[1:4] == t[1:4] and v[5:] == t[5:] and len(v[4]) == len(cands)
            and all(shape_ok(a, b, W) for a, b in zip(cands, v[4])))
  if one:
    return any(shape_ok(c, v, W) for c in cands)
  return (v[0] == 'list' and len(v[1]) == kk
          and all(any(shape_ok(c, x, W) for c in cands) for x in v[1]))


def in_hook_range(ps, W, d):
  """For a DNA that `validate` accepts for the decision points `ps`: every custom node is a childless genome
  of its own hook's range (the model's `validG W.dom`)."""
  if len(ps) == 0:
    return True
  ds = [d] if len(ps) == 1 else d[1]
  if len(ds) != len(ps):
    return False
  return all(in_hook_range_prim(p, W, x) for p, x in zip(ps, ds))


def in_hook_range_prim(p, W, d):
  v, cs = d
  if p[0] == 'custom':
    return v is not None and v[0] == 's' and not cs and v[1] in HOOKS[p[2]][2]
  if p[0] == 'floatv':
    return True
  cands, k = p[4], p[3]
  subs = [d] if k == 1 else cs
  for sd in subs:
    if sd[0] is None or sd[0][0] != 'i' or sd[0][1] >= len(cands):
      return False
    if not in_hook_range(prims(cands[sd[0][1]], W), W, norm(None, sd[1])):
      return False
  return True


def has_ref(t):
  k = t[0]
  if k == 'ref':
    return True
  if k in ('dict', 'list', 'obj'):
    return any(has_ref(c) for c in t[-1])
  if k == 'choice':
    return any(has_ref(c) for c in t[4])
  return False


def first_diff(a, b):
  """The values at the first node (pre-order) where two DNAs differ, or None."""
  if a[0] != b[0]:
    return a[0], b[0]
  for x, y in zip(a[1], b[1]):
    d = first_diff(x, y)
    if d:
      return d
  if len(a[1]) != len(b[1]):
    return ('children', len(a[1])), ('children', len(b[1]))
  return None


def placeholders_left(v, W):
  """Tags of active placeholders anywhere in a decoded value."""
  return [tag for tag in all_tags(v) if W is None or tag in W]


# ------------------------------------------------------------------------------------------
# Template generator
# ------------------------------------------------------------------------------------------

class TmplGen:
  def __init__(self, rng, sloppy_types=False, ambiguous=False):
    self.rng = rng
    self.tag = 0
    self.uid = 0
    self.sloppy = sloppy_types
    self.ambiguous = ambiguous

  def fresh_tag(self):
    self.tag += 1
    return self.tag

  def fresh(self):
    self.uid += 1
    return self.uid

  def const(self, ty):
    r = self.rng
    if self.ambiguous and r.chance(0.5):
      u = r.randint(1, 2)           # small pool: collisions between candidates
    else:
      u = self.fresh()
    if ty == 'int':
      return ['const', ['int', u]]
    if ty == 'float':
      return ['const', ['flt', 2 * u + 1, 1]]      # u + 0.5
    if ty == 'str':
      return ['const', ['str', 's%d' % u]]
    k = r.below(10)
    if k < 5:
      return ['const', ['int', u]]
    if k < 8:
      return ['const', ['str', 's%d' % u]]
    if k == 8:
      return ['const', ['flt', 2 * u + 1, 1]]
    return ['const', ['none']]

  def floatv(self):
    r = self.rng
    if self.ambiguous and r.chance(0.5):
      lo = r.randint(0, 2)
    else:
      lo = 3 * self.fresh()
    width = r.choice([0, 1, 1, 2])
    if r.chance(0.2):
      return ['floatv', self.fresh_tag(), of_float(lo + 0.1), of_float(lo + 0.1 + width * 0.7)]
    return ['floatv', self.fresh_tag(), [lo, 0], [lo + width, 0]]

  def sized_list(self, depth, ty):
    """A (mostly) admissible template for a size-constrained List(Int) field; ~8 % have a manyof whose number
    of choices does not fit (must be rejected when the template is constructed)."""
    r = self.rng
    lo, hi = SIZES[ty]
    ok_sizes = [n for n in range(0, 4) if n >= lo and (hi is None or n <= hi)]
    bad_sizes = [n for n in range(1, 4) if n not in ok_sizes]
    straddle = r.chance(0.08)
    if depth > 0 and r.chance(0.25):
      return self.choice(depth, ty, True)
    ints = lambda n: [self.const('int') for _ in range(n)]
    sizes = [n for n in (bad_sizes if straddle else ok_sizes) if n >= 1]
    if depth > 0 and sizes and r.chance(0.6):
      k = r.choice(sizes)
      distinct = r.chance(0.5)
      return ['choice', self.fresh_tag(), False, k, ints(max(k, r.randint(2, 3)) if distinct else r.randint(2, 3)),
              distinct, r.chance(0.5)]
    return ['list', ints(r.choice(ok_sizes))]

  def bounded(self, depth, ty):
    """A (mostly) admissible template for a numeric field whose bound is exactly zero; ~12 % straddle
    the bound (must be rejected when the template is constructed)."""
    r = self.rng
    base, lo, _ = BOUNDS[ty]
    sign = 1 if lo == 0 else -1
    straddle = r.chance(0.05)
    if depth > 0 and r.chance(0.3):
      return self.choice(depth, ty, True)
    u = self.fresh()
    if base == 'int':
      if straddle:
        return ['const', ['int', -sign * u]]
      return ['const', ['int', 0 if r.chance(0.25) else sign * u]]
    k = r.below(10)
    w = r.choice([0, 1, 1, 2])
    if k < 6:
      if straddle:
        if sign > 0:
          a, b = -r.choice([0.5, 1.0, 3.0]), r.choice([0.0, 0.5, 2.0])
        else:
          a, b = -r.choice([0.0, 0.5, 2.0]), r.choice([0.5, 1.0, 3.0])
        return ['floatv', self.fresh_tag(), of_float(a), of_float(b)]
      if r.chance(0.35):
        a, b = (0, w) if sign > 0 else (-w, 0)              # touches the bound
      else:
        a, b = (3 * u, 3 * u + w) if sign > 0 else (-3 * u - w, -3 * u)
      return ['floatv', self.fresh_tag(), of_float(float(a)), of_float(float(b))]
    if straddle:
      return ['const', ['flt'] + of_float(-sign * (u + 0.5))]
    return ['const', ['flt'] + of_float(0.0 if r.chance(0.25) else sign * (u + 0.5))]

  def choice(self, depth, ty, one):
    r = self.rng
    n = r.randint(1, 4) if r.chance(0.15) else r.randint(2, 4)
    cand_ty = ty
    if not one:
      cand_ty = 'int' if ty.startswith('list_int') else 'any'
    self.in_choice = getattr(self, 'in_choice', 0) + 1
    cands = [self.gen(depth - 1, cand_ty, in_cand=True) for _ in range(n)]
    self.in_choice -= 1
    if cand_ty == 'any' and r.chance(0.3):
      # a twin candidate: same fields and content, other class (A <-> D)
      for c in list(cands):
        if c[0] == 'obj' and c[1] in FAMILY and not all_tags(c):
          # same fields and content, another class of the family (base before / after a subclass, siblings)
          for other in r.sample([x for x in FAMILY if x != c[1]], r.randint(1, 2)):
            cands.insert(r.below(len(cands) + 1), ['obj', other] + c[2:])
          break
    if cand_ty == 'any' and r.chance(0.25):
      # dict candidates whose key sets are subsets of each other ({'a': 1} before / after {'a': 1, 'b': 2}):
      # a dict candidate must not match a value that has additional keys
      sup = None
      for c in cands:
        if c[0] == 'dict' and len(c[1]) >= 2 and not all_tags(c):
          sup = c
          break
      if sup is None:
        k0, k1 = self.const('any'), self.const('any')
        sup = ['dict', ['a0', 'a1'], [k0, k1]]
        cands.insert(r.below(len(cands) + 1), sup)
      n_keep = r.randint(1, len(sup[1]) - 1)
      sub = ['dict', sup[1][:n_keep], sup[2][:n_keep]]
      at = cands.index(sup)
      cands.insert(at if r.chance(0.7) else at + 1, sub)      # mostly *before* its superset
    if one:
      return ['choice', self.fresh_tag(), True, 1, cands, True, False]
    distinct, sorted_ = r.chance(0.5), r.chance(0.5)
    k = r.randint(1, min(3, n)) if distinct else r.randint(1, 3)
    return ['choice', self.fresh_tag(), False, k, cands, distinct, sorted_]

  def gen(self, depth, ty='any', in_cand=False):
    r = self.rng
    if self.sloppy and ty != 'any' and r.chance(0.3):
      ty = 'any'                                   # (probably) ill-typed: binding-time validation
    if ty in BOUNDS:
      return self.bounded(depth, ty)
    if ty in SIZES:
      return self.sized_list(depth, ty)
    if ty in ('int', 'str'):
      if depth > 0 and r.chance(0.45):
        return self.choice(depth, ty, True)
      return self.const(ty)
    if ty == 'float':
      k = r.below(10)
      if depth > 0 and k < 3:
        return self.choice(depth, ty, True)
      if k < 7:
        return self.floatv()
      return self.const('float')
    if ty == 'list_int':
      k = r.below(10)
      if depth > 0 and k < 4:
        return self.choice(depth, ty, False)
      if depth > 0 and k < 6:
        return self.choice(depth, ty, True)
      return ['list', [self.gen(depth - 1, 'int') for _ in range(r.randint(0, 3))]]
    # any
    if depth <= 0:
      return self.floatv() if r.chance(0.07) else self.const('any')
    k = r.weighted([(3, 'const'), (3, 'dict'), (2, 'list'), (2, 'A'), (1, 'B'), (1, 'C'), (1, 'D'), (2, 'E'),
                    (1, 'F'), (2, 'G'), (2, 'H'), (1, 'L'), (1, 'M'), (5, 'oneof'), (3, 'manyof'), (1, 'floatv'), (2, 'custom')])
    if k == 'const':
      return self.const('any')
    if k == 'custom':
      # a CustomHyper subclass / pg.evolve value; ~15 % of them ill-behaved (contract-violating hooks)
      cid = r.choice([3, 4, 5, 6]) if r.chance(0.15) else r.choice([0, 0, 1, 1, 2])
      if cid == 2 and getattr(self, 'in_choice', 0):
        cid = 0      # pg.evolve encodes *any* JSON-able value (floats as repr): kept out of candidate lists,
                     # where values of sibling candidates are offered to it
      return ['custom', self.fresh_tag(), cid]
    if k == 'floatv':
      return self.floatv()
    if k == 'oneof':
      return self.choice(depth, 'any', True)
    if k == 'manyof':
      return self.choice(depth, 'any', False)
    if k == 'dict':
      n = r.randint(0, 3)
      base = r.choice(['a', 'k', 'x']) if in_cand else 'k'
      keys = ['%s%d' % (base, i) for i in range(n)]
      return ['dict', keys, [self.gen(depth - 1) for _ in keys]]
    if k == 'list':
      return ['list', [self.gen(depth - 1) for _ in range(r.randint(0, 3))]]
    ci = 'ABCDEFGHLM'.index(k)
    fields = CLASSES[ci][1]
    return ['obj', ci, [f for f, _ in fields], [self.gen(depth - 1, fty) for _, fty in fields]]

  def top(self):
    r = self.rng
    depth = r.weighted([(2, 1), (5, 2), (4, 3), (1, 4)])
    k = r.below(10)
    if k < 5:
      n = r.randint(1, 3)
      t = ['dict', ['f%d' % i for i in range(n)], [self.gen(depth) for _ in range(n)]]
    elif k < 6:
      t = ['list', [self.gen(depth) for _ in range(r.randint(1, 3))]]
    elif k < 8:
      ci = r.below(10)
      fields = CLASSES[ci][1]
      t = ['obj', ci, [f for f, _ in fields], [self.gen(depth, fty) for _, fty in fields]]
    else:
      t = self.choice(max(depth, 1), 'any', r.chance(0.6))      # a placeholder at the root
    return t


def int_in_float_slot(t, ty='any'):
  """An int constant sits where a Float field will convert it to float (directly or as a candidate):
  the JSON form would no longer describe what pyglove holds."""
  k = t[0]
  if k == 'const':
    return ty.startswith('float') and t[1][0] == 'int'
  if k == 'obj':
    return any(int_in_float_slot(c, fty) for c, (_, fty) in zip(t[3], CLASSES[t[1]][1]))
  if k in ('dict', 'list'):
    return any(int_in_float_slot(c) for c in t[-1])
  if k == 'choice':
    return any(int_in_float_slot(c, ty if t[2] else 'any') for c in t[4])
  return False


def custom_in_typed_slot(t, ty='any'):
  """A custom hyper is bound to a typed field (directly or as a candidate): `CustomHyper.custom_apply`
  cannot validate an opaque hook, so what the hook returns must fit the field — the user's obligation."""
  k = t[0]
  if k == 'custom':
    return ty != 'any'
  if k == 'obj':
    return any(custom_in_typed_slot(c, fty) for c, (_, fty) in zip(t[3], CLASSES[t[1]][1]))
  if k in ('dict', 'list'):
    return any(custom_in_typed_slot(c, 'int' if ty.startswith('list_int') and k == 'list' else 'any') for c in t[-1])
  if k == 'choice':
    return any(custom_in_typed_slot(c, ty if t[2] else ('int' if ty.startswith('list_int') else 'any')) for c in t[4])
  return False


def tmpl_stats(t, acc, depth=0, in_cand=False):
  k = t[0]
  acc['depth'] = max(acc.get('depth', 0), depth)
  if k in ('dict', 'list', 'obj'):
    acc[k] = acc.get(k, 0) + 1
    for c in t[-1]:
      tmpl_stats(c, acc, depth + 1, in_cand)
  elif k == 'choice':
    name = 'oneof' if t[2] else 'manyof(d=%d,s=%d)' % (t[5], t[6])
    acc[name] = acc.get(name, 0) + 1
    if in_cand:
      acc['nested-placeholder'] = acc.get('nested-placeholder', 0) + 1
    for c in t[4]:
      tmpl_stats(c, acc, depth + 1, True)
  elif k == 'floatv':
    acc['floatv'] = acc.get('floatv', 0) + 1
    if in_cand:
      acc['nested-placeholder'] = acc.get('nested-placeholder', 0) + 1
  elif k == 'custom':
    name = 'custom:' + HOOKS[t[2]][0]
    acc[name] = acc.get(name, 0) + 1
    if in_cand:
      acc['nested-placeholder'] = acc.get('nested-placeholder', 0) + 1
  return acc


# ------------------------------------------------------------------------------------------
# pyglove side
# ------------------------------------------------------------------------------------------

_PG = {}


def _setup_pg():
  if _PG:
    return _PG
  import pyglove as pg
  specs = {'any': lambda: pg.typing.Any(), 'int': lambda: pg.typing.Int(),
           'float': lambda: pg.typing.Float(), 'str': lambda: pg.typing.Str(),
           'list_int': lambda: pg.typing.List(pg.typing.Int()),
           'float_ge0': lambda: pg.typing.Float(min_value=0.0), 'float_le0': lambda: pg.typing.Float(max_value=0.0),
           'int_ge0': lambda: pg.typing.Int(min_value=0), 'int_le0': lambda: pg.typing.Int(max_value=0),
           'list_int_max1': lambda: pg.typing.List(pg.typing.Int(), max_size=1),
           'list_int_min2': lambda: pg.typing.List(pg.typing.Int(), min_size=2)}
  classes = []
  for ci, (name, fields) in enumerate(CLASSES):
    body = {'__module__': 'harness.c13', '__qualname__': 'C13%s' % name}
    if ci in DERIVED:
      def _on_bound(self, _fields=[f for f, _ in fields]):
        pg.Object._on_bound(self)
        self._sig = derived_sig(self, _fields)        # state derived from the (current) field values
      body['_on_bound'] = _on_bound
    if ci in SYMBOLIZED:
      class _Plain:                     # a regular (non-PyGlove) class, e.g. from a third-party library
        def __init__(self, units, act):
          self.units = units
          self.act = act
      _Plain.__name__ = _Plain.__qualname__ = 'C13Plain%s' % name
      classes.append(pg.symbolize(_Plain))
      continue
    if ci in SUBCLASS_OF:
      classes.append(type('C13%s' % name, (classes[SUBCLASS_OF[ci]],), body))
      continue
    if ci in IDENTITY_EQ:
      body['use_symbolic_comparison'] = False
    cls = pg.members([(f, specs[ty]()) for f, ty in fields])(type('C13%s' % name, (pg.Object,), body))
    classes.append(cls)
  _PG.update(pg=pg, classes=classes)

  genomes = {name: gs for name, _, gs in HOOKS}

  class _Sweep(pg.hyper.CustomHyper):
    """first_dna / next_dna / random_dna hooks: sweep / sample the class's own genomes."""

    def next_dna(self, dna=None):
      gs = genomes[type(self).__name__]
      if dna is None:
        return pg.DNA(gs[0])
      i = gs.index(dna.value)
      return pg.DNA(gs[i + 1]) if i + 1 < len(gs) else None

    def random_dna(self, random_generator=None, previous_dna=None):
      import random as _random
      gs = genomes[type(self).__name__]
      return pg.DNA((random_generator or _random).choice(gs))

  class C13StrId(_Sweep):
    def custom_decode(self, dna):
      return dna.value

    def custom_encode(self, value):
      if not isinstance(value, str):
        raise ValueError('StrId encodes strings')
      return pg.DNA(value)

  class C13IntSeq(_Sweep):
    def custom_decode(self, dna):
      return [int(x) for x in dna.value.split(',') if x != '']

    def custom_encode(self, value):
      if not isinstance(value, list) or not all(isinstance(x, int) and not isinstance(x, bool) for x in value):
        raise ValueError('IntSeq encodes lists of ints')
      return pg.DNA(','.join(str(x) for x in value))

  class C13BadEnc(C13StrId):          # ill-behaved: encode is not the inverse of decode
    def custom_encode(self, value):
      if not isinstance(value, str):
        raise ValueError('BadEnc encodes strings')
      return pg.DNA(value + '!')

  class C13Raises(C13StrId):          # ill-behaved: decode raises on genomes of its own range
    def custom_decode(self, dna):
      if dna.value.startswith('x'):
        raise ValueError('bad genome')
      return dna.value

  class C13NoEncode(_Sweep):          # ill-behaved (for the inverse law): no custom_encode at all
    def custom_decode(self, dna):
      return dna.value

  class C13Impure(_Sweep):            # ill-behaved: decode returns a placeholder
    def custom_decode(self, dna):
      return pg.oneof([1, 2], hints=9000)

    def custom_encode(self, value):
      return pg.DNA('a')

  hook_classes = [C13StrId, C13IntSeq, None, C13BadEnc, C13Raises, C13NoEncode, C13Impure]
  _PG.update(hook_classes=hook_classes)
  return _PG


def make_custom(tag, cid):
  P = _setup_pg()
  pg = P['pg']
  if cid == 2:
    return pg.evolve(pg.Dict(x=1, y=pg.List([1, 2])), evo_transform, hints=tag)
  return P['hook_classes'][cid](hints=tag)


def custom_cid(v):
  """cid of a custom hyper object (None if `v` is none)."""
  P = _setup_pg()
  pg = P['pg']
  if isinstance(v, pg.hyper.Evolvable):
    return 2
  for cid, cls in enumerate(P['hook_classes']):
    if cls is not None and type(v) is cls:
      return cid
  return None


def hook_contract(cid):
  """Which clauses of the hooks' contract (HooksLawful / HooksPlain in lean/PgModel/HyperSpec.lean)
  the custom hyper `cid` violates on its own genomes, evaluated on the hooks alone."""
  P = _setup_pg()
  pg = P['pg']
  h = make_custom(1, cid)
  bad = []
  for g in HOOKS[cid][2]:
    try:
      v = h.custom_decode(pg.DNA(g))
    except Exception:            # pylint: disable=broad-except
      _no_timeout()
      bad.append('decode-raises')
      continue
    try:
      vj = of_pg(v)
      if all_tags(vj):
        bad.append('decode-returns-placeholder')
      v2 = h.custom_decode(pg.DNA(g))
      if of_pg(v2) != vj:
        bad.append('decode-not-deterministic')
    except Unrepresentable:
      pass
    try:
      d = h.custom_encode(v)
      if not (isinstance(d, pg.DNA) and d.value == g and not d.children):
        bad.append('encode-not-inverse')
    except Exception:            # pylint: disable=broad-except
      _no_timeout()
      bad.append('encode-raises')
  return sorted(set(bad))


def derived_sig(obj, fields):
  pg = _PG['pg'] if _PG else __import__('pyglove')
  return '/'.join(pg.format(obj.sym_getattr(f), compact=True) for f in fields)


def stale_derived(v, path=''):
  """Paths of objects whose `_on_bound`-derived state does not reflect their current fields."""
  P = _setup_pg()
  pg = P['pg']
  out = []
  if isinstance(v, pg.Object):
    for ci in DERIVED:
      if type(v) is P['classes'][ci]:
        if v._sig != derived_sig(v, [f for f, _ in CLASSES[ci][1]]):
          out.append(path or '<root>')
    for k, x in v.sym_items():
      out += stale_derived(x, '%s.%s' % (path, k))
  elif isinstance(v, dict):
    for k, x in (v.sym_items() if isinstance(v, pg.Dict) else v.items()):
      out += stale_derived(x, '%s.%s' % (path, k))
  elif isinstance(v, list):
    for i, x in enumerate(v):
      out += stale_derived(x, '%s[%d]' % (path, i))
  return out


def edit_in_place(x):
  """Overwrites every leaf it is allowed to overwrite (in place); returns the number of edits."""
  pg = _setup_pg()['pg']
  n = 0
  if isinstance(x, pg.hyper.HyperValue):
    return 0
  if isinstance(x, list):
    items = list(enumerate(x))
  elif isinstance(x, pg.Symbolic):
    items = list(x.sym_items())
  elif isinstance(x, dict):
    items = list(x.items())
  else:
    return 0
  for k, c in items:
    if isinstance(c, (pg.Symbolic, list, dict)) and not isinstance(c, pg.hyper.HyperValue):
      n += edit_in_place(c)
    else:
      try:
        if isinstance(x, pg.Symbolic):
          x.rebind({k: 'EDITED'}, raise_on_no_change=False)
        else:
          x[k] = 'EDITED'
        n += 1
      except Exception:          # pylint: disable=broad-except
        _no_timeout()            # (typed field: the edit is refused)
  return n


def atom_to_py(a):
  if a[0] == 'none':
    return None
  if a[0] == 'int':
    return a[1]
  if a[0] == 'str':
    return a[1]
  return to_float(a[1], a[2])


def to_pg(t, root=True, memo=None):
  """JSON template / value -> pyglove value. `memo` (tag -> placeholder object) makes a second call hand the
  *same* placeholder objects to freshly built containers (binding histories on one placeholder object)."""
  P = _setup_pg()
  pg = P['pg']
  k = t[0]
  if k == 'const':
    return atom_to_py(t[1])
  if k == 'dict':
    return pg.Dict({key: to_pg(c, False, memo) for key, c in zip(t[1], t[2])})
  if k == 'list':
    return pg.List([to_pg(c, False, memo) for c in t[1]])
  if k == 'obj':
    return P['classes'][t[1]](**{key: to_pg(c, False, memo) for key, c in zip(t[2], t[3])})
  if k == 'ref':
    return pg.hyper.reference(t[1])
  if memo is not None and t[1] in memo:
    return memo[t[1]]
  if k == 'floatv':
    ph = pg.floatv(to_float(*t[2]), to_float(*t[3]), hints=t[1])
  elif k == 'custom':
    ph = make_custom(t[1], t[2])
  else:
    _, tag, one, kk, cands, distinct, sorted_ = t
    cs = [to_pg(c, False, memo) for c in cands]
    if one:
      ph = pg.oneof(cs, hints=tag)
    else:
      ph = pg.manyof(kk, cs, distinct=distinct, sorted=sorted_, hints=tag)
  if memo is not None:
    memo[t[1]] = ph
  return ph


class Unrepresentable(Exception):
  pass


def of_pg(v):
  """pyglove value -> JSON template / value."""
  P = _setup_pg()
  pg = P['pg']
  if v is None:
    return ['const', ['none']]
  if isinstance(v, bool):
    raise Unrepresentable('bool')
  if isinstance(v, int):
    return ['const', ['int', v]]
  if isinstance(v, float):
    return ['const', ['flt'] + of_float(v)]
  if isinstance(v, str):
    return ['const', ['str', v]]
  if isinstance(v, pg.hyper.OneOf):
    return ['choice', v.hints, True, 1, [of_pg(c) for c in v.candidates], v.choices_distinct, v.choices_sorted]
  if isinstance(v, pg.hyper.ManyOf):
    return ['choice', v.hints, False, v.num_choices, [of_pg(c) for c in v.candidates],
            v.choices_distinct, v.choices_sorted]
  if isinstance(v, pg.hyper.Float):
    return ['floatv', v.hints, of_float(v.min_value), of_float(v.max_value)]
  if isinstance(v, pg.hyper.ValueReference):
    return ['ref', str(v.reference_paths[0])]
  if isinstance(v, pg.hyper.CustomHyper):
    cid = custom_cid(v)
    if cid is None:
      raise Unrepresentable(type(v).__name__)
    return ['custom', v.hints, cid]
  if isinstance(v, dict):
    return ['dict', list(v.keys()), [of_pg(x) for x in v.values()]]
  if isinstance(v, list):
    return ['list', [of_pg(x) for x in v]]
  for i, cls in enumerate(P['classes']):
    if type(v) is cls:
      keys = list(v.sym_keys())
      return ['obj', i, keys, [of_pg(v.sym_getattr(key)) for key in keys]]
  raise Unrepresentable(type(v).__name__)


def dna_to_pg(d):
  pg = _setup_pg()['pg']
  v = d[0]
  value = None if v is None else (v[1] if v[0] in ('i', 's') else to_float(v[1], v[2]))
  return pg.DNA(value, [dna_to_pg(c) for c in d[1]])


def dna_of_pg(dna):
  v = dna.value
  if v is None:
    jv = None
  elif isinstance(v, float):
    jv = ['f'] + of_float(v)
  elif isinstance(v, int):
    jv = ['i', v]
  elif isinstance(v, str):
    jv = ['s', v]
  else:
    raise Unrepresentable('dna value %r' % (v,))
  return [jv, [dna_of_pg(c) for c in dna.children]]


def spec_of_pg(spec):
  pg = _setup_pg()['pg']
  if isinstance(spec, pg.geno.Space):
    return ['space', [spec_of_pg(e) for e in spec.elements]]
  if isinstance(spec, pg.geno.Choices):
    return ['choices', spec.num_choices, [spec_of_pg(c) for c in spec.candidates], spec.distinct, spec.sorted]
  if isinstance(spec, pg.geno.Float):
    return ['float', of_float(spec.min_value), of_float(spec.max_value)]
  if isinstance(spec, pg.geno.CustomDecisionPoint):
    names = [name for name, _, _ in HOOKS]
    if spec.hyper_type in names:
      return ['custom', names.index(spec.hyper_type)]
  raise Unrepresentable(type(spec).__name__)


def has_stray(spec, dna):
  """A *valid* DNA carries a value on a node whose children carry the decisions (F85)."""
  pg = _setup_pg()['pg']
  if isinstance(spec, pg.geno.Space):
    n = len(spec.elements)
    if n == 0:
      return False
    if n == 1:
      return has_stray(spec.elements[0], dna)
    return dna.value is not None or any(has_stray(e, c) for e, c in zip(spec.elements, dna.children))
  if isinstance(spec, pg.geno.Choices):
    if spec.num_choices == 1:
      return has_stray(spec.candidates[dna.value], pg.DNA(None, [c.clone(deep=True) for c in dna.children]))
    return dna.value is not None or any(
        has_stray(spec.candidates[c.value], pg.DNA(None, [x.clone(deep=True) for x in c.children]))
        for c in dna.children)
  return False


def _no_timeout():
  """Inside a broad `except`: the per-case watchdog's exception is never an implementation outcome."""
  import sys as _sys
  if isinstance(_sys.exc_info()[1], CaseTimeout):
    raise _sys.exc_info()[1]


def err_name(e):
  return type(e).__name__


ENUM_LIMIT_QUICK = 40
STAGE2_LIMIT = 200
ENUM_LIMIT_THOROUGH = 120


class C13(Prop):
  id = 'C13'
  props_modules = ['PgProps.C13']
  driver = 'drv_c13'
  translators = []
  case_timeout_s = 90
  jobs_quick = 4
  jobs_thorough = 6
  rule = ('templates generated from a typed grammar (dict / list / four pg.Object classes (two of them with identical fields) with Any, Int, '
          'Float, Str, List(Int) fields; oneof, manyof in all four distinct x sorted modes with k <= 3, floatv; '
          'placeholders nested inside candidates of other placeholders up to depth 4; at the root or inside '
          'containers), 25 % with a `where` filter on a random subset of placeholder tags, 12 % with '
          'deliberately ambiguous candidates, 8 % with sloppily typed fields (binding-time validation); DNAs: '
          'all of the space when it has <= 40 (quick) / 120 (thorough) points, else random valid ones, plus '
          'mutated (mostly invalid) DNAs; values for encode: sampled from the template and perturbed. '
          'Non-trivial: the template was constructed, has at least one active placeholder and at least one '
          'valid DNA was decoded; distinct: by the whole case.')
  trusted_base = [
      'correspondence harness harness/c13.py (JSON <-> pyglove conversion, its own scan / DNA normalisation / '
      'valid-DNA sampler, cross-checked against DNASpec.validate and the model on every case)',
      'modelled, not verified: ObjectTemplate scan/decode/encode, Choices/Float decode/encode, DNA '
      'normalisation, DNASpec.validate / space_size / sweep order (tied by correspondence only)',
      'not modelled: CustomHyper / evolvable user functions, DerivedValue, dynamic evaluation, value specs '
      '(typed fields are exercised on the real code: a constructed template must decode every valid DNA), '
      'bool atoms, NaN / inf, negative choice indices, dict values whose key order differs from the template',
  ]
  assumptions = ['DNA objects are built by DNA(value, children) (normal form NF)',
                 'placeholder `hints` carry unique tags; `where` only inspects `hints`']

  # -- generation -------------------------------------------------------------------------
  def make_case(self, rng, tier, t=None, W='auto', sloppy=False, ambiguous=False):
    if t is None:
      g = TmplGen(rng, sloppy_types=sloppy, ambiguous=ambiguous)
      t = g.top()
    tags = all_tags(t)
    if W == 'auto':
      W = None
      if tags and rng.chance(0.25):
        W = sorted(tag for tag in tags if rng.chance(0.6))
    ps = prims(t, W)
    size = size_of_prims(ps, W)
    limit = ENUM_LIMIT_QUICK if tier == 'quick' else ENUM_LIMIT_THOROUGH
    case = {'tmpl': t, 'where': W}
    if size is not None and size <= limit:
      case['dnas'] = 'all'
      extra = []
      if ps:
        for _ in range(2):
          extra.append(mutate_dna(rand_space_dna(ps, W, rng), rng))
      case['bad_dnas'] = extra
    else:
      ds = [rand_space_dna(ps, W, rng) for _ in range(6 if tier == 'quick' else 12)]
      ds += [rand_space_dna(ps, W, _Extreme(0)), rand_space_dna(ps, W, _Extreme(1))]   # all bounds touched
      ds += [mutate_dna(d, rng) for d in ds[:3]]
      case['dnas'] = ds
      case['bad_dnas'] = []
    # dynamic evaluation: the flat placeholders of the template, requested one after the other by a function
    flat = [q for q in prims(t, None) if q[0] != 'custom' and (q[0] == 'floatv' or not any(all_tags(c) for c in q[4]))]
    if flat:
      tl = ['list', flat]
      case['trace'] = flat
      case['trace_dna'] = rand_space_dna(prims(tl, W), W, rng)
    vals = [rand_value(t, W, rng, False) for _ in range(2)]
    vals += [rand_value(t, W, rng, True) for _ in range(3)]
    case['values'] = vals
    return case

  def ref_templates(self, rng):
    """Templates with `pg.hyper.reference` (derived values; oracle only, not in the Lean model)."""
    g = TmplGen(rng)

    def c():
      return g.const(rng.choice(['int', 'str']))
    one = lambda tag, cands: ['choice', tag, True, 1, cands, True, False]
    yield one(1, [['dict', ['a', 'b'], [c(), ['ref', 'a']]], c()])
    yield ['dict', ['z', 'w', 'r'], [one(1, [['dict', ['a', 'b'], [c(), ['ref', 'z.a']]], c()]), c(), ['ref', 'w']]]
    yield ['dict', ['x', 'y'], [one(1, [c(), c(), c()]), ['ref', 'x']]]
    yield ['list', [['choice', 1, False, 2, [c(), c(), c()], True, rng.chance(0.5)], ['ref', '[0]']]]
    yield ['dict', ['a', 'b'], [c(), ['ref', 'a']]]
    yield one(1, [['obj', 0, ['x', 'y'], [c(), ['ref', 'x']]], ['list', [c(), ['ref', '[0]']]], c()])

  def generate(self, rng, tier):
    n = 220 if tier == 'quick' else 1300
    for i in range(n):
      k = rng.below(100)
      yield self.make_case(rng.fork(), tier, sloppy=(k < 8), ambiguous=(8 <= k < 20))
    for rep in range(1 if tier == 'quick' else 6):
      for t in self.ref_templates(rng.fork()):
        yield {'tmpl': t, 'where': None, 'dnas': 'all', 'bad_dnas': [], 'values': []}
    # in-place edits of a candidate of an already bound oneof: well-typed ones must keep working
    for v in (['const', ['int', 7]], ['choice', 9, True, 1, [['const', ['int', 8]], ['const', ['int', 9]]], True, False]):
      yield {'tmpl': ['obj', 1, ['p', 'q', 'r'], [['choice', 1, True, 1, [['const', ['int', 1]], ['const', ['int', 2]]],
                                                  True, False], ['const', ['flt', 1, 1]], ['const', ['str', 's']]]],
             'where': None, 'dnas': 'all', 'bad_dnas': [], 'values': [],
             'edit': {'path': 'p.candidates[0]', 'value': v}}

  def model_request(self, case):
    if has_ref(case['tmpl']) or case.get('edit'):
      return None             # references (derived values) / in-place edits of the template: oracle only
    dnas = case['dnas']
    req = {'tmpl': case['tmpl'], 'where': case['where'], 'values': case.get('values', []),
           'stage2_limit': STAGE2_LIMIT, 'slots': bound_slots(case['tmpl'])}
    if case.get('trace'):
      req['trace'] = case['trace']
      req['trace_dna'] = case['trace_dna']
    if dnas == 'all':
      req['dnas'] = 'all'
      req['bad_dnas'] = case.get('bad_dnas', [])
    else:
      req['dnas'] = dnas
      req['bad_dnas'] = []
    return req

  # -- implementation ---------------------------------------------------------------------
  def impl(self, case):
    P = _setup_pg()
    pg = P['pg']
    W = case['where']
    where = None
    if W is not None:
      wset = set(W)
      where = lambda x: x.hints in wset
    memo = {}
    try:
      hv = to_pg(case['tmpl'], memo=memo)
    except (TypeError, ValueError, KeyError) as e:
      # A rejected binding, then a retry with the SAME placeholder objects (fresh containers): the second
      # attempt must be judged like a fresh one.
      first = err_name(e)
      try:
        to_pg(case['tmpl'], memo=memo)
      except (TypeError, ValueError, KeyError) as e2:
        return {'construct': first, 'retry': err_name(e2)}
      return {'construct': first, 'retry': 'accepted'}
    if custom_in_typed_slot(case['tmpl']):
      return {'construct': 'custom-in-typed-slot'}
    edited = None
    if case.get('edit'):
      # an in-place edit of the (already bound) template before it is used
      try:
        hv.rebind({case['edit']['path']: to_pg(case['edit']['value'])})
      except (TypeError, ValueError, KeyError) as e:
        return {'construct': 'edit-rejected:' + err_name(e)}
      edited = of_pg(hv)
    elif of_pg(hv) != case['tmpl'] or int_in_float_slot(case['tmpl']):
      # a typed field converted a constant (int -> float): the JSON no longer describes the value
      return {'construct': 'coerced'}
    obs = {'unchanged': True, 'notes': []}

    def snapshot():
      return pg.to_json_str(hv) + '|' + pg.format(hv, compact=True, python_format=False)
    before = snapshot()
    cids = sorted(custom_cids(case['tmpl']))
    obs['hook_violations'] = {HOOKS[c][0]: hook_contract(c) for c in cids if hook_contract(c)}
    obs['hook_sweeps_ok'] = all(self.hook_sweep_ok(c) for c in cids)

    def check_unchanged(what):
      if snapshot() != before:
        obs['unchanged'] = False
        obs['notes'].append('template changed by ' + what)

    t = pg.template(hv, where)
    spec = t.dna_spec()
    model = {'spec': spec_of_pg(spec), 'size': None if spec.space_size < 0 else spec.space_size,
             'count': len(t.hyper_primitives), 'head_distinct': head_distinct(case['tmpl'], W), 'wf': True,
             'dnas': [], 'values': []}
    if case['dnas'] == 'all':
      dnas = [d for d in spec.iter_dna()] if not t.is_constant else [pg.DNA(None)]
      dnas += [dna_to_pg(d) for d in case.get('bad_dnas', [])]
      n_all = len(dnas) - len(case.get('bad_dnas', []))
    else:
      dnas = [dna_to_pg(d) for d in case['dnas']]
      n_all = None
    per = []
    hist_budget = 2
    for dna in dnas:
      dna = dna.clone(deep=True)     # detached from any spec: what a caller would construct
      rec = {'dna': dna_of_pg(dna)}
      o = {}
      try:
        spec.validate(dna)
        rec['valid'] = True
      except ValueError:
        rec['valid'] = False
      rec['strict'] = rec['valid'] and not has_stray(spec, dna)
      try:
        v = t.decode(dna)
        check_unchanged('decode')
        rec['dec'] = ['ok', of_pg(v)]
        o['deterministic'] = bool(pg.is_deterministic(v))
        o['stale'] = stale_derived(v)
        fresh = to_pg(rec['dec'][1])              # the same value, constructed from scratch
        o['fresh_equal'] = bool(pg.eq(v, fresh)) and bool(pg.eq(fresh, v))
        if W is not None:
          rec['stage2'], o['stage2'] = self.stage2(v, rec['dec'][1], case['tmpl'])
        if rec['valid'] and hist_budget > 0:
          hist_budget -= 1
          o['history'] = self.history(t, hv, spec, dna, v, rec['dec'][1], snapshot, before)
        v2 = t.decode(dna)
        o['dec2_equal'] = bool(pg.eq(v, v2)) and of_pg(v2) == rec['dec'][1]
        try:
          m = pg.materialize(hv, dna, where=where)
          o['materialize_equal'] = bool(pg.eq(m, v))
        except Exception as e:     # pylint: disable=broad-except
          _no_timeout()
          o['materialize_equal'] = False
          o['materialize_error'] = err_name(e)
        check_unchanged('materialize')
        try:
          d2 = t.encode(v)
          rec['enc'] = ['ok', dna_of_pg(d2)]
          o['roundtrip'] = rec['enc'][1] == rec['dna']     # (DNA.__eq__ raises on shape mismatch)
        except Exception as e:     # pylint: disable=broad-except
          _no_timeout()
          rec['enc'] = ['err']
          o['enc_error'] = err_name(e)
          o['roundtrip'] = False
        check_unchanged('encode')
      except Exception as e:       # pylint: disable=broad-except
        _no_timeout()
        rec['dec'] = ['err']
        rec['enc'] = None
        rec.pop('stage2', None)
        o['dec_error'] = err_name(e)
        check_unchanged('failed decode')
      if W is not None:
        rec.setdefault('stage2', None)
      model['dnas'].append(rec)
      per.append(o)
    obs['per_dna'] = per
    for vj in case.get('values', []):
      rec = {}
      try:
        v = to_pg(vj)
        if of_pg(v) != vj:
          raise ValueError('coerced by a typed field')
      except (TypeError, ValueError, KeyError, Unrepresentable) as e:
        model['values'].append(None)      # value not constructible as described (typed object): skipped
        continue
      try:
        d = t.encode(v)
        rec['enc'] = ['ok', dna_of_pg(d)]
        try:
          spec.validate(d)
          rec['valid'] = True
        except ValueError:
          rec['valid'] = False
        try:
          rec['redec'] = ['ok', of_pg(t.decode(d))]
        except Exception:          # pylint: disable=broad-except
          _no_timeout()
          rec['redec'] = ['err']
      except Exception as e:       # pylint: disable=broad-except
        _no_timeout()
        rec = {'enc': ['err'], 'valid': None, 'redec': None}
        obs.setdefault('value_errors', []).append(err_name(e))
      check_unchanged('encode(value)')
      model['values'].append(rec)
    # pg.iter over the whole (finite, small) space
    if n_all is not None and not t.is_constant:
      try:
        it = list(pg.iter(hv, where=where))
        check_unchanged('iter')
        obs['iter_count'] = len(it)
        obs['iter'] = [of_pg(x) for x in it]
        dup = None
        for i in range(len(it)):
          for j in range(i):
            if not pg.ne(it[i], it[j]):
              dup = [j, i]
              break
          if dup:
            break
        obs['iter_duplicate'] = dup
      except Exception as e:       # pylint: disable=broad-except
        _no_timeout()
        obs['iter_error'] = err_name(e)
    obs['n_all'] = n_all
    obs['rebind_problems'] = self.bind_history(edited if edited is not None else case['tmpl'], hv)
    obs['rebind_over_rejected'] = self._over_rejected
    if edited is not None:
      obs['edited_tmpl'] = edited
    if case.get('trace'):
      self._trace_equal = None
      model['trace'] = self.trace(case, where)
      obs['trace_equal'] = self._trace_equal
    return {'construct': 'ok', 'model': model, 'obs': obs}

  def trace(self, case, where):
    """pg.hyper.trace / DynamicEvaluationContext: a function requesting the flat placeholders in order."""
    pg = _setup_pg()['pg']

    def fn():
      return [to_pg(q) for q in case['trace']]
    out = {}
    try:
      ctx = pg.hyper.trace(fn, where=where)
      out['spec'] = spec_of_pg(ctx.dna_spec)
      # the same decisions through the template API
      tt = pg.template(pg.List([to_pg(q) for q in case['trace']]), where)
      try:
        want = of_pg(tt.decode(dna_to_pg(case['trace_dna'])))
      except Exception:          # pylint: disable=broad-except
        _no_timeout()
        want = None
      try:
        with ctx.apply(dna_to_pg(case['trace_dna'])):
          res = fn()
        out['dec'] = ['ok', ['list', [of_pg(x) for x in res]]]
        got = out['dec'][1]
      except Exception:          # pylint: disable=broad-except
        _no_timeout()
        out['dec'] = ['err']
        got = None
      self._trace_equal = spec_of_pg(tt.dna_spec()) == out['spec'] and got == want
    except Exception as e:       # pylint: disable=broad-except
      _no_timeout()
      out = {'error': err_name(e)}
    return out

  def history(self, t, hv, spec, dna, v, vj, snapshot, before):
    """A three-step history on ONE DNA: decode; use the DNA as the parent of `random_dna` / `next_dna` of
    every custom / evolvable placeholder and edit another decoded value in place; decode again. decode must be
    a function of (template, DNA), and a decoded value shares no mutable state with the template or with
    other decoded values."""
    import random as _random
    pg = _setup_pg()['pg']
    problems = []

    def strs(d, acc):
      if isinstance(d.value, str):
        acc.append(d.value)
      for c in d.children:
        strs(c, acc)
      return acc
    genomes = strs(dna, [])

    def placeholders(x, acc):
      if isinstance(x, pg.hyper.CustomHyper):
        acc.append(x)
      if isinstance(x, pg.Symbolic):
        for _, c in x.sym_items():
          placeholders(c, acc)
      return acc
    for ph in placeholders(hv, []):
      for call in ([lambda: ph.first_dna()] +
                   [lambda g=g: ph.random_dna(_random.Random(1), pg.DNA(g)) for g in genomes] +
                   [lambda g=g: ph.next_dna(pg.DNA(g)) for g in genomes]):
        try:
          call()
        except Exception:        # pylint: disable=broad-except
          _no_timeout()          # (hooks may refuse foreign genomes)
    try:
      pg.random_dna(spec, _random.Random(2), previous_dna=dna.clone(deep=True))
    except Exception:            # pylint: disable=broad-except
      _no_timeout()
    if snapshot() != before:
      problems.append('template-modified by random_dna / next_dna of its placeholders')
    if of_pg(v) != vj:
      problems.append('earlier-result-changed: a value decoded earlier changed when the DNA was used as the parent '
                      'of random_dna / next_dna')
    try:
      if of_pg(t.decode(dna)) != vj:
        problems.append('decode-not-a-function: decoding the same DNA after random_dna / next_dna gives another value')
    except Exception as e:       # pylint: disable=broad-except
      _no_timeout()
      problems.append('decode-not-a-function: second decode raised %s' % err_name(e))
    # edit another decoded value in place
    ve = t.decode(dna)
    n_edits = edit_in_place(ve)
    if n_edits:
      if snapshot() != before:
        problems.append('template-shared: editing a decoded value in place changed the template')
      if of_pg(v) != vj:
        problems.append('results-shared: editing one decoded value in place changed another one')
      try:
        if of_pg(t.decode(dna)) != vj:
          problems.append('decode-not-a-function: decoding the same DNA after an in-place edit of an earlier '
                          'result gives another value')
      except Exception as e:     # pylint: disable=broad-except
        _no_timeout()
        problems.append('decode-not-a-function: decode after an in-place edit raised %s' % err_name(e))
    return {'problems': problems, 'edits': n_edits}

  # fields a placeholder that is already bound is offered to next: (class index, field, other fields)
  BIND_TARGETS = [
      (1, 'p', {'q': 0.5, 'r': 's'}), (1, 'q', {'p': 1, 'r': 's'}), (1, 'r', {'p': 1, 'q': 0.5}),
      (5, 'a', {'b': 0.0, 'c': 0, 'd': 0}), (5, 'c', {'a': 0.0, 'b': 0.0, 'd': 0}),
      (2, 'items', {'z': 0}), (8, 'xs', {'ys': [1, 2]}), (8, 'ys', {'xs': []}), (0, 'x', {'y': 0}),
  ]

  def bind_history(self, tj, hv):
    """A successful binding followed by bindings of the SAME placeholder object to other fields (compatible
    and incompatible ones): each attempt must come out as for a freshly made, equal placeholder."""
    P = _setup_pg()
    pg = P['pg']
    found = []
    self._over_rejected = False

    def walk(j, v):
      if len(found) >= 2:
        return
      if j[0] == 'obj':
        for key, c in zip(j[2], j[3]):
          x = v.sym_getattr(key)
          if c[0] in ('choice', 'floatv') and not all_tags(['list', c[4]] if c[0] == 'choice' else ['const', ['none']]):
            found.append((c, x))
          walk(c, x)
      elif j[0] == 'dict':
        for key, c in zip(j[1], j[2]):
          walk(c, v.sym_getattr(key))
      elif j[0] == 'list':
        for i, c in enumerate(j[1]):
          walk(c, v[i])
    walk(tj, hv)
    problems = []

    def outcome(ph, ci, field, others):
      try:
        o = P['classes'][ci](**dict(others, **{field: ph}))
        return 'ok:' + json.dumps(spec_of_pg(pg.template(o).dna_spec()))
      except (TypeError, ValueError, KeyError):
        return 'rejected'          # (which error class reports the rejection is not part of the judgement)
    for cj, ph in found:
      for ci, field, others in self.BIND_TARGETS:
        got = outcome(ph, ci, field, others)
        want = outcome(to_pg(cj), ci, field, others)
        if got == 'rejected' and want != 'rejected':
          # The `already bound` shortcut of custom_apply judges the two value specs, not the candidates: it may
          # refuse what a fresh placeholder would be granted. Safe w.r.t. the property (nothing is decoded into
          # a field that rejects it): recorded as an observation only.
          self._over_rejected = True
          continue
        if got != want:
          # (a List field with a larger min_size accepts what is bound to a List field with a smaller one:
          #  List._is_compatible ignores min_size, finding F09b of C04, pinned by value_specs_test.py:1121)
          kind = 'list-min-size' if (ci, field) == (8, 'ys') and got.startswith('ok') else 'other'
          problems.append('%s: binding the already bound placeholder %s to %s.%s: %s, a fresh equal placeholder: %s'
                          % (kind, json.dumps(cj)[:120], CLASSES[ci][0], field, got[:60], want[:60]))
    return sorted(problems, key=lambda x: x.startswith('list-min-size'))

  def hook_sweep_ok(self, cid):
    """first_dna / next_dna / random_dna of the custom hyper stay within its own genomes, and through the
    DNASpec (`CustomDecisionPoint.first_dna/next_dna/random_dna`) give what the hooks give."""
    import random as _random
    pg = _setup_pg()['pg']
    h = make_custom(1, cid)
    gs = HOOKS[cid][2]
    spec = pg.template(pg.Dict(a=h)).dna_spec()
    if cid == 2:      # Evolvable: first_dna = the initial value, random_dna = a mutation of the previous DNA
      # (Evolvable has no next_dna: sweeping it raises NotImplementedError by design)
      r1 = pg.random_dna(spec, _random.Random(0))
      r2 = h.random_dna(_random.Random(1), h.first_dna())
      return (h.first_dna().value == gs[0] and r1.value == gs[0] and isinstance(r2.value, str)
              and pg.eq(h.custom_decode(r2), pg.from_json_str(r2.value)))
    swept = [d.value for d in spec.iter_dna()]
    rnd = pg.random_dna(spec, _random.Random(3)).value
    return swept == gs and rnd in gs and h.first_dna().value == gs[0]

  def stage2(self, v, vj, tj):
    """A partially decoded value used as a template for the rest (no filter)."""
    import itertools
    pg = _setup_pg()['pg']
    if isinstance(v, list) and not isinstance(v, pg.List):
      # a root-level manyof decodes to a plain Python list; plain containers are not templates
      # (pg.template([pg.oneof(..)]).decode raises AttributeError on the unchanged tree): wrap it
      v = pg.List(v)
    t2 = pg.template(v)
    spec2 = t2.dna_spec()
    size = None if spec2.space_size < 0 else spec2.space_size
    m = {'spec': spec_of_pg(spec2), 'size': size, 'decs': []}
    o = {'problems': []}
    fresh_spec = spec_of_pg(pg.template(to_pg(vj)).dna_spec())
    if fresh_spec != m['spec']:
      o['problems'].append('stale-template: dna_spec of the partial value differs from the dna_spec of an equal, '
                           'freshly constructed value')
    if size is not None and size <= STAGE2_LIMIT:
      dnas2 = [pg.DNA(None)] if t2.is_constant else list(itertools.islice(spec2.iter_dna(), 4))
      for d in dnas2:
        d = d.clone(deep=True)
        try:
          v2 = t2.decode(d)
          v2j = of_pg(v2)
          m['decs'].append(['ok', v2j])
          if all_tags(v2j) or not pg.is_deterministic(v2):
            o['problems'].append('placeholder-left after the second stage')
          if not shape_ok(vj, v2j, None) or not shape_ok(tj, v2j, None):
            o['problems'].append('shape: second-stage value %s' % json.dumps(v2j)[:200])
          if stale_derived(v2):
            o['problems'].append('derived-state-stale after the second stage')
        except Exception as e:      # pylint: disable=broad-except
          _no_timeout()
          m['decs'].append(['err'])
          o['problems'].append('second-stage decode of valid DNA %r raised %s' % (d, err_name(e)))
      if not t2.is_constant and size <= 30:
        try:
          n = len(list(pg.iter(v)))
          if n != size:
            o['problems'].append('second-stage pg.iter yields %d values, space_size %d' % (n, size))
        except Exception as e:      # pylint: disable=broad-except
          _no_timeout()
          o['problems'].append('second-stage pg.iter raised %s' % err_name(e))
    return m, o

  def compare(self, case, impl_out, model_out):
    want = [ok_b(c, lo, hi) for lo, hi, c in bound_slots(case['tmpl'])]
    if model_out.get('slots') != want:
      return 'okB: harness=%s model=%s' % (want, model_out.get('slots'))
    if impl_out.get('construct') != 'ok':
      return None
    a = impl_out['model']
    b = model_out
    for key in ('spec', 'size', 'count', 'head_distinct', 'wf'):
      if a[key] != b[key]:
        return '%s: impl=%s model=%s' % (key, json.dumps(a[key])[:300], json.dumps(b[key])[:300])
    if len(a['dnas']) != len(b['dnas']):
      return 'number of DNAs: impl=%d model=%d' % (len(a['dnas']), len(b['dnas']))
    # A hook whose custom_encode raises something else than ValueError / KeyError (here: NotImplementedError of
    # a CustomHyper without custom_encode) aborts the whole `encode` instead of counting as "no match"; the
    # model knows only "the hook cannot encode". Such hooks violate the contract: `enc` is not compared.
    aborting = any('encode-raises' in kinds for kinds in (impl_out['obs'].get('hook_violations') or {}).values())
    for i, (x, y) in enumerate(zip(a['dnas'], b['dnas'])):
      if aborting:
        x, y = dict(x, enc=None), dict(y, enc=None)
      if x != y:
        return 'dna #%d: impl=%s model=%s' % (i, json.dumps(x)[:400], json.dumps(y)[:400])
    for i, (x, y) in enumerate(zip(a['values'], b['values'])):
      if aborting:
        continue
      if x is not None and x != y:
        return 'value #%d: impl=%s model=%s' % (i, json.dumps(x)[:400], json.dumps(y)[:400])
    if 'trace' in a and a['trace'] != b.get('trace'):
      return 'pg.hyper.trace: impl=%s model=%s' % (json.dumps(a['trace'])[:400], json.dumps(b.get('trace'))[:400])
    obs = impl_out['obs']
    if 'iter' in obs:
      n = obs['n_all']
      want = [r['dec'][1] if r['dec'][0] == 'ok' else None for r in b['dnas'][:n]]
      if obs['iter'] != want:
        return 'pg.iter: impl=%s model=%s' % (json.dumps(obs['iter'])[:300], json.dumps(want)[:300])
    return None

  # -- the property itself ------------------------------------------------------------------
  def oracle(self, case, out):
    if out.get('retry') == 'accepted':
      return {'signature': 'failed-bind-leaves-placeholder-bound',
              'what': 'constructing the template was rejected (%s); constructing it again with the same placeholder '
                      'objects was accepted: the failed binding left its value spec on the placeholder'
                      % out.get('construct')}
    if out.get('construct') != 'ok':
      return None
    t, W = case['tmpl'], case['where']
    obs, model = out['obs'], out['model']
    if 'edited_tmpl' in obs:
      t = obs['edited_tmpl']
      bad = [r for r, o in zip(model['dnas'], obs['per_dna']) if r['valid'] and r['dec'][0] != 'ok']
      if bad:
        return {'signature': 'edit-not-revalidated',
                'what': 'the edit %s of the bound template was accepted, but valid DNA %s of the edited template '
                        'is not decoded' % (json.dumps(case['edit']), json.dumps(bad[0]['dna']))}
    if not sizes_ok(t):
      return {'signature': 'list-size-placeholder-accepted',
              'what': 'a manyof / list whose length cannot fit the size-constrained List field it is bound to was '
                      'accepted at construction (every valid DNA then fails to decode on rebind)'}
    if not bounds_ok(t):
      return {'signature': 'out-of-range-placeholder-accepted',
              'what': 'a placeholder / constant whose values exceed the bounds of the field it is bound to was '
                      'accepted at construction (some valid DNA then decodes to a value the field spec rejects)'}
    for rec, o in zip(model['dnas'], obs['per_dna']):
      hp = (o.get('history') or {}).get('problems') or []
      shared = [x for x in hp if x.startswith(('template-shared', 'results-shared'))]
      if shared:
        return {'signature': 'history:' + shared[0].split(':')[0],
                'what': 'decode(%s), then %s' % (json.dumps(rec['dna']), '; '.join(shared))}
    if not obs['unchanged']:
      return {'signature': 'template-modified', 'what': '; '.join(obs['notes'][:3])}
    if obs.get('rebind_problems'):
      return {'signature': 'second-bind-not-judged-like-fresh:' + obs['rebind_problems'][0].split(':')[0],
              'what': '; '.join(obs['rebind_problems'][:2])}
    if not obs.get('hook_sweeps_ok', True):
      return {'signature': 'custom-sweep-hooks', 'what': 'first_dna / next_dna / random_dna through the DNASpec '
              'do not reproduce the hooks of the custom hyper'}
    if obs.get('hook_violations'):
      # The theorems assume the hooks' contract (HooksLawful / HooksPlain); these user hooks violate it on
      # their own genomes: whatever fails below is hypothesis-violating, not a pyglove defect.
      return None
    distinct = head_distinct(t, W)
    ps = prims(t, W)
    for rec, o in zip(model['dnas'], obs['per_dna']):
      if not rec['valid']:
        continue
      if not in_hook_range(ps, W, rec['dna']):
        continue        # valid for `validate` (any str-valued DNA) but outside the hooks' own range (`W.dom`)
      d = json.dumps(rec['dna'])
      if rec['dec'][0] != 'ok':
        return {'signature': 'decode-fails-on-valid-dna:' + o.get('dec_error', '?'),
                'what': 'valid DNA %s is not decoded: %s' % (d, o.get('dec_error'))}
      v = rec['dec'][1]
      if has_ref(v):
        return {'signature': 'reference-left', 'what': 'decode(%s) still contains an unresolved reference' % d}
      left = placeholders_left(v, W)
      if left or (W is None and not o['deterministic']):
        return {'signature': 'placeholder-left', 'what': 'decode(%s) still contains placeholders %s' % (d, left)}
      if not shape_ok(t, v, W):
        return {'signature': 'shape', 'what': 'decode(%s) = %s does not have the shape of the template'
                % (d, json.dumps(v)[:300])}
      if not o['dec2_equal']:
        return {'signature': 'decode-not-deterministic', 'what': 'two decodes of %s differ' % d}
      if o['stale']:
        return {'signature': 'derived-state-stale',
                'what': 'decode(%s): the `_on_bound`-derived state of %s still reflects the template, not the '
                        'decoded fields' % (d, o['stale'][:3])}
      if not o['fresh_equal']:
        return {'signature': 'decoded-differs-from-fresh-object',
                'what': 'decode(%s) is not pg.eq to the same value constructed from scratch' % d}
      if o.get('history') and o['history']['problems']:
        p0 = o['history']['problems'][0]
        return {'signature': 'history:' + p0.split(':')[0].split(' ')[0],
                'what': 'decode(%s), then %s' % (d, '; '.join(o['history']['problems'][:3]))}
      if o.get('stage2') and o['stage2']['problems']:
        p0 = o['stage2']['problems'][0]
        return {'signature': 'two-stage:' + p0.split(':')[0].split(' ')[0],
                'what': 'decode(%s) under the filter, then used as a template: %s' % (d, '; '.join(o['stage2']['problems'][:3]))}
      if not o['materialize_equal']:
        return {'signature': 'materialize-differs', 'what': 'pg.materialize differs from decode for %s (%s)'
                % (d, o.get('materialize_error'))}
      if rec['enc'] and rec['enc'][0] == 'ok' and rec['enc'][1] != rec['dna'] and rec['strict']:
        # first-match rule: wherever the re-encoded DNA first differs, it names an *earlier* candidate
        fd = first_diff(rec['dna'], rec['enc'][1])
        if not (fd and fd[0] and fd[1] and fd[0][0] == 'i' and fd[1][0] == 'i' and fd[1][1] < fd[0][1]):
          return {'signature': 'first-match-rule',
                  'what': 'encode(decode(%s)) = %s: the first difference %s is not an earlier candidate index'
                  % (d, json.dumps(rec['enc'][1])[:200], json.dumps(fd))}
      if distinct and not (rec['enc'] and rec['enc'][0] == 'ok' and rec['enc'][1] == rec['dna'] and o['roundtrip']):
        sig = 'encode-decode-not-identity'
        if W is not None:
          sig += ':where'
        if not rec['strict'] and rec['enc'] and rec['enc'][0] == 'ok':
          sig = 'stray-dna-value-lost'      # F85: validate / decode ignore the value, encode cannot reproduce it
        return {'signature': sig,
                'what': 'encode(decode(%s)) = %s (%s)' % (d, json.dumps(rec['enc'])[:200], o.get('enc_error'))}
    if obs.get('trace_equal') is False:
      return {'signature': 'trace-differs-from-template',
              'what': 'pg.hyper.trace(fn, where) / ctx.apply(dna) over the placeholders %s does not give the dna_spec '
                      '/ values of pg.template([...], where) for DNA %s' % (json.dumps(case['trace'])[:200],
                                                                          json.dumps(case['trace_dna'])[:120])}
    if 'iter_error' in obs:
      return {'signature': 'iter-raises', 'what': 'pg.iter raised %s' % obs['iter_error']}
    if 'iter_count' in obs:
      if obs['iter_count'] != model['size']:
        return {'signature': 'iter-count', 'what': 'pg.iter yields %d values, space_size = %s'
                % (obs['iter_count'], model['size'])}
      if distinct and obs['iter_duplicate']:
        return {'signature': 'iter-duplicates', 'what': 'pg.iter values #%d and #%d are equal' % tuple(obs['iter_duplicate'])}
    return None

  def nontrivial(self, case, out):
    return (out.get('construct') == 'ok' and out['model']['count'] > 0
            and any(r['valid'] and r['dec'][0] == 'ok' for r in out['model']['dnas']))

  def describe(self, case, out):
    h = ['construct:' + str(out.get('construct'))]
    if out.get('retry'):
      h.append('rejected-bind-then-retry:' + ('rejected again' if out['retry'] != 'accepted' else 'ACCEPTED'))
    t, W = case['tmpl'], case['where']
    st = tmpl_stats(t, {})
    h.append('depth:%d' % st.pop('depth', 0))
    for k in st:
      h.append('has:' + k)
    h.append('where:' + ('none' if W is None else 'subset'))
    h.append('dnas:' + ('all' if case['dnas'] == 'all' else 'sampled'))
    if has_ref(t):
      h.append('has:reference(oracle-only)')
    if case.get('edit'):
      h.append('template-edited-in-place(oracle-only)')
    if not bounds_ok(t):
      h.append('straddles-zero-bound')
    if not sizes_ok(t):
      h.append('list-size-misfit')
    h.append('head-distinct:%s' % head_distinct(t, W))
    for name, kinds in (out.get('obs', {}).get('hook_violations') or {}).items():
      h.append('HYPOTHESIS-VIOLATING hooks %s: %s' % (name, ','.join(kinds)))
    if out.get('construct') != 'ok':
      return h
    m = out['model']
    h.append('prims:%s' % min(m['count'], 5))
    h.append('size:' + ('inf' if m['size'] is None else '1' if m['size'] == 1 else '<=10' if m['size'] <= 10
                        else '<=100' if m['size'] <= 100 else '>100'))
    if 'trace' in m:
      h.append('dynamic-evaluation-traced')
    if out['obs'].get('rebind_over_rejected'):
      h.append('second-bind-refused-although-fresh-accepted(observation)')
    if any(o.get('history') and o['history']['edits'] for o in out['obs']['per_dna']):
      h.append('three-step-history(with in-place edit)')
    elif any(o.get('history') for o in out['obs']['per_dna']):
      h.append('three-step-history')
    if any(r.get('stage2') and r['stage2']['decs'] for r in m['dnas']):
      h.append('two-stage-decoded')
    if any(r.get('stage2') and r['stage2']['spec'] != ['space', []] for r in m['dnas']):
      h.append('two-stage-nonconstant')
    nv = sum(1 for r in m['dnas'] if r['valid'])
    h.append('valid-dnas:%s' % ('0' if nv == 0 else '1-5' if nv <= 5 else '6+'))
    if any(not r['valid'] for r in m['dnas']):
      h.append('has-invalid-dna')
    if any(r['valid'] and not r['strict'] for r in m['dnas']):
      h.append('has-stray-value-dna(F85)')
    if any((not r['valid']) and r['dec'][0] == 'ok' for r in m['dnas']):
      h.append('invalid-dna-decoded')
    for o in out['obs']['per_dna']:
      if 'dec_error' in o:
        h.append('dec-error:' + o['dec_error'])
        break
    if any(r['enc'] and r['enc'][0] == 'ok' and r['enc'][1] != r['dna'] for r in m['dnas'] if r['valid']):
      h.append('roundtrip-differs(ambiguous)')
    ve = [r for r in m['values'] if r]
    if any(r['enc'][0] == 'ok' for r in ve):
      h.append('value-encoded')
    if any(r['enc'][0] == 'err' for r in ve):
      h.append('value-rejected')
    if any(r['enc'][0] == 'ok' and not r['valid'] for r in ve):
      h.append('value-encoded-to-invalid-dna')
    return h

  def shrink_candidates(self, case):
    t = case['tmpl']
    if has_ref(t) or case.get('edit'):
      return

    def variants(t):
      k = t[0]
      if k in ('dict', 'list', 'obj'):
        kids = t[-1]
        for c in kids:
          yield c
        if k != 'obj':
          for i in range(len(kids)):
            if k == 'dict':
              yield ['dict', t[1][:i] + t[1][i + 1:], kids[:i] + kids[i + 1:]]
            else:
              yield ['list', kids[:i] + kids[i + 1:]]
        for i, c in enumerate(kids):
          for c2 in variants(c):
            if k == 'obj':
              continue
            yield t[:-1] + [kids[:i] + [c2] + kids[i + 1:]]
      elif k == 'choice':
        cands = t[4]
        for c in cands:
          yield c
        if len(cands) > 1:
          for i in range(len(cands)):
            rest = cands[:i] + cands[i + 1:]
            kk = t[3] if not t[5] else min(t[3], len(rest))
            yield t[:3] + [kk, rest] + t[5:]
        for i, c in enumerate(cands):
          for c2 in variants(c):
            yield t[:4] + [cands[:i] + [c2] + cands[i + 1:]] + t[5:]

    import itertools
    from harness.common import prng
    for t2 in itertools.islice(variants(t), 60):
      rng = prng.Rng(len(json.dumps(t2)))
      tags = set(all_tags(t2))
      W = case['where']
      if W is not None:
        W = [x for x in W if x in tags]
      yield self.make_case(rng, 'quick', t=t2, W=W)
    if case['where'] is not None:
      c = dict(case)
      c['where'] = None
      yield self.make_case(prng.Rng(1), 'quick', t=t, W=None)


PROP = C13()
