"""C05 — serialization and persistence round trip: generator, implementation runner, oracle.

Case kinds
  codec     {"kind":"codec","value":TREE,"ap":bool}            value → to_json → from_json (both forms)
  load      {"kind":"load","json":JV,"ap":bool}                arbitrary / malformed JSON → from_json
  load_str  {"kind":"load_str","json":JS,"ap":bool}            … through the string form (`n_:` keys)
  store     {"kind":"store","ops":[…]}                         history on /mem (model) and on a temp dir (impl only)
  spec      {"kind":"spec","expr":…}                           value specs / schemas / geno / DNA / functions (impl only + T-SIG cross-check)

TREE wire: null | bool | int | "str" | {"f":tok} | {"m":1} | {"l":[…]} | {"t":[…]} |
           {"d":[[key,TREE]…]} | {"o":type_name,"a":[[field,TREE]…]}
JV / JS wire: the same without "t"/"o"/"m" (JS: string keys only).
"""

import json
import math
import os

from harness.common.framework import Prop
from translate import t_c05

MOD = 'harness.c05_classes.'
NO = object()


def _f(name, kind, noneable=False, default=NO, frozen=False):
  d = {'name': name, 'kind': kind, 'noneable': noneable, 'frozen': frozen}
  if default is not NO:
    d['default'] = default
  return d


# The class environment handed to the Lean model (cross-checked against the real schemas in
# setup_impl).
ENV = {'classes': [
    [MOD + 'P', [_f('x', 'int'), _f('y', 'str', default='a')]],
    [MOD + 'Q', [_f('a', 'any', noneable=True), _f('b', 'bool', default=False),
                 _f('n', 'int', noneable=True, default=None)]],
    [MOD + 'R', [_f('k', 'str', default='kind-r', frozen=True),
                 _f('items', 'list', default={'l': []}), _f('opts', 'dict', default={'d': []})]],
    [MOD + 'S', [_f('p', ['obj', MOD + 'P']), _f('q', ['obj', MOD + 'Q'], noneable=True, default=None),
                 _f('z', 'any', noneable=True, default=None)]],
    [MOD + 'W', [_f('inner', ['obj', MOD + 'P'], default={'o': MOD + 'P', 'a': [['x', 1], ['y', 'a']]}),
                 _f('tags', 'list', default={'l': []}), _f('n', 'int', default=0)]],
    [MOD + 'W2', [_f('w', ['obj', MOD + 'W'],
                     default={'o': MOD + 'W', 'a': [['inner', {'o': MOD + 'P', 'a': [['x', 1], ['y', 'a']]}],
                                                    ['tags', {'l': []}], ['n', 0]]}),
                  _f('k', 'str', default='k'), _f('extra', 'dict', default={'d': []})]],
]}
# A class that is importable but not registered (auto_register = False): seen only with auto_import.
N_CLASS = [MOD + 'N', [_f('x', 'int'), _f('w', 'any', noneable=True, default=None)]]
ENV_IMPORT = {'classes': ENV['classes'] + [N_CLASS]}
MODEL_CLASSES = {c[0] for c in ENV_IMPORT['classes']}

# Which handle semantics of the memory file system the Lean model is asked to mirror: 'shared'
# (the tree as it is: all handles of a file share one position, F130) or 'perhandle'
# (fixes/C05-F130.patch applied).
# 'perhandle-append': with fixes/C05-F374.patch ('a' handles write at the current end of the file).
HANDLE_MODEL = os.environ.get('C05_HANDLE_MODEL', 'perhandle-append')   # mirrors /repo since fixes b23b24a (F130) and 672331e (F374)

TUPLE_MARKER = '__tuple__'
TYPE_KEY = '_type'


# ------------------------------------------------------------------------------------------
# Pure helpers on wire trees (no pyglove)
# ------------------------------------------------------------------------------------------

def reserved_shapes(t, str_form, top=True):
  """The oracle's own copy of `Encodable` (PgModel/C05Codec.lean): which reserved shapes occur."""
  out = []
  if isinstance(t, dict):
    if 'm' in t:
      out.append('standalone-missing')
    elif 'l' in t:
      xs = t['l']
      if xs and xs[0] == TUPLE_MARKER:
        out.append('tuple-marker-list')
      for x in xs:
        out += reserved_shapes(x, str_form, False)
    elif 't' in t:
      if not t['t']:
        out.append('empty-tuple')
      for x in t['t']:
        out += reserved_shapes(x, str_form, False)
    elif 'd' in t:
      for k, v in t['d']:
        if k == TYPE_KEY:
          out.append('type-key')
        elif str_form and isinstance(k, str) and k.startswith('n_:'):
          out.append('int-key-prefix')
        out += reserved_shapes(v, str_form, False)
    elif 'o' in t:
      for k, v in t['a']:
        if k == TYPE_KEY:
          out.append('type-key')
        elif str_form and k.startswith('n_:'):
          out.append('int-key-prefix')
        if not (isinstance(v, dict) and 'm' in v):
          out += reserved_shapes(v, str_form, False)
  return out


def tree_has(t, pred):
  if pred(t):
    return True
  if isinstance(t, dict):
    for key in ('l', 't'):
      if key in t:
        return any(tree_has(x, pred) for x in t[key])
    if 'd' in t:
      return any(tree_has(v, pred) for _, v in t['d'])
    if 'o' in t:
      return any(tree_has(v, pred) for _, v in t['a'])
  return False


def tree_size(t):
  n = 1
  if isinstance(t, dict):
    for key in ('l', 't'):
      if key in t:
        n += sum(tree_size(x) for x in t[key])
    if 'd' in t:
      n += sum(tree_size(v) for _, v in t['d'])
    if 'o' in t:
      n += sum(tree_size(v) for _, v in t['a'])
  return n


def tree_depth(t):
  if isinstance(t, dict):
    subs = []
    for key in ('l', 't'):
      if key in t:
        subs = t[key]
    if 'd' in t:
      subs = [v for _, v in t['d']]
    if 'o' in t:
      subs = [v for _, v in t['a']]
    return 1 + max([tree_depth(x) for x in subs] or [0])
  return 0


def is_model_tree(t):
  """Can the Lean model represent this value? (only classes of ENV, no lone surrogates)"""
  def bad(x):
    if isinstance(x, dict) and 'o' in x and x['o'] not in MODEL_CLASSES:
      return True
    if isinstance(x, str) and any(0xD800 <= ord(c) < 0xE000 for c in x):
      return True
    if isinstance(x, dict) and 'd' in x and any(
        isinstance(k, str) and any(0xD800 <= ord(c) < 0xE000 for c in k) for k, _ in x['d']):
      return True
    return False
  return not tree_has(t, bad)


def is_model_tree_any(t):
  """As is_model_tree, for any class (the environment is built from the real schemas)."""
  def bad(x):
    if isinstance(x, str) and any(0xD800 <= ord(c) < 0xE000 for c in x):
      return True
    if isinstance(x, dict) and x.get('f') == 'nan':
      return False
    return False
  return not tree_has(t, bad)


def plain_of_tree(t):
  """Plain-Python JSON structure of a plain tree (what to_json_str dumps), `n_:` keys encoded."""
  if isinstance(t, dict):
    if 'l' in t:
      return [plain_of_tree(x) for x in t['l']]
    if 't' in t:
      return [TUPLE_MARKER] + [plain_of_tree(x) for x in t['t']]
    if 'd' in t:
      return {('n_:%d' % k if isinstance(k, int) else k): plain_of_tree(v) for k, v in t['d']}
    raise ValueError('not a plain tree: %r' % (t,))
  return t


def json_text_of_tree(t):
  if tree_has(t, lambda x: isinstance(x, dict) and 'o' in x):
    # Records that are objects: the text is what the codec layer writes (its own cases and theorems
    # cover it); the store layer is about where that text goes.
    PROP.setup_impl()
    im = C05._impl
    return im.pg.to_json_str(im.build(t))
  return json.dumps(plain_of_tree(t))


def norm_path(p):
  return tuple(x for x in p[len('/mem'):].split('/') if x) if p.startswith('/mem') else None


# ------------------------------------------------------------------------------------------
# Generators
# ------------------------------------------------------------------------------------------

STRS = ['', 'a', 'b', 'x y', 'kind-r', 'é', '\U0001F600', '\x00\x1f', 'line\nbreak', 'tab\t"q"\\',
        ' ', 'n_:5', '__tuple__', '_type', '0', 'None', '\x7f', 'NaN', 'Infinity', '-Infinity', 'nan', 'inf', '-inf', 'null', 'true', 'false',
        '__tuple__ ', '_type_',      # spellings a text layer might take for something else
        '�￿']
KEYS = ['a', 'b', 'c', 'x', 'key', 'a.b', 'x y', '', 'é', '0', 'n_', '_typ', 'type', 'a[', '$',
        '\U0001F600', 'line\nbreak', 'q"\\']
INT_KEYS = [0, 1, 5, -3, 42, 2 ** 65, -2 ** 63]
FLOATS = ['0x1.8000000000000p+0', '-0x0.0p+0', '0x1.7e43c8800759cp+996', 'inf', '-inf',
          '0x1.999999999999ap-4', '0x0.0p+0']


class TreeGen:
  def __init__(self, rng, rich=False, floats=True, objects=True):
    self.rng, self.rich, self.floats, self.objects = rng, rich, floats, objects

  def leaf(self):
    r = self.rng
    k = r.below(12)
    if k == 0:
      return None
    if k == 1:
      return r.chance(0.5)
    if k <= 4:
      return r.choice([0, 1, -1, 7, 255, -128, 2 ** 31, 2 ** 70, -2 ** 64 + 3])
    if k == 5 and self.floats:
      if r.chance(0.08):
        return {'f': 'nan'}
      return {'f': r.choice(FLOATS)}
    return r.choice(STRS)

  def key(self):
    r = self.rng
    return r.choice(INT_KEYS) if r.chance(0.3) else r.choice(KEYS)

  def tree(self, depth):
    r = self.rng
    if depth <= 0:
      return self.leaf()
    k = r.weighted([(40, 'leaf'), (15, 'list'), (11, 'tuple'), (16, 'dict'),
                    (18 if self.objects else 0, 'obj')])
    if k == 'leaf':
      return self.leaf()
    if k == 'list':
      xs = [self.tree(depth - 1) for _ in range(r.below(4))]
      if xs and xs[0] == TUPLE_MARKER:
        xs[0] = 'not-a-marker'
      return {'l': xs}
    if k == 'tuple':
      return {'t': [self.tree(depth - 1) for _ in range(r.randint(1, 3))]}
    if k == 'dict':
      kvs, seen = [], set()
      for _ in range(r.below(4)):
        key = self.key()
        if key in seen or key == TYPE_KEY:
          continue
        seen.add(key)
        kvs.append([key, self.tree(depth - 1)])
      return {'d': kvs}
    return self.obj(depth)

  def obj(self, depth, cls=None, partial_ok=True):
    r = self.rng
    names = ['P', 'Q', 'R', 'S'] + (['T', 'U'] if self.rich else [])
    cls = cls or r.choice(names)
    miss = {'m': 1}
    part = partial_ok and r.chance(0.06)
    if cls == 'P':
      attrs = [['x', miss if part else r.choice([0, 3, -9, 2 ** 66, True])],
               ['y', r.choice(STRS)]]
    elif cls == 'Q':
      attrs = [['a', miss if part else self.tree(depth - 1)], ['b', r.chance(0.5)],
               ['n', r.choice([None, 4, -1])]]
    elif cls == 'R':
      attrs = [['k', 'kind-r'],
               ['items', {'l': [self.tree(depth - 1) for _ in range(r.below(3))]}],
               ['opts', self.tree_dict(depth - 1)]]
      if attrs[1][1]['l'] and attrs[1][1]['l'][0] == TUPLE_MARKER:
        attrs[1][1]['l'][0] = 'x'
    elif cls == 'S':
      attrs = [['p', miss if part else self.obj(depth - 1, 'P', False)],
               ['q', None if r.chance(0.4) else self.obj(depth - 1, 'Q', False)],
               ['z', self.tree(depth - 1)]]
    elif cls == 'T':
      attrs = [['t', {'t': [r.choice([1, 2, -5]), r.choice(STRS)]}],
               ['li', {'l': [r.below(9) for _ in range(r.below(4))]}],
               ['d', {'d': [['u', r.below(5)], ['v', r.choice([None, 'v', ''])]]}]]
    else:
      attrs = [['e', r.choice(['a', 'b', 'c'])],
               ['f', {'f': r.choice(FLOATS[:3] + FLOATS[5:])}],
               ['u', r.choice([3, 's', -1])],
               ['m', {'d': [[k, r.below(9)] for k in r.sample(['k1', 'k2', 'kz'], r.below(3))]}]]
    return {'o': MOD + cls, 'a': attrs}

  def tree_dict(self, depth):
    t = None
    for _ in range(20):
      t = self.tree(max(depth, 1))
      if isinstance(t, dict) and 'd' in t:
        return t
    return {'d': [['a', self.leaf()]]}


def inject_reserved(rng, t, shape):
  """Puts exactly one reserved shape somewhere into a valid tree."""
  payload = {
      'empty-tuple': {'t': []},
      'tuple-marker-list': {'l': [TUPLE_MARKER] + [1, 'x'][:rng.below(3)]},
      'type-key-str': {'d': [['a', 1], [TYPE_KEY, rng.choice(['nope.Nope', MOD + 'P', 'x'])]]},
      'type-key-int': {'d': [[TYPE_KEY, rng.choice([1, None, True])]]},
      'int-key-prefix': {'d': [[rng.choice(['n_:5', 'n_:-12', 'n_:x', 'n_:', 'n_: 7', 'n_:1_0']), 1]]},
  }[shape]
  where = rng.below(4)
  if where == 0:
    return payload
  if where == 1:
    return {'l': [payload, t]}
  if where == 2:
    return {'d': [['w', payload], ['v', t]]}
  return {'t': [payload, t]}


class JsonGen:
  """Arbitrary / malformed JSON for `from_json` (JV wire)."""

  def __init__(self, rng, str_form=False, unknown_bias=False):
    self.rng, self.str_form, self.unknown_bias = rng, str_form, unknown_bias

  def leaf(self):
    r = self.rng
    return r.choice([None, True, False, 0, -4, 2 ** 66, 'a', '', '__tuple__', '_type', 'n_:5', {'f': FLOATS[0]}])

  def key(self):
    r = self.rng
    if self.str_form:
      return r.choice(['a', 'b', 'n_:5', 'n_:-3', 'n_:05', 'n_:x', 'n_:', 'n_: 7', 'n_:+2', 'n_:1_0',
                       'n_:1__0', 'n_:_1', 'n_:1_', 'n_:--1', 'n_:7 ', 'n_', 'n_:\t8\n', 'k', 'x', 'y'])
    return r.choice(['a', 'b', 'k', 'x', 'y', 5, -3, 'n_:5'])

  def value(self, depth):
    r = self.rng
    if depth <= 0:
      return self.leaf()
    k = r.weighted([(30, 'leaf'), (14, 'arr'), (12, 'tuple'), (14, 'dict'), (30, 'typed')])
    if k == 'leaf':
      return self.leaf()
    if k == 'arr':
      return {'l': [self.value(depth - 1) for _ in range(r.below(4))]}
    if k == 'tuple':
      return {'l': [TUPLE_MARKER] + [self.value(depth - 1) for _ in range(r.below(3))]}
    if k == 'dict':
      kvs, seen = [], set()
      for _ in range(r.below(4)):
        key = self.key()
        if key in seen:
          continue
        seen.add(key)
        kvs.append([key, self.value(depth - 1)])
      return {'d': kvs}
    return self.typed(depth)

  def typed(self, depth):
    r = self.rng
    cls = r.choice(['P', 'Q', 'R', 'S'])
    good = {
        'P': [['x', r.choice([1, True, -2 ** 65])], ['y', r.choice(['s', ''])]],
        'Q': [['a', self.value(depth - 1)], ['b', r.chance(0.5)], ['n', r.choice([None, 3])]],
        'R': [['items', {'l': [self.value(depth - 1) for _ in range(r.below(3))]}],
              ['opts', {'d': [['o', self.value(depth - 1)]]}]],
        'S': [['p', {'d': [[TYPE_KEY, MOD + 'P'], ['x', 2]]}],
              ['q', r.choice([None, {'d': [[TYPE_KEY, MOD + 'Q'], ['a', 1]]}])],
              ['z', self.value(depth - 1)]],
    }[cls]
    kvs = [[TYPE_KEY, MOD + cls]] + good
    m = 0 if (self.unknown_bias and r.chance(0.45)) else r.below(14)
    if m == 0:                                   # unknown class
      kvs[0][1] = r.choice(['nope.Nope', 'harness.c05_classes.Nope', 'P'])
    elif m == 1:                                 # _type not a string
      kvs[0][1] = r.choice([1, None, True, {'l': [1]}])
    elif m == 2:                                 # unknown field
      kvs.append(['w', 1])
    elif m == 3 and len(kvs) > 1:                # drop a field (maybe required)
      del kvs[r.randint(1, len(kvs) - 1)]
    elif m == 4 and len(kvs) > 1:                # wrong type
      kvs[r.randint(1, len(kvs) - 1)][1] = r.choice(['str', 5, None, {'l': []}, {'d': []}, True,
                                                     {'l': [TUPLE_MARKER, 1]}])
    elif m == 5 and not self.str_form:           # int keyword
      kvs.append([7, 1])
    elif m == 6 and cls == 'R':                  # frozen field supplied
      kvs.append(['k', r.choice(['kind-r', 'other', None])])
    elif m == 7:                                 # _type not first
      kvs = kvs[1:] + kvs[:1]
    elif m == 8:                                 # reorder fields
      kvs = kvs[:1] + list(reversed(kvs[1:]))
    return {'d': kvs}


MEM_NAMES = ['a', 'b', 'm', 'e', 'me', 'mem', 'x', 'em.json', 'm.json', 'x.json', 'data.jsonl', 'e1', 'mm', 'q']


def gen_paths(rng, n):
  """n distinct /mem paths, prefix-free as component lists (a file is never inside a file)."""
  paths = []
  for _ in range(n * 6):
    if len(paths) >= n:
      break
    depth = rng.weighted([(5, 1), (3, 2), (2, 3)])
    comps = [rng.choice(MEM_NAMES) for _ in range(depth)]
    if rng.chance(0.3):
      comps[-1] = comps[-1].split('.')[0] + rng.choice(['.json', '.jsonl', '.txt'])
    p = '/mem/' + '/'.join(comps)
    k = norm_path(p)
    if any(k[:len(o)] == o or o[:len(k)] == k for o in map(norm_path, paths)):
      continue
    paths.append(p)
  return paths or ['/mem/a']


def gen_store_case(rng, rich_records=False, objects=False):
  tg = TreeGen(rng, floats=False, objects=objects)
  paths = gen_paths(rng, rng.randint(1, 6))
  seq_paths = [p for p in paths if rng.chance(0.4)]
  ops = []
  written = []
  for _ in range(rng.randint(2, 12)):
    p = rng.choice(paths)
    if written and rng.chance(0.5):
      p = rng.choice(written)       # bias towards reading / rewriting what exists
    if p in seq_paths:
      k = rng.weighted([(4, 'seqw_a'), (2, 'seqw_w'), (4, 'seqr'), (1, 'exists'), (4, 'jw_a'), (2, 'jw_w'), (4, 'jr'),
                        (1, 'partial')])
      if k.startswith('jw'):
        ops.append({'k': 'jw', 'p': p, 'm': k[-1], 'v': [tg.tree(rng.below(3)) for _ in range(rng.below(4))]})
        written.append(p)
        continue
      if k == 'jr':
        ops.append({'k': 'jr', 'p': p})
        continue
      if k == 'partial':
        # a writer that died in the middle of a line: the file does not end in a newline
        ops.append({'k': 'write', 'p': p, 'c': rng.choice(['[1, 2', '{"a": 1}', '12', '"abc']), 'm': 'a'})
        continue
      if k.startswith('seqw'):
        pool = ['r1', 'rec two', '', '{"a": 1}', 'é\U0001F600', ' lead', 'trail ', '\t', 'x\ry']
        if rich_records:
          pool += ['a\nb', 'end\n', '\n']
        ops.append({'k': 'seqw', 'p': p, 'm': k[-1], 'r': [rng.choice(pool) for _ in range(rng.below(4))]})
        written.append(p)
      elif k == 'seqr':
        ops.append({'k': 'seqr', 'p': p})
      else:
        ops.append({'k': 'exists', 'p': p})
    else:
      k = rng.weighted([(5, 'save'), (5, 'load'), (1, 'exists'), (1, 'listdir'), (1, 'write_a'), (1, 'mkdirs')])
      if k == 'save':
        ops.append({'k': 'save', 'p': p, 'v': tg.tree(rng.below(3))})
        written.append(p)
      elif k == 'load':
        ops.append({'k': 'load', 'p': p})
      elif k == 'exists':
        ops.append({'k': 'exists', 'p': rng.choice([p, os.path.dirname(p) + '/', p + '/zz'])})
      elif k == 'listdir':
        ops.append({'k': 'listdir', 'p': os.path.dirname(p) + '/'})
      elif k == 'write_a':
        ops.append({'k': 'write', 'p': p, 'c': rng.choice(['', 'tail', '\n', '[1]']), 'm': 'a'})
      else:
        ops.append({'k': 'mkdirs', 'p': os.path.dirname(p) + '/' + rng.choice(['', 'zz_dir', 'zz_dir/sub'])})
  return {'kind': 'store', 'ops': ops}


def gen_hstore_case(rng):
  """Histories with OPEN HANDLES as state: handles are opened, partially read / written, left open
  across later saves / overwrites / appends / loads of the same path, closed later or never."""
  tg = TreeGen(rng, floats=False, objects=False)
  paths = gen_paths(rng, rng.randint(1, 3))
  ops, written, nh = [], [], 0
  live = []            # [index of the hopen, path, mode] of handles not yet closed
  for _ in range(rng.randint(4, 14)):
    p = rng.choice(written) if written and rng.chance(0.7) else rng.choice(paths)
    k = rng.weighted([(5, 'save'), (5, 'load'), (2, 'seqw'), (2, 'seqr'), (4, 'hopen_r'), (1, 'hopen_w'),
                      (1, 'hopen_a'), (5 if live else 0, 'hread'), (2 if live else 0, 'hreadline'),
                      (2 if live else 0, 'hwrite'), (2 if live else 0, 'hclose'), (1, 'exists')])
    if k == 'save':
      ops.append({'k': 'save', 'p': p, 'v': tg.tree(rng.below(3))})
      written.append(p)
    elif k == 'load':
      ops.append({'k': 'load', 'p': p})
    elif k == 'seqw':
      ops.append({'k': 'seqw', 'p': p, 'm': rng.choice(['w', 'a']),
                  'r': [rng.choice(['r1', 'rec two', '{"a": 1}', '']) for _ in range(rng.below(3))]})
      written.append(p)
    elif k == 'seqr':
      ops.append({'k': 'seqr', 'p': p})
    elif k.startswith('hopen'):
      m = k[-1]
      if p not in written:
        if m == 'r' and rng.chance(0.85):
          continue                  # mostly open what exists
        if m != 'r' and '/' in p[len('/mem/'):]:
          ops.append({'k': 'save', 'p': p, 'v': tg.tree(1)})   # open() does not create directories
          written.append(p)
      ops.append({'k': 'hopen', 'p': p, 'm': m})
      live.append([nh, p, m])
      nh += 1
      if m != 'r':
        written.append(p)
    elif k == 'exists':
      ops.append({'k': 'exists', 'p': p})
    else:
      h = rng.choice(live)
      if k == 'hread':
        ops.append({'k': 'hread', 'h': h[0], 'n': rng.choice([None, None, 1, 3, 10])})
      elif k == 'hreadline':
        ops.append({'k': 'hreadline', 'h': h[0]})
      elif k == 'hwrite':
        writers = [x for x in live if x[2] != 'r']
        if not writers:
          continue
        h = rng.choice(writers)
        ops.append({'k': 'hwrite', 'h': h[0], 'c': rng.choice(['x', '[1]', 'line\n', '"s"'])})
      else:
        ops.append({'k': 'hclose', 'h': h[0]})
        live.remove(h)
  return {'kind': 'hstore', 'ops': ops}


def gen_nest(rng, depth, top=True):
  """Nested DNA values as `DNA(...)` accepts them (and a few it rejects)."""
  def leaf():
    k = rng.below(10)
    if k <= 5:
      return rng.below(6)
    if k <= 7:
      return {'q': rng.choice([[1, 2], [-3, 4], [5, 1], [1, 1024], [0, 1], [7, 8]])}
    if k == 8:
      return rng.choice(['abc', 'x y', '', '__tuple__', 'é'])
    # `None` (the empty DNA) only as the whole value: as a child it is outside the domain on which
    # the constructor model (C12 `parse`) is validated — the constructor drops / keeps such a
    # child depending on context (F201 is the replayed example)
    return None if top else 0
  if depth <= 0:
    return leaf()
  k = rng.weighted([(3, 'leaf'), (3, 'list'), (4, 'tuple'), (1, 'bad')])
  if k == 'leaf':
    return leaf()
  if k == 'list':
    return {'l': [gen_nest(rng, depth - 1, False) for _ in range(rng.below(4))]}
  if k == 'tuple':
    head = rng.below(5) if rng.chance(0.9) else {'q': [1, 2]}
    tail = rng.weighted([(3, 'scalar'), (3, 'list'), (3, 'chain')])
    if tail == 'scalar':
      return {'t': [head, leaf()]}
    if tail == 'list':
      return {'t': [head, {'l': [gen_nest(rng, depth - 1, False) for _ in range(rng.randint(1, 3))]}]}
    return {'t': [head] + [rng.below(4) for _ in range(rng.randint(1, 3))] +
                 ([{'l': [gen_nest(rng, depth - 1, False) for _ in range(2)]}] if rng.chance(0.4) else [])}
  return rng.choice([{'t': [1]}, {'t': []}, {'t': ['s', 1]}, {'t': [None, 1]}, {'l': [{'t': [1]}]}])


MOUNTS = ('/mem', '/scratch')      # two mounts of the in-memory file system (the second registered by the harness)

FAMILIES = {'FAMILY': 3, 'SHIFTED': 3}   # harness/c05_classes.py: functions sharing ONE code object, different defaults
FNFAM_HOW = ['one-value', 'one-value-str', 'consecutive', 'written-then-loaded', 'files', 'jsonl']


def gen_mounts_case(rng):
  """A store history spread over two mounts: the SAME mount-relative paths are used on both."""
  case = gen_store_case(rng)
  ops = []
  for op in case['ops']:
    op = dict(op, mt=rng.below(2))
    ops.append(op)
    if op['k'] in ('save', 'jw', 'seqw', 'write') and rng.chance(0.5):
      # the twin path on the other mount is looked at right after a write
      other = 1 - op['mt']
      ops.append({'k': rng.choice(['load', 'exists', 'listdir']) if op['k'] == 'save' else
                  rng.choice(['jr', 'exists']) if op['k'] == 'jw' else rng.choice(['seqr', 'exists']),
                  'p': op['p'], 'mt': other})
      if ops[-1]['k'] == 'listdir':
        ops[-1]['p'] = os.path.dirname(op['p']) + '/'
  return {'kind': 'mounts', 'ops': ops}


def fnfam_ok(members):
  """Self-contained: some code object occurs with two different defaults."""
  return any(len({i for f, i in members if f == fam}) >= 2 for fam in FAMILIES)


def gen_fnfam_case(rng):
  fam = rng.choice(sorted(FAMILIES))
  i = rng.below(FAMILIES[fam])
  j = (i + 1 + rng.below(FAMILIES[fam] - 1)) % FAMILIES[fam]
  members = [[fam, i], [fam, j]]
  for _ in range(rng.below(4)):
    f = rng.choice(sorted(FAMILIES))
    members.insert(rng.below(len(members) + 1), [f, rng.below(FAMILIES[f])])
  return {'kind': 'fnfam', 'members': members, 'how': rng.choice(FNFAM_HOW)}


SEQ_PATHS = {
    'mem': ['/mem/sq/a.mem', '/mem/sq/b.mem'],
    'memN': ['/mem/sq/a.mem@3', '/mem/sq/a.mem@4'],
    'line': ['/mem/sq/a.jsonl', '/mem/sq/deep/b.jsonl'],
    'std': ['a.jsonl', 'sub/b.jsonl'],
}


def interleave(a, b):
  out = []
  for i in range(max(len(a), len(b))):
    if i < len(a):
      out.append(a[i])
    if i < len(b):
      out.append(b[i])
  return out


def gen_seq_case(rng):
  """Histories on one sequence backend with aliasing steps: read, change a returned record in
  place, read again (same / second reader, also after re-opening for append)."""
  backend = rng.weighted([(4, 'mem'), (3, 'memN'), (3, 'line'), (2, 'std')])
  def record():
    k = rng.below(5)
    if k == 0:
      return rng.choice([1, 'r', None])
    if k <= 2:
      return {'d': [[rng.choice(['a', 'b', 'k']), rng.choice([1, 'x', {'l': [1]}])]]}
    return {'l': [rng.below(5) for _ in range(rng.below(3))]}
  ops, reads, started = [], 0, set()
  for _ in range(rng.randint(3, 10)):
    p = rng.below(2)
    k = rng.weighted([(4, 'add'), (4, 'read'), (3 if reads else 0, 'mutate'), (2, 'read2'), (2, 'add2')])
    if p not in started and rng.chance(0.5):
      k = 'add'       # otherwise the path's first-ever open may be a read, a second reader, or two appenders
    if k == 'add2':
      started.add(p)
      # two appenders open at the same time, adding in turn
      ops.append({'k': 'add2', 'p': p, 'v1': [record() for _ in range(rng.randint(1, 2))],
                  'v2': [record() for _ in range(rng.randint(1, 2))]})
      continue
    if k == 'add':
      # the first-ever open of a path is as often 'a' as 'w'
      m = rng.choice(['w', 'a']) if p not in started else ('w' if rng.chance(0.2) else 'a')
      started.add(p)
      ops.append({'k': 'add', 'p': p, 'm': m, 'v': [record() for _ in range(rng.randint(1, 3))]})
    elif k == 'mutate':
      ops.append({'k': 'mutate', 'r': rng.below(reads), 'i': rng.below(3)})
    else:
      ops.append({'k': k, 'p': p})
      reads += 1
  return {'kind': 'seq', 'backend': backend, 'ops': ops}


def _P(x=1, y='a'):
  return {'o': MOD + 'P', 'a': [['x', x], ['y', y]]}


def _W(inner=None, tags=None, n=0):
  return {'o': MOD + 'W', 'a': [['inner', inner or _P()], ['tags', {'l': tags or []}], ['n', n]]}


def _W2(w=None, k='k', extra=None):
  return {'o': MOD + 'W2', 'a': [['w', w or _W()], ['k', k], ['extra', {'d': extra or []}]]}


W_PATHS = [['n'], ['inner', 'y'], ['inner', 'x'], ['tags']]
W2_PATHS = [['k'], ['extra']] + [['w'] + q for q in W_PATHS]


def gen_hist_case(rng):
  """Histories around serialisation: serialise (every option combination, as JSON / text / saved
  file), change the value at depth 1, 2 or 3 (attribute, list append, dict key), query the memoised
  derived state, serialise again. Values start at — and are moved back to — their field defaults."""
  w2 = _W2() if rng.chance(0.6) else _W2(w=_W(inner=_P(rng.choice([1, 2]), rng.choice(['a', 'b'])), n=rng.below(2)),
                                          k=rng.choice(['k', 'z']))
  w = _W() if rng.chance(0.6) else _W(inner=_P(3, 'c'), tags=[1])
  t = rng.below(5)
  if t == 0:
    root, targets = w2, [([], 'W2')]
  elif t == 1:
    root, targets = {'d': [['a', w2], ['b', {'l': [w]}]]}, [(['a'], 'W2'), (['b', 0], 'W')]
  elif t == 2:
    root, targets = {'o': MOD + 'Q', 'a': [['a', w2], ['b', False], ['n', None]]}, [(['a'], 'W2')]
  elif t == 3:
    root = {'o': MOD + 'R', 'a': [['k', 'kind-r'], ['items', {'l': [w]}], ['opts', {'d': [['o', w2]]}]]}
    targets = [(['items', 0], 'W'), (['opts', 'o'], 'W2')]
  else:
    root = {'o': MOD + 'S', 'a': [['p', _P()], ['q', None], ['z', w]]}
    targets = [(['z'], 'W'), ([], 'S')]
  steps = []

  def ser():
    opts = None if rng.chance(0.25) else {'hide_frozen': rng.chance(0.6), 'hide_default_values': rng.chance(0.75)}
    return {'op': 'ser', 'opts': opts, 'via': rng.weighted([(5, 'json'), (2, 'str'), (2, 'save')])}
  steps.append(ser())
  for _ in range(rng.randint(2, 7)):
    k = rng.weighted([(5, 'mutate'), (5, 'ser'), (1, 'query')])
    if k == 'ser':
      steps.append(ser())
    elif k == 'query':
      steps.append({'op': 'query'})
    else:
      prefix, kind = rng.choice(targets)
      if kind == 'S':
        steps.append({'op': 'set', 'path': ['p', rng.choice(['x', 'y'])], 'v': None})
      else:
        q = rng.choice(W2_PATHS if kind == 'W2' else W_PATHS)
        path = prefix + q
        if q[-1] == 'tags':
          steps.append({'op': 'append', 'path': path, 'v': rng.choice([1, 'x', {'l': [2]}])})
        elif q[-1] == 'extra':
          steps.append({'op': 'setkey', 'path': path, 'key': rng.choice(['e', 'f']), 'v': rng.choice([1, 'x'])})
        else:
          steps.append({'op': 'set', 'path': path, 'v': None})
      if steps[-1]['op'] == 'set':
        last = steps[-1]['path'][-1]
        steps[-1]['v'] = rng.choice([0, 1, 2, 5]) if last in ('x', 'n') else rng.choice(['a', 'b', 'k', 'z'])
  steps.append(ser())
  return {'kind': 'hist', 'value': root, 'steps': steps}


def gen_dna_case(rng):
  tg = TreeGen(rng, floats=False, objects=False)
  meta = None
  if rng.chance(0.4):
    kvs, seen = [], set()
    for _ in range(rng.randint(1, 3)):
      k = rng.choice(['a', 'b', 'reward', 'k1', 'x y'])
      if k not in seen:
        seen.add(k)
        kvs.append([k, tg.tree(rng.below(3))])
    meta = {'d': kvs}
  cloneable = [meta['d'][0][0]] if meta and rng.chance(0.3) else []
  return {'kind': 'dna', 'nest': gen_nest(rng, rng.randint(0, 3)), 'meta': meta, 'cloneable': cloneable,
          'child_meta': rng.chance(0.08)}


def lower_ops(ops):
  """jsonl operations as the sequence operations they are: `jw` adds `to_json_str(v)` records,
  `jr` reads the lines (the values are `from_json_str` of them)."""
  out = []
  for op in ops:
    if op['k'] == 'jw':
      out.append({'k': 'seqw', 'p': op['p'], 'm': op['m'], 'r': [json_text_of_tree(v) for v in op['v']]})
    elif op['k'] == 'jr':
      out.append({'k': 'seqr', 'p': op['p']})
    else:
      out.append(op)
    if 'mt' in op:
      out[-1] = dict(out[-1], mt=op['mt'])
  return out


def copy_value(v):
  import copy
  try:
    return copy.deepcopy(v)
  except Exception:   # pylint: disable=broad-except
    return v


VSPEC_EXTRA = ['callable0', 'callable1', 'callable2', 'type0', 'type1', 'obj0', 'schemaP', 'schemaR', 'schemaS',
               'schemaT', 'field_desc']


def gen_vspec_case(rng):
  from harness import typing_vocab as tv
  if rng.chance(0.06):
    return {'kind': 'vspec', 'extra': rng.choice(VSPEC_EXTRA)}
  g = tv.SpecGen(rng)
  d = g.spec(rng.randint(0, 3))
  probes = g.boundary(d)[:10] + [['N'], ['M']]
  case = {'kind': 'vspec', 'desc': d, 'probes': probes}
  if rng.chance(0.15):
    # malformed stream: one top-level mutation of the JSON the spec produces
    case['mutate'] = rng.choice([['add', 'foo'], ['add', 'size_'], ['drop', 'element_value'],
                                 ['drop', 'element_values'], ['drop', 'values'], ['drop', 'candidates'],
                                 ['drop', 't'], ['drop', 'default']])
  return case


def stale_mask(ops):
  """For a handle history: True at the positions whose output depends on a stale handle (one
  opened before a later 'w' of the same path) — reads through it, and everything read from a path
  after a write through a stale handle until the path is overwritten again."""
  gen, tainted, handles, mask = {}, set(), [], []
  for op in ops:
    k = op['k']
    if k in ('hread', 'hreadline', 'hwrite', 'hclose'):
      h = handles[op['h']] if op['h'] < len(handles) else None
      stale = h is not None and gen.get(h[0], 0) != h[1]
      if k == 'hwrite' and stale:
        tainted.add(h[0])
      mask.append(bool(h is not None and k != 'hclose' and (stale or h[0] in tainted)))
      continue
    key = norm_path(op['p'])
    rewrites = k == 'save' or (k in ('seqw', 'write', 'hopen') and op.get('m') == 'w')
    if rewrites:
      gen[key] = gen.get(key, 0) + 1
      tainted.discard(key)
    if k == 'hopen':
      handles.append((key, gen.get(key, 0)))
    mask.append(k in ('load', 'seqr') and key in tainted)
  return mask


def gen_messy_store_case(rng):
  """Malformed stream for the stores: paths that are prefixes of each other, double slashes,
  directories used as files, missing parents (error classes are compared with the model)."""
  tg = TreeGen(rng, floats=False, objects=False)
  pool = ['/mem/a', '/mem/a/b', '/mem/a//b', '/mem/a/b/c', '/mem//a', '/mem/a/', '/mem/m', '/mem/m/e',
          '/mem/mem/x', '/mem/e.json', '/mem/x/../y', '/mem/', '/mem/.', '/mem/a/b/']
  ops = []
  for _ in range(rng.randint(2, 9)):
    p = rng.choice(pool)
    k = rng.weighted([(4, 'save'), (4, 'load'), (2, 'exists'), (2, 'listdir'), (2, 'write'), (2, 'mkdirs'),
                      (1, 'seqw'), (1, 'seqr')])
    if k == 'save':
      ops.append({'k': 'save', 'p': p, 'v': tg.tree(1)})
    elif k == 'write':
      ops.append({'k': 'write', 'p': p, 'c': rng.choice(['', 'abc', 'longer content']), 'm': rng.choice(['w', 'a'])})
    elif k == 'seqw':
      ops.append({'k': 'seqw', 'p': p, 'm': rng.choice(['w', 'a']), 'r': ['r']})
    else:
      ops.append({'k': k, 'p': p})
  return {'kind': 'store', 'ops': ops, 'messy': True}


# Stand-alone typed containers: (python constructor in _Impl.typed_value, model description)
TYPED_MODEL = {
    0: {'op': 'typed_list', 'elem': 'int', 'max': 3, 'items': [1, 2], 'appends': ['zz', 3, None]},
    1: {'op': 'typed_dict', 'ap': True,
        'fields': [_f('x', 'int'), _f('z', 'int', default=3)],
        'items': [['x', 1], ['z', 3]],
        'writes': [['nope', 1], ['x', 's'], ['x', 7], ['z', None], ['z', 9]]},
    2: {'op': 'typed_dict', 'ap': True,
        'fields': [_f('x', 'int'), _f('y', 'int', default=5, frozen=True)],
        'items': [['x', 1], ['y', 5]],
        'writes': [['y', 6], ['y', 5], ['x', 2], ['q', 1]]},
    3: {'op': 'typed_dict', 'ap': True,
        'fields': [_f('x', 'int'), _f('z', 'int', default=3)],
        'items': [['x', {'m': 1}], ['z', 2]],
        'writes': [['x', 4], ['x', 's'], ['w', 1]]},
}

SPEC_ATOMS = [['Int', {}], ['Int', {'min_value': 0}], ['Int', {'default': 3, 'max_value': 9}],
              ['Str', {}], ['Str', {'regex': 'a.*'}], ['Str', {'default': 'foo'}],
              ['Bool', {}], ['Bool', {'default': True}], ['Float', {'min_value': 0.0, 'max_value': 1.0}],
              ['Float', {'default': 0.25}], ['Any', {}], ['Any', {'default': 1}],
              ['Enum', {'default': 'a', 'values': ['a', 'b']}], ['Enum', {'values': [1, 2, 3]}],
              ['Enum', {'default': None, 'values': [None, 'x']}], ['Object', {'t': 'P'}], ['Type', {'t': 'P'}],
              ['Callable', {}], ['Callable', {'args': ['Int', 'Str'], 'returns': 'Int'}]]


def gen_spec(rng, depth):
  if depth <= 0 or rng.chance(0.45):
    s = json.loads(json.dumps(rng.choice(SPEC_ATOMS)))
  else:
    k = rng.choice(['List', 'Tuple', 'TupleVar', 'Dict', 'Union', 'DictKV'])
    if k == 'List':
      s = ['List', {'element_value': gen_spec(rng, depth - 1)}]
      if rng.chance(0.4):
        s[1]['max_size'] = rng.randint(1, 5)
      if rng.chance(0.2):
        s[1]['default'] = []
    elif k == 'Tuple':
      s = ['Tuple', {'element_values': [gen_spec(rng, depth - 1) for _ in range(rng.randint(1, 3))]}]
    elif k == 'TupleVar':
      s = ['Tuple', {'element_values': gen_spec(rng, depth - 1), 'min_size': 1, 'max_size': rng.randint(1, 4)}]
    elif k == 'Dict':
      s = ['Dict', {'schema': [[n, gen_spec(rng, depth - 1)] for n in rng.sample(['a', 'b', 'c', 'd'], rng.randint(1, 3))]}]
    elif k == 'DictKV':
      s = ['Dict', {'schema': [['re:k.*', gen_spec(rng, depth - 1)]]}]
    else:
      s = ['Union', {'candidates': [['Int', {}], ['Str', {}]] + ([['Bool', {}]] if rng.chance(0.5) else [])}]
  if rng.chance(0.25) and s[0] not in ('Enum', 'Any'):
    s[1]['is_noneable'] = True
  if rng.chance(0.1) and s[0] in ('Int', 'Str', 'Bool') and 'default' in s[1]:
    s[1]['frozen'] = True
  return s


def gen_geno(rng, depth):
  k = rng.weighted([(3, 'oneof'), (2, 'manyof'), (2, 'floatv'), (2 if depth > 0 else 0, 'space')])
  if k == 'floatv':
    return ['floatv', rng.choice([0.0, -1.0]), rng.choice([1.0, 2.5])]
  if k == 'oneof':
    n = rng.randint(2, 4)
    return ['oneof', [gen_geno(rng, depth - 1) if depth > 0 and rng.chance(0.3) else i for i in range(n)]]
  if k == 'manyof':
    n = rng.randint(2, 4)
    return ['manyof', rng.randint(1, n), list(range(n)), rng.chance(0.5), rng.chance(0.5)]
  return ['space', [gen_geno(rng, depth - 1) for _ in range(rng.randint(1, 3))]]


# ------------------------------------------------------------------------------------------
# Implementation side
# ------------------------------------------------------------------------------------------

class _Impl:
  """Everything that touches pyglove (instantiated per worker in setup_impl)."""

  def __init__(self):
    import copy
    import pickle
    import tempfile
    import pyglove as pg
    from pyglove.core import io as pg_io
    from harness import c05_classes
    self.pg, self.pg_io, self.copy, self.pickle, self.tempfile = pg, pg_io, copy, pickle, tempfile
    self.classes = c05_classes.CLASSES
    self.classes = dict(self.classes, N=c05_classes.N)
    self.cls_of_key = {c.__type_name__: c for c in self.classes.values()}
    self.mod = c05_classes
    # A second in-memory mount, as any user may register one: its own tree, the same mount-relative paths.
    self.mounts = {'/mem': pg_io.file_system._fs.get('/mem/x')}   # pylint: disable=protected-access
    self.mounts['/scratch'] = pg_io.file_system.MemoryFileSystem('/scratch/')
    pg_io.file_system.add_file_system('/scratch/', self.mounts['/scratch'])
    from harness import typing_vocab as tv
    tv._CLS = c05_classes.VOCAB      # module-level twins: nameable in JSON   # pylint: disable=protected-access
    self.tv = tv
    env = self.env_from_classes()
    if env != ENV:
      raise AssertionError('harness ENV out of sync with harness/c05_classes.py: %s' % json.dumps(env))

  # -- class environment from the real schemas ------------------------------------------------
  def env_from_classes(self):
    pg = self.pg
    vs = pg.typing
    out = []
    for name in ('P', 'Q', 'R', 'S', 'W', 'W2'):
      cls = self.classes[name]
      fields = []
      for key, field in cls.__schema__.fields.items():
        v = field.value
        if isinstance(v, vs.Any):
          kind = 'any'
        elif isinstance(v, vs.Bool):
          kind = 'bool'
        elif isinstance(v, vs.Int):
          kind = 'int'
        elif isinstance(v, vs.Str):
          kind = 'str'
        elif isinstance(v, vs.List):
          kind = 'list'
        elif isinstance(v, vs.Dict):
          kind = 'dict'
        elif isinstance(v, vs.Object):
          kind = ['obj', v.cls.__type_name__]
        else:
          raise AssertionError('unmodelled spec %r' % v)
        d = {'name': str(key), 'kind': kind, 'noneable': bool(v.is_noneable), 'frozen': bool(v.frozen)}
        if v.has_default:
          d['default'] = self.to_wire(v.default)
        fields.append(d)
      out.append([cls.__type_name__, fields])
    return {'classes': out}

  # -- wire <-> python ------------------------------------------------------------------------
  def ftok(self, f):
    if math.isnan(f):
      return 'nan'
    if math.isinf(f):
      return 'inf' if f > 0 else '-inf'
    return f.hex()

  def to_wire(self, v):
    pg = self.pg
    if v is None or isinstance(v, (bool, int, str)):
      return v
    if isinstance(v, float):
      return {'f': self.ftok(v)}
    if pg.MISSING_VALUE == v:
      return {'m': 1}
    if isinstance(v, tuple):
      return {'t': [self.to_wire(x) for x in v]}
    if isinstance(v, list):
      return {'l': [self.to_wire(x) for x in (v.sym_values() if isinstance(v, pg.List) else v)]}
    if isinstance(v, dict):
      items = v.sym_items() if isinstance(v, pg.Dict) else v.items()
      return {'d': [[self.wire_key(k), self.to_wire(x)] for k, x in items]}
    if isinstance(v, pg.Object):
      return {'o': type(v).__serialization_key__, 'a': [[str(k), self.to_wire(x)] for k, x in v.sym_items()]}
    if isinstance(v, pg.KeyPath):
      return str(v)                       # a key path is its path string (which is also its JSON form)
    if isinstance(v, type) and '<locals>' not in v.__qualname__:
      # a class value is `{'_type': 'type', 'name': …}`: an object of the pseudo-class 'type'
      return {'o': 'type', 'a': [['name', '%s.%s' % (v.__module__, v.__qualname__)]]}
    return {'opaque': type(v).__name__}

  def wire_key(self, k):
    if isinstance(k, bool) or not isinstance(k, (str, int)):
      raise AssertionError('unexpected key %r' % (k,))
    return k

  def build(self, t):
    pg = self.pg
    if isinstance(t, dict):
      if 'f' in t:
        return float(t['f']) if t['f'] in ('nan', 'inf', '-inf') else float.fromhex(t['f'])
      if 'm' in t:
        return pg.MISSING_VALUE
      if 'l' in t:
        return pg.List([self.build(x) for x in t['l']])
      if 't' in t:
        return tuple(self.build(x) for x in t['t'])
      if 'd' in t:
        return pg.Dict({k: self.build(v) for k, v in t['d']})
      if 'o' in t:
        cls = self.cls_of_key[t['o']]
        kw, partial = {}, False
        for k, v in t['a']:
          if cls.__schema__.get_field(k).value.frozen:
            continue
          if isinstance(v, dict) and 'm' in v:
            partial = True
            continue
          kw[k] = self.build(v)
        return cls.partial(**kw) if partial else cls(**kw)
      raise AssertionError('bad tree %r' % (t,))
    return t

  def jv_wire(self, j):
    if j is None or isinstance(j, (bool, int, str)):
      return j
    if isinstance(j, float):
      return {'f': self.ftok(j)}
    if isinstance(j, list):
      return {'l': [self.jv_wire(x) for x in j]}
    if isinstance(j, dict):
      return {'d': [[self.wire_key(k), self.jv_wire(x)] for k, x in j.items()]}
    raise AssertionError('to_json produced a non-JSON value %r' % (j,))

  def jv_build(self, w):
    if isinstance(w, dict):
      if 'f' in w:
        return float(w['f']) if w['f'] in ('nan', 'inf', '-inf') else float.fromhex(w['f'])
      if 'l' in w:
        return [self.jv_build(x) for x in w['l']]
      return {k: self.jv_build(v) for k, v in w['d']}
    return w

  def attempt(self, f):
    try:
      return {'ok': f()}
    except Exception as e:   # pylint: disable=broad-except
      return {'err': type(e).__name__}

  # -- oracle helpers -------------------------------------------------------------------------
  def has_nan(self, t):
    return tree_has(t, lambda x: isinstance(x, dict) and x.get('f') == 'nan')

  def wf_problems(self, root):
    pg = self.pg
    probs = []
    if isinstance(root, pg.Symbolic):
      if root.sym_parent is not None:
        probs.append('root has a parent')
      if list(root.sym_path.keys):
        probs.append('root path %s' % root.sym_path)

    def visit(n):
      if isinstance(n, tuple):
        for x in n:
          visit(x)
        return
      if not isinstance(n, pg.Symbolic):
        return
      for k, c in n.sym_items():
        if isinstance(c, pg.Symbolic):
          if c.sym_parent is not n:
            probs.append('child %s of %s: wrong parent' % (k, n.sym_path))
          if list(c.sym_path.keys) != list(n.sym_path.keys) + [k]:
            probs.append('child %s of %s: path %s' % (k, n.sym_path, c.sym_path))
        visit(c)
    visit(root)
    return probs

  def probe(self, v):
    """Behaviour probe: outcomes of a fixed set of (mostly illegal) writes on every object /
    typed container of a deep clone of `v`."""
    pg = self.pg
    out = []
    try:
      v = pg.clone(v, deep=True) if isinstance(v, pg.Symbolic) else self.copy.deepcopy(v)
    except Exception as e:   # pylint: disable=broad-except
      return ['clone:%s' % type(e).__name__]

    def attempt(label, f):
      try:
        f()
        out.append(label + ':ok')
      except Exception as e:   # pylint: disable=broad-except
        out.append('%s:%s' % (label, type(e).__name__))

    def visit(n, path):
      if len(out) > 60:
        return
      if isinstance(n, tuple):
        for i, x in enumerate(n):
          visit(x, path + '(%d)' % i)
        return
      if not isinstance(n, pg.Symbolic):
        return
      for k, c in list(n.sym_items()):
        visit(c, '%s/%s' % (path, k))
      if isinstance(n, pg.Object):
        for key, field in type(n).__schema__.fields.items():
          name = str(key)
          attempt('%s.%s=obj' % (path, name), lambda: n.rebind({name: object()}))
          attempt('%s.%s=None' % (path, name), lambda: n.rebind({name: None}))
          attempt('%s.%s=-7' % (path, name), lambda: n.rebind({name: -7}))
        attempt('%s.unknown' % path, lambda: n.rebind({'no_such_field': 1}))
      elif isinstance(n, pg.Dict) and n.value_spec is not None:
        attempt('%s[unknown]' % path, lambda: n.__setitem__('no_such_key', 1))
      elif isinstance(n, pg.List) and n.value_spec is not None:
        attempt('%s.append(str)' % path, lambda: n.append('zz'))
        attempt('%s.extend' % path, lambda: n.extend([1, 2, 3, 4, 5]))
    visit(v, '')
    return out

  def same(self, v, v2, with_nan):
    """List of differences between the original and a reloaded / copied value."""
    pg = self.pg
    diffs = []
    if type(v) is not type(v2):
      diffs.append('type %s vs %s' % (type(v).__name__, type(v2).__name__))
    if with_nan:
      # pg.eq cannot hold for NaN (IEEE); compare the structure instead
      if self.to_wire(v) != self.to_wire(v2):
        diffs.append('structure')
    else:
      try:
        if not (pg.eq(v, v2) and pg.eq(v2, v)):
          diffs.append('pg.eq')
      except Exception as e:   # pylint: disable=broad-except
        diffs.append('pg.eq raises %s' % type(e).__name__)
      ha, hb = self.attempt(lambda: pg.hash(v)), self.attempt(lambda: pg.hash(v2))
      if ha != hb:
        diffs.append('pg.hash')
    probs = self.wf_problems(v2)
    if probs:
      diffs.append('not well-formed: %s' % probs[0])
    return diffs

  # -- case kinds -----------------------------------------------------------------------------
  def codec(self, case):
    t = case['value']
    try:
      v = self.build(t)
    except Exception as e:   # pylint: disable=broad-except
      return {'build_error': type(e).__name__, 'msg': str(e)[:200]}
    return self.codec_value(case, v, t)

  # -- library classes compared through a class environment built from their real schemas ------
  def dyn_value(self, case):
    pg = self.pg
    what = case['what']
    P, Q = self.classes['P'], self.classes['Q']
    if what in ('hyper', 'dnaspec'):
      self._names = 0
      h = pg.Dict(x=self.build_geno(case['expr']))
      return pg.dna_spec(h) if what == 'dnaspec' else h
    if what == 'diff':
      a = Q(a=pg.Dict(u=1, v=[1, 2]), n=3)
      b = Q(a=pg.Dict(u=case['expr'], v=[1, 3]), n=None, b=True)
      return pg.diff(a, b)
    if what == 'functor':
      # every argument bound by the caller (an argument left at its default is not "bound": callable cases, F378)
      return pg.Dict(f=self.mod.vocab_functor(case['expr'], 1), g=self.mod.vocab_functor(1, y=[case['expr'], (1, 'a')]))
    raise AssertionError(what)

  def kind_of(self, spec):
    T = self.pg.typing
    if isinstance(spec, T.Bool):
      return 'bool'
    if isinstance(spec, T.Int):
      return 'int'
    if isinstance(spec, T.Str):
      return 'str'
    if isinstance(spec, T.List) and isinstance(spec.element.value, T.Any) and spec.max_size is None:
      return 'list'
    if isinstance(spec, T.Dict) and spec.schema is None:
      return 'dict'
    return 'any'            # richer spec: the model only needs "accepts the values the library built"

  def class_fields(self, cls):
    T = self.pg.typing
    fields = []
    for k, f in cls.__schema__.fields.items():
      spec = f.value
      d = {'name': str(k), 'kind': self.kind_of(spec),
           'noneable': bool(spec.is_noneable) or isinstance(spec, T.Any), 'frozen': bool(spec.frozen)}
      if spec.has_default:
        w = self.to_wire(spec.default)
        if '"opaque"' not in json.dumps(w):
          d['default'] = w
      fields.append(d)
    return fields

  def geno_env(self):
    from pyglove.core import geno
    return [[c.__serialization_key__, self.class_fields(c)]
            for c in (geno.Space, geno.Choices, geno.Float, geno.CustomDecisionPoint)]

  def dyn_env(self, v):
    """ENV extended with the schemas of every other pg.Object class occurring in `v` (None if a
    class has non-constant keys or a default the tree wire cannot express)."""
    pg = self.pg
    T = pg.typing
    found, uses_type = {}, [False]

    def visit(x):
      if isinstance(x, pg.Object):
        found[type(x).__serialization_key__] = type(x)
      if isinstance(x, type):
        uses_type[0] = True
      if isinstance(x, pg.Symbolic):
        for _, c in x.sym_items():
          visit(c)
      elif isinstance(x, (list, tuple)):
        for c in x:
          visit(c)
      elif isinstance(x, dict):
        for c in x.values():
          visit(c)
    visit(v)
    env = {'classes': list(ENV['classes'])}
    known = {c[0] for c in ENV['classes']}
    if uses_type[0]:
      env['classes'].append(['type', [_f('name', 'str')]])
    for key in sorted(found):
      if key in known:
        continue
      fields = []
      for k, f in found[key].__schema__.fields.items():
        if not isinstance(k, T.ConstStrKey):
          return None
        spec = f.value
        d = {'name': str(k), 'kind': self.kind_of(spec),
             'noneable': bool(spec.is_noneable) or isinstance(spec, T.Any), 'frozen': bool(spec.frozen)}
        if spec.has_default:
          d['default'] = self.to_wire(spec.default)
          if '"opaque"' in json.dumps(d['default']):
            # a default the tree wire cannot express (e.g. the sentinel `Diff.MISSING`): the model sees a
            # required field, which is the same thing on values that carry every attribute
            del d['default']
        fields.append(d)
      env['classes'].append([key, fields])
    return env

  def dyn(self, case):
    v = self.dyn_value(case)
    t = self.to_wire(v)
    out = self.codec_value({'ap': False}, v, t)
    out['wire'] = t
    return out

  def codec_value(self, case, v, t):
    pg = self.pg
    ap = case['ap']
    built = self.to_wire(v)
    out = {'built_same': built == t}
    model = {}
    j = self.attempt(lambda: pg.to_json(v))
    if 'err' in j:
      return {'to_json_error': j['err']}
    jw = self.jv_wire(j['ok'])
    model['json'] = jw
    ai = case.get('auto_import', True)
    loaded = self.attempt(lambda: pg.from_json(pg.to_json(v), allow_partial=ap, auto_import=ai))
    model['rt'] = {'ok': self.to_wire(loaded['ok'])} if 'ok' in loaded else loaded
    s = pg.to_json_str(v)
    model['json_str'] = self.jv_wire(json.loads(s))
    loaded_s = self.attempt(lambda: pg.from_json_str(s, allow_partial=ap, auto_import=ai))
    model['rt_str'] = {'ok': self.to_wire(loaded_s['ok'])} if 'ok' in loaded_s else loaded_s
    if case.get('opts'):
      kw = case['opts']
      jo = self.attempt(lambda: pg.to_json(v, **kw))
      lo = self.attempt(lambda: pg.from_json(pg.to_json(v, **kw), allow_partial=ap))
      so = self.attempt(lambda: pg.from_json_str(pg.to_json_str(v, json_indent=2, **kw), allow_partial=ap))
      out['opts_model'] = {'json': self.jv_wire(jo['ok']) if 'ok' in jo else jo,
                           'rt': {'ok': self.to_wire(lo['ok'])} if 'ok' in lo else lo}
      out['opts_checks'] = {}
      for name, res in (('opts-obj', lo), ('opts-str', so)):
        out['opts_checks'][name] = (['raises %s' % res['err']] if 'err' in res
                                    else self.same(v, res['ok'], self.has_nan(t)))
    out['model'] = model
    nan = self.has_nan(t)
    checks = {}
    for name, res in (('obj', loaded), ('str', loaded_s)):
      if 'err' in res:
        checks[name] = ['raises %s' % res['err']]
      else:
        d = self.same(v, res['ok'], nan)
        if not d and self.probe(v) != self.probe(res['ok']):
          d.append('behaviour probe differs')
        checks[name] = d
    # pickle / deepcopy (implementation only)
    for name, f in (('pickle', lambda: self.pickle.loads(self.pickle.dumps(v))),
                    ('deepcopy', lambda: self.copy.deepcopy(v))):
      res = self.attempt(f)
      if 'err' in res:
        checks[name] = ['raises %s' % res['err']]
      else:
        d = self.same(v, res['ok'], nan)
        if not d and isinstance(v, pg.Symbolic) and res['ok'] is v:
          d.append('not a copy')
        checks[name] = d
    out['checks'] = checks
    return out

  def load(self, case):
    pg = self.pg
    ap = case['ap']
    if case['kind'] == 'load':
      ad = bool(case.get('auto_dict'))
      res = self.attempt(lambda: pg.from_json(self.jv_build(case['json']), allow_partial=ap, auto_dict=ad))
    else:
      text = json.dumps(self.jv_build(case['json']))
      res = self.attempt(lambda: pg.from_json_str(text, allow_partial=ap))
    if 'ok' in res:
      v = res['ok']
      w = self.to_wire(v)
      out = {'model': {'rt': {'ok': w}}}
      # whatever loads must itself round-trip if it is encodable
      if not reserved_shapes(w, True) and not self.has_nan(w):
        again = self.attempt(lambda: pg.from_json(pg.to_json(v), allow_partial=True))
        out['reload'] = ['raises %s' % again['err']] if 'err' in again else self.same(v, again['ok'], False)
      probs = self.wf_problems(v)
      out['wf'] = probs[:1]
      return out
    return {'model': {'rt': res}}

  def reset_mem(self):
    for fs in self.mounts.values():
      fs._root.clear()   # pylint: disable=protected-access

  def run_ops(self, ops, root):
    """Runs a history; `root` is '/mem' or a temp dir standing in for it (or one root per mount:
    an operation with 'mt': i addresses the same mount-relative path under roots[i])."""
    pg, pg_io = self.pg, self.pg_io
    outs = []
    handles = []

    def mp(op):
      r = root[op.get('mt', 0)] if isinstance(root, list) else root
      if r == '':       # relative to the working directory: '/mem/name' is the bare file name 'name'
        return op['p'][len('/mem'):].lstrip('/') or '.'
      return r + op['p'][len('/mem'):]

    for op in ops:
      k = op['k']
      if k in ('hread', 'hreadline', 'hwrite', 'hclose'):
        f = handles[op['h']] if op['h'] < len(handles) else None
        if f is None:
          outs.append({'err': 'NoHandle'})
          continue
        try:
          if k == 'hread':
            outs.append({'c': f.read() if op['n'] is None else f.read(op['n'])})
          elif k == 'hreadline':
            outs.append({'c': f.readline()})
          elif k == 'hwrite':
            f.write(op['c'])
            outs.append(None)
          else:
            f.close()
            outs.append(None)
        except Exception as e:   # pylint: disable=broad-except
          outs.append({'err': type(e).__name__})
        continue
      p = mp(op)
      if k == 'hopen':
        try:
          handles.append(pg_io.open(p, op['m']))
          outs.append({'h': True})
        except Exception as e:   # pylint: disable=broad-except
          handles.append(None)
          outs.append({'err': type(e).__name__})
        continue
      try:
        if k == 'save':
          pg.save(self.build(op['v']), p)
          outs.append(None)
        elif k == 'load':
          c = pg_io.readfile(p)
          o = {'c': c}
          o['v'] = self.attempt(lambda: self.to_wire(pg.load(p)))
          outs.append(o)
        elif k == 'write':
          pg_io.writefile(p, op['c'], mode=op['m'])
          outs.append(None)
        elif k == 'mkdirs':
          pg_io.mkdirs(p)
          outs.append(None)
        elif k == 'seqw':
          with pg_io.open_sequence(p, op['m']) as f:
            for r in op['r']:
              f.add(r)
          outs.append(None)
        elif k == 'seqr':
          with pg_io.open_sequence(p, 'r') as f:
            outs.append({'r': list(iter(f))})
        elif k == 'jw':
          with pg.open_jsonl(p, op['m']) as f:
            for v in op['v']:
              f.add(self.build(v))
          outs.append(None)
        elif k == 'jr':
          with pg_io.open_sequence(p, 'r') as f:
            raw = list(iter(f))

          def read_values():
            with pg.open_jsonl(p, 'r') as g:
              return [self.to_wire(x) for x in iter(g)]
          outs.append({'r': raw, 'v': self.attempt(read_values)})
        elif k == 'exists':
          outs.append(bool(pg_io.path_exists(p)))
        elif k == 'listdir':
          outs.append({'n': list(pg_io.listdir(p))})
        else:
          raise AssertionError(k)
      except Exception as e:   # pylint: disable=broad-except
        outs.append({'err': type(e).__name__})
    for f in handles:          # OS handles must not leak out of the case (memory files: no effect on later cases)
      if f is not None and root != '/mem':
        try:
          f.close()
        except Exception:   # pylint: disable=broad-except
          pass
    return outs

  def store(self, case):
    self.reset_mem()
    outs = self.run_ops(case['ops'], '/mem')
    model = []
    for o in outs:
      if isinstance(o, dict) and 'v' in o and 'r' in o:
        model.append({'r': o['r']})
      elif isinstance(o, dict) and 'v' in o:
        model.append({'c': o['c']})
      else:
        model.append(o)
    out = {'model': {'outs': model}, 'outs': outs}
    if not case.get('messy') and case['kind'] == 'store':
      with self.tempfile.TemporaryDirectory(prefix='c05-') as tmp:
        if case.get('rel'):       # the same history with paths relative to the working directory
          cwd = os.getcwd()
          os.chdir(tmp)
          try:
            std = self.run_ops(case['ops'], '')
          finally:
            os.chdir(cwd)
        else:
          std = self.run_ops(case['ops'], tmp)
      out['std'] = [sorted(o['n']) if isinstance(o, dict) and 'n' in o else o for o in std]
    self.reset_mem()
    return out

  def mounts_case(self, case):
    self.reset_mem()
    outs = self.run_ops(case['ops'], list(MOUNTS))
    model = []
    for o in outs:
      if isinstance(o, dict) and 'v' in o and 'r' in o:
        model.append({'r': o['r']})
      elif isinstance(o, dict) and 'v' in o:
        model.append({'c': o['c']})
      else:
        model.append(o)
    out = {'model': {'outs': model}, 'outs': outs}
    with self.tempfile.TemporaryDirectory(prefix='c05-') as tmp:
      roots = [os.path.join(tmp, 'A'), os.path.join(tmp, 'B')]
      for r in roots:
        os.mkdir(r)
      std = self.run_ops(case['ops'], roots)
    out['std'] = [sorted(o['n']) if isinstance(o, dict) and 'n' in o else o for o in std]
    self.reset_mem()
    return out

  # -- several functions made from ONE code object (different defaults) --------------------------
  FAM_PROBES = (0, 1, 7)

  def fnfam_case(self, case):
    pg = self.pg
    fns = [getattr(self.mod, fam)[i] for fam, i in case['members']]
    want = [[f(x) for x in self.FAM_PROBES] for f in fns]
    how = case['how']
    base = '/mem/c05_fnfam/'
    self.reset_mem()

    def one_value():
      return list(pg.from_json(pg.to_json(pg.Dict(fs=list(fns)))).fs)

    def one_value_str():
      return list(pg.from_json_str(pg.to_json_str(pg.List(list(fns)))))

    def consecutive():
      return [pg.from_json(pg.to_json(f)) for f in fns]

    def written_then_loaded():
      js = [pg.to_json_str(f) for f in fns]
      return [pg.from_json_str(j) for j in js]

    def files():
      for n, f in enumerate(fns):
        pg.save(pg.Dict(f=f), base + 'v%d.json' % n)
      return [pg.load(base + 'v%d.json' % n).f for n in range(len(fns))]

    def jsonl():
      with pg.open_jsonl(base + 'fns.jsonl', 'w') as w:
        for f in fns:
          w.add(pg.Dict(f=f))
      with pg.open_jsonl(base + 'fns.jsonl', 'r') as r:
        return [x.f for x in r]

    run = {'one-value': one_value, 'one-value-str': one_value_str, 'consecutive': consecutive,
           'written-then-loaded': written_then_loaded, 'files': files, 'jsonl': jsonl}[how]
    res = self.attempt(run)
    self.reset_mem()
    if 'err' in res:
      return {'problems': ['raises %s' % res['err']], 'model': None}
    got = res['ok']
    problems = []
    if len(got) != len(fns):
      problems.append('%d functions written, %d loaded' % (len(fns), len(got)))
    for n, (g, w) in enumerate(zip(got, want)):
      b = self.attempt(lambda: [g(x) for x in self.FAM_PROBES])
      if b != {'ok': w}:
        problems.append('function %d (%s[%d]) answers %s to the probe calls %s, the one written answers %s' % (
            n, case['members'][n][0], case['members'][n][1], json.dumps(b)[:80], list(self.FAM_PROBES), w))
    # What the model is asked: the JSON of every function (code payload, defaults) and what the loads gave.
    codes, fnjs = {}, []
    for f in fns:
      j = pg.to_json(f)
      if not (isinstance(j, dict) and 'code' in j):
        return {'problems': problems, 'model': None}
      fnjs.append({'code': codes.setdefault(j['code'], len(codes)), 'defaults': list(f.__defaults__ or ())})
    return {'problems': problems, 'fnjs': fnjs,
            'model': {'loaded': [list(getattr(g, '__defaults__', None) or ()) for g in got]}}

  # -- value specs (state = what the public properties show) -----------------------------------
  def opt_tree(self, v):
    return {'absent': True} if self.pg.MISSING_VALUE == v else self.to_wire(v)

  def vflags(self, spec):
    return [bool(spec.is_noneable), self.opt_tree(spec.default), bool(spec.frozen)]

  def vkey_wire(self, ks):
    T = self.pg.typing
    if isinstance(ks, T.ConstStrKey):
      return ['c', ks.text]
    if isinstance(ks, T.StrKey):
      return ['k', ks.regex.pattern if ks.regex is not None else None]
    if isinstance(ks, T.ListKey):
      return ['lk', ks.min_value, ks.max_value]
    if isinstance(ks, T.TupleKey):
      return ['tk', ks.index]
    return ['?', repr(ks)]

  def vschema_wire(self, schema):
    fields = []
    for ks, f in schema.items():
      md = f.metadata
      fields.append(['field', self.vkey_wire(ks), self.vs_wire(f.value), f.description,
                     self.to_wire(md) if md else {'absent': True}])
    md = schema.metadata
    return ['schema', fields, schema.name, bool(schema.allow_nonconst_keys),
            self.to_wire(md) if md else {'absent': True}]

  def vs_wire(self, spec):
    T = self.pg.typing
    F = self.vflags(spec)
    name = lambda c: '%s.%s' % (c.__module__, c.__qualname__)
    if isinstance(spec, T.Any):
      return ['any', F]
    if isinstance(spec, T.Bool):
      return ['bool', F]
    if isinstance(spec, T.Int):
      return ['int', spec.min_value, spec.max_value, F]
    if isinstance(spec, T.Float):
      b = lambda x: None if x is None else self.ftok(float(x))
      return ['float', b(spec.min_value), b(spec.max_value), F]
    if isinstance(spec, T.Str):
      return ['str', spec.regex.pattern if spec.regex is not None else None, F]
    if isinstance(spec, T.Enum):
      return ['enum', [self.to_wire(v) for v in spec.values], F]
    if isinstance(spec, T.List):
      return ['list', self.vs_wire(spec.element.value), spec.min_size, spec.max_size, F]
    if isinstance(spec, T.Tuple):
      if spec.fixed_length:
        return ['tuplef', [self.vs_wire(f.value) for f in spec.elements], F]
      return ['tuplev', self.vs_wire(spec.elements[0].value), spec.min_size, spec.max_size, F]
    if isinstance(spec, T.Dict):
      # the one hidden bit `to_json` consults: was the default given or generated from the schema
      explicit = (not spec._use_generated_default       # pylint: disable=protected-access
                  and self.pg.MISSING_VALUE != spec.default)
      if not explicit:
        F = [F[0], {'absent': True}, F[2]]
      return ['dict', self.vschema_wire(spec.schema) if spec.schema is not None else None, explicit, F]
    if isinstance(spec, T.Object):
      return ['obj', name(spec.cls), F]
    if isinstance(spec, T.Type):
      d = spec.default
      return ['type', name(spec.type), None if self.pg.MISSING_VALUE == d or d is None else name(d),
              bool(spec.is_noneable), bool(spec.frozen)]
    if isinstance(spec, T.Union):
      return ['union', [self.vs_wire(c) for c in spec.candidates], F]
    if isinstance(spec, T.Callable):
      r = spec.return_value
      return ['callable', [self.vs_wire(a) for a in spec.args], None if r is None else self.vs_wire(r), F]
    return ['?', type(spec).__name__]

  def vspec_build(self, case):
    T = self.pg.typing
    P = self.classes['P']
    if 'desc' in case:
      return self.tv.build(case['desc'])
    return {
        'callable0': lambda: T.Callable(),
        'callable1': lambda: T.Callable([T.Int(), T.Str(regex='a.*')], returns=T.Bool()).noneable(),
        'callable2': lambda: T.Callable([T.List(T.Int())]),
        'type0': lambda: T.Type(P),
        'type1': lambda: T.Type(P, default=P).noneable(),
        'obj0': lambda: T.Object(P).noneable(),
        'schemaP': lambda: self.classes['P'].__schema__,
        'schemaR': lambda: self.classes['R'].__schema__,
        'schemaS': lambda: self.classes['S'].__schema__,
        'schemaT': lambda: self.classes['T'].__schema__,
        'field_desc': lambda: T.Dict([T.Field('a', T.Int(), 'a field', {'m': (1, 2)}),
                                      (T.StrKey(), T.Any())]),
    }[case['extra']]()

  def vspec_mutated(self, j, m):
    j = dict(j)
    if m[0] == 'add':
      j[m[1]] = 1
    else:
      j.pop(m[1], None)
    return j

  def vspec_state(self, case):
    """(state wire, is it inside the model) of the spec / schema of a case; None if it cannot be built."""
    try:
      spec = self.vspec_build(case)
    except (TypeError, ValueError, KeyError):
      return None
    T = self.pg.typing
    w = self.vschema_wire(spec) if isinstance(spec, T.Schema) else self.vs_wire(spec)
    text = json.dumps(w)
    return w, not ('"opaque"' in text or '"?"' in text or '"o"' in text or '"nan"' in text), isinstance(spec, T.Schema)

  def vspec(self, case):
    pg = self.pg
    T = pg.typing
    try:
      spec = self.vspec_build(case)
    except (TypeError, ValueError, KeyError) as e:
      return {'build_error': type(e).__name__}
    is_schema = isinstance(spec, T.Schema)
    wire = self.vschema_wire if is_schema else self.vs_wire
    j = self.attempt(lambda: pg.to_json(spec))
    if 'err' in j:
      return {'to_json_error': j['err']}
    loaded = self.attempt(lambda: pg.from_json(pg.to_json(spec)))
    model = {'json': self.attempt(lambda: self.jv_wire(j['ok'])).get('ok'),
             'rt': {'ok': wire(loaded['ok'])} if 'ok' in loaded else loaded}
    problems = []
    for form, f in (('obj', lambda: pg.from_json(pg.to_json(spec))),
                    ('str', lambda: pg.from_json_str(pg.to_json_str(spec))),
                    ('str-indent', lambda: pg.from_json_str(pg.to_json_str(spec, json_indent=2)))):
      res = self.attempt(f)
      if 'err' in res:
        problems.append('[%s] raises %s' % (form, res['err']))
        continue
      r = res['ok']
      if type(r) is not type(spec):
        problems.append('[%s] type' % form)
      elif not (r == spec) or not pg.eq(r, spec):
        if not (self.copy.deepcopy(spec) == spec):
          problems.append('[%s] spec unequal to its own copy' % form)     # an equality defect (F231), not the codec
        else:
          problems.append('[%s] not equal' % form)
      elif wire(r) != wire(spec):
        problems.append('[%s] public state differs' % form)
      elif not is_schema:
        # behavioural equality: apply-probes
        for pv in case.get('probes', []):
          v = self.attempt(lambda: self.tv.to_py(pv))
          if 'err' in v:
            continue
          a = self.attempt(lambda: self.tv.from_py(spec.apply(copy_value(v['ok']), allow_partial=True)))
          b = self.attempt(lambda: self.tv.from_py(r.apply(copy_value(v['ok']), allow_partial=True)))
          if a != b:
            problems.append('[%s] apply(%s) differs: %s vs %s' % (form, json.dumps(pv)[:80], a, b))
            break
    if case.get('mutate'):
      jm = self.vspec_mutated(j['ok'], case['mutate'])
      res = self.attempt(lambda: pg.from_json(json.loads(json.dumps(jm))))
      model = {'rt': {'ok': wire(res['ok'])} if 'ok' in res else res}
      return {'model': model, 'problems': [], 'kind': type(spec).__name__ + ':mutated'}
    return {'model': model, 'problems': problems, 'kind': type(spec).__name__,
            'empty_tuple': '"t": []' in json.dumps(wire(spec)),
            'empty_fixed_tuple': '["tuplef", []' in json.dumps(wire(spec))}

  # -- histories around serialisation ----------------------------------------------------------
  def hist_apply(self, v, step):
    pg = self.pg
    node = v
    for k in step['path'][:-1]:
      node = node.sym_getattr(k)
    last = step['path'][-1]
    if step['op'] == 'set':
      if isinstance(node, pg.List):
        node[last] = self.build(step['v'])
      else:
        node.rebind({last: self.build(step['v'])})
    elif step['op'] == 'append':
      node.sym_getattr(last).append(self.build(step['v']))
    else:
      node.sym_getattr(last)[step['key']] = self.build(step['v'])

  def hist_query(self, v):
    pg = self.pg

    def visit(n):
      if isinstance(n, pg.Symbolic):
        _ = n.sym_nondefault()
        _ = n.sym_missing()
        _ = n.is_partial
        for _, c in n.sym_items():
          visit(c)
    visit(v)

  def hist_states(self, case):
    """The value (tree wire) and the options at every serialisation of the history."""
    v = self.build(case['value'])
    out = []
    for step in case['steps']:
      if step['op'] == 'ser':
        out.append((self.to_wire(v), step['opts']))
      elif step['op'] != 'query':
        try:
          self.hist_apply(v, step)
        except Exception:   # pylint: disable=broad-except
          pass
    return out

  def hist(self, case):
    pg = self.pg
    v = self.build(case['value'])
    outs, model = [], []
    path = '/mem/c05_hist/value.json'
    self.reset_mem()
    for step in case['steps']:
      if step['op'] == 'query':
        self.hist_query(v)
        outs.append(None)
        continue
      if step['op'] != 'ser':
        outs.append(self.attempt(lambda: self.hist_apply(v, step)).get('err'))
        continue
      kw = step['opts'] or {}
      cur = self.to_wire(v)
      fresh = self.build(cur)
      if step['via'] == 'json':
        j = pg.to_json(v, **kw)
        loaded = self.attempt(lambda: pg.from_json(pg.to_json(v, **kw), allow_partial=True))
      elif step['via'] == 'str':
        text = pg.to_json_str(v, **kw)
        j = json.loads(text)
        loaded = self.attempt(lambda: pg.from_json_str(text, allow_partial=True))
      else:
        pg.save(v, path, **kw)
        raw = self.pg_io.readfile(path)
        try:
          j = json.loads(raw)
        except ValueError:
          # what the file holds after the save is not even JSON (e.g. the tail of an earlier, longer save
          # survived an overwrite): an observation for the oracle, not a harness failure
          j = {'__saved_file_is_not_json__': str(raw)[:120]}
        loaded = self.attempt(lambda: pg.load(path))
      jf = pg.to_json(fresh, **kw)
      rec = {'json': self.jv_wire(j), 'fresh_same': self.jv_wire(j) == self.jv_wire(jf), 'cur': cur,
             'rt': {'ok': self.to_wire(loaded['ok'])} if 'ok' in loaded else loaded}
      outs.append(rec)
      model.append({'json': rec['json'], 'rt': rec['rt']})
    self.reset_mem()
    return {'outs': outs, 'model': {'outs': model}}

  # -- sequence backends: aliasing between what a read returns and what the store holds --------
  def mutate_in_place(self, x):
    pg = self.pg
    try:
      if isinstance(x, dict):
        x['zz_mut'] = 1
      elif isinstance(x, list):
        x.append('zz_mut')
    except Exception:   # pylint: disable=broad-except
      pass

  def seq(self, case):
    pg, pg_io = self.pg, self.pg_io
    from pyglove.core.io import sequence as seq_mod
    for ext in ('x.mem',):
      io = seq_mod._registry.get(ext)                # pylint: disable=protected-access
      if hasattr(io, '_root'):
        io._root.clear()                             # pylint: disable=protected-access
      if hasattr(io, '_decoded'):
        io._decoded.clear()                          # pylint: disable=protected-access
    self.reset_mem()
    tmp = self.tempfile.TemporaryDirectory(prefix='c05-seq-') if case['backend'] == 'std' else None
    paths = [os.path.join(tmp.name, q) if tmp else q for q in SEQ_PATHS[case['backend']]]
    outs, held = [], []
    try:
      for op in case['ops']:
        try:
          if op['k'] == 'add':
            with pg.open_jsonl(paths[op['p']], op['m']) as f:
              for v in op['v']:
                f.add(self.build(v))
            outs.append(None)
          elif op['k'] == 'add2':
            a, b = pg.open_jsonl(paths[op['p']], 'a'), pg.open_jsonl(paths[op['p']], 'a')
            for i in range(max(len(op['v1']), len(op['v2']))):
              if i < len(op['v1']):
                a.add(self.build(op['v1'][i]))
              if i < len(op['v2']):
                b.add(self.build(op['v2'][i]))
            b.close()
            a.close()
            outs.append(None)
          elif op['k'] == 'mutate':
            recs = held[op['r']]
            if op['i'] < len(recs):
              self.mutate_in_place(recs[op['i']])
            outs.append(None)
          else:
            path = paths[op['p']]
            with pg_io.open_sequence(path, 'r') as f:
              raw = list(iter(f))

            def read_values():
              if op['k'] == 'read2':
                g1, g2 = pg.open_jsonl(path, 'r'), pg.open_jsonl(path, 'r')
                try:
                  first = list(iter(g1))
                  for x in first:
                    self.mutate_in_place(x)
                  return list(iter(g2))
                finally:
                  g1.close()
                  g2.close()
              with pg.open_jsonl(path, 'r') as f:
                return list(iter(f))
            res = self.attempt(read_values)
            recs = res.get('ok', [])
            held.append(recs)
            outs.append({'r': raw, 'v': [self.to_wire(x) for x in recs] if 'ok' in res else res})
        except Exception as e:   # pylint: disable=broad-except
          if op['k'] in ('read', 'read2'):
            held.append([])
          outs.append({'err': type(e).__name__})
    finally:
      if tmp:
        tmp.cleanup()
    self.reset_mem()
    return {'outs': outs, 'model': {'reads': [{'r': o['r']} if isinstance(o, dict) and 'r' in o else o
                                              for op, o in zip(case['ops'], outs) if op['k'] in ('read', 'read2')]}}

  # -- callables of every origin -------------------------------------------------------------
  PLAIN_FN = ('module-def', 'module-lambda', 'class-body-def', 'class-body-lambda', 'nested-def', 'nested-lambda')

  def callable_case(self, case):
    pg = self.pg
    origin, wrap = case['origin'], case['wrap']
    f = self.mod.CALLABLES[origin]
    if wrap == 'leaf':
      v, fields = pg.Dict(f=f, k=1), [('f', origin)]
    elif wrap == 'list':
      v, fields = pg.Dict(f=pg.List([1, f])), [('f', origin)]
    elif wrap == 'field':
      v, fields = self.mod.FD(fn=f, x=1), [('fn', origin)]
    else:     # the unchanged defaults of the class: a module lambda, a module def, a class-body lambda
      v, fields = self.mod.FD(), [('fn', 'module-lambda'), ('gn', 'module-def'), ('hn', 'class-body-lambda')]

    def pick(x, name):
      r = x.sym_getattr(name) if isinstance(x, pg.Object) else x[name]
      return r[1] if isinstance(r, list) else r

    def behave(g):
      if origin.startswith('functor'):     # which arguments are bound decides what a call accepts
        return [self.attempt(lambda: g()), self.attempt(lambda: g(y=3)), self.attempt(lambda: g(x=5)),
                self.attempt(lambda: sorted(g.specified_args))]
      return self.attempt(lambda: g('abc') if g is len or getattr(g, '__name__', '') == 'len' else g(3))

    j = self.attempt(lambda: pg.to_json(v))
    if 'err' in j:
      return {'problems': ['to_json raises %s' % j['err']], 'model': None}
    model = {}
    for name, org in fields:
      node = j['ok'][name]
      node = node[1] if isinstance(node, list) else node
      if org in self.PLAIN_FN:
        model[org] = isinstance(node, dict) and 'code' in node
    if origin == 'inherited-classmethod':
      back = self.attempt(lambda: pick(pg.from_json(pg.to_json(v)), fields[0][0]).__self__ is f.__self__)
      model['inherited_method_keeps_class'] = back.get('ok', False)
    problems = []
    path = '/mem/c05_callable/value.json'
    for form, g in (('obj', lambda: pg.from_json(pg.to_json(v))),
                    ('str', lambda: pg.from_json_str(pg.to_json_str(v))),
                    ('save-load', lambda: (pg.save(v, path), pg.load(path))[1])):
      res = self.attempt(g)
      if 'err' in res:
        problems.append('[%s] raises %s' % (form, res['err']))
        continue
      r = res['ok']
      if type(r) is not type(v):
        problems.append('[%s] type' % form)
        continue
      for name, org in fields:
        a, b = pick(v, name), pick(r, name)
        ba, bb = behave(a), behave(b)
        if ba != bb:
          problems.append('[%s] %s behaves differently after the round trip (probe calls: written %s, loaded %s)' % (
              form, name, json.dumps(ba, default=str)[:160], json.dumps(bb, default=str)[:160]))
        elif org in ('module-def', 'class-body-def', 'builtin', 'classmethod', 'inherited-classmethod') and not (a == b):
          problems.append('[%s] %s is not the same function' % (form, name))
    return {'problems': problems, 'model': model}

  # -- DNA ---------------------------------------------------------------------------------------
  def py_nest(self, n):
    if isinstance(n, dict):
      if 'q' in n:
        return n['q'][0] / n['q'][1]
      if 'l' in n:
        return [self.py_nest(x) for x in n['l']]
      return tuple(self.py_nest(x) for x in n['t'])
    return n

  def nest_wire(self, v):
    if isinstance(v, float):
      a, b = v.as_integer_ratio()
      return {'q': [a, b]}
    if isinstance(v, tuple):
      return {'t': [self.nest_wire(x) for x in v]}
    if isinstance(v, list):
      return {'l': [self.nest_wire(x) for x in v]}
    return v

  def ratio_tok(self, f):
    a, b = f.as_integer_ratio()
    return '%d/%d' % (a, b)

  def dna(self, case):
    pg = self.pg
    try:
      d = pg.DNA(self.py_nest(case['nest']))
    except ValueError:
      return {'model': {'parse': 'ValueError'}}
    if case['meta']:
      for k, v in case['meta']['d']:
        d.set_metadata(k, self.build(v), cloneable=k in case['cloneable'])
    noncloneable = bool(case['meta']) and any(k not in case['cloneable'] for k, _ in case['meta']['d'])
    child = False
    if case['child_meta'] and d.children:
      d.children[0].set_metadata('note', 5)
      child = True
      noncloneable = True
    hexftok, self.ftok = self.ftok, self.ratio_tok
    try:
      model = {'json': self.jv_wire(pg.to_json(d))}
      loaded = self.attempt(lambda: pg.from_json(pg.to_json(d)))
      if 'ok' in loaded:
        r = loaded['ok']
        model['rt'] = {'ok': {'nest': self.nest_wire(r.to_json(compact=True, type_info=False)),
                              'meta': self.to_wire(r.metadata),
                              'cloneable': sorted(r._cloneable_metadata_keys)}}   # pylint: disable=protected-access
      else:
        model['rt'] = loaded
    finally:
      self.ftok = hexftok
    checks = {}
    for form, f in (('obj', lambda: pg.from_json(pg.to_json(d))),
                    ('str', lambda: pg.from_json_str(pg.to_json_str(d))),
                    ('str-indent', lambda: pg.from_json_str(pg.to_json_str(d, json_indent=2))),
                    ('pickle', lambda: self.pickle.loads(self.pickle.dumps(d))),
                    ('deepcopy', lambda: self.copy.deepcopy(d))):
      res = self.attempt(f)
      if 'err' in res:
        checks[form] = ['raises %s' % res['err']]
      else:
        r = res['ok']
        diffs = []
        if type(r) is not type(d):
          diffs.append('type')
        same = self.attempt(lambda: r == d)
        if not same.get('ok'):
          diffs.append('==')
        if form == 'deepcopy' and noncloneable:
          # metadata set with cloneable=False is dropped by clone / deepcopy by design
          pass
        else:
          if not pg.eq(r, d):
            diffs.append('pg.eq')
          if pg.hash(r) != pg.hash(d):
            diffs.append('pg.hash')
          if not pg.eq(r.metadata, d.metadata):
            diffs.append('root metadata')
        checks[form] = diffs
    def normal(n, is_child=False):
      v, cs = n.value, n.children
      if is_child and v is None and not cs:
        return False
      if v is None and len(cs) == 1:
        return False
      if len(cs) == 1 and cs[0].value is None:
        return False
      if cs and v is not None and not isinstance(v, (int, float)):
        return False
      return all(normal(c, True) for c in cs)
    return {'model': model, 'checks': checks, 'child_meta': child, 'normal': normal(d),
            'reserved': reserved_shapes(self.to_wire(d.to_json(compact=True, type_info=False)), False)}

  # -- specs, schemas, geno, DNA, functions ----------------------------------------------------
  def build_spec(self, s):
    vs = self.pg.typing
    name, kw = s
    kw = dict(kw)
    if name == 'Enum':
      if 'default' not in kw:
        kw['default'] = vs.MISSING_VALUE
      return vs.Enum(kw.pop('default'), kw.pop('values'), **kw)
    if name in ('Object', 'Type'):
      return getattr(vs, name)(self.classes[kw.pop('t')], **kw)
    if name == 'List':
      return vs.List(self.build_spec(kw.pop('element_value')), **kw)
    if name == 'Tuple':
      ev = kw.pop('element_values')
      if ev and isinstance(ev[0], str):
        return vs.Tuple(self.build_spec(ev), **kw)
      return vs.Tuple([self.build_spec(e) for e in ev], **kw)
    if name == 'Dict':
      fields = []
      for k, sub in kw.pop('schema'):
        key = vs.StrKey(k[3:]) if k.startswith('re:') else k
        fields.append((key, self.build_spec(sub)))
      return vs.Dict(fields, **kw)
    if name == 'Union':
      return vs.Union([self.build_spec(c) for c in kw.pop('candidates')], **kw)
    if name == 'Callable':
      args = [self.build_spec([a, {}]) for a in kw.pop('args', [])]
      ret = kw.pop('returns', None)
      return vs.Callable(args, returns=self.build_spec([ret, {}]) if ret else None, **kw)
    return getattr(vs, name)(**kw)

  def build_geno(self, g):
    pg = self.pg
    # names and hints: derived from the shape, so about half of the decision points carry them
    extra = {}
    if len(json.dumps(g)) % 2:
      self._names = getattr(self, '_names', 0) + 1
      extra['name'] = 'n%d' % self._names        # decision-point names must be unique
    if len(json.dumps(g)) % 3 == 0:
      extra['hints'] = {'k': len(g), 't': (1, 'x')}
    if g[0] == 'floatv':
      return pg.floatv(g[1], g[2], **extra)
    if g[0] == 'oneof':
      return pg.oneof([self.build_geno(c) if isinstance(c, list) else c for c in g[1]], **extra)
    if g[0] == 'manyof':
      return pg.manyof(g[1], g[2], distinct=g[3], sorted=g[4], **extra)
    return pg.Dict({'k%d' % i: self.build_geno(c) for i, c in enumerate(g[1])})

  def spec(self, case):
    import random
    pg = self.pg
    what = case['what']
    problems = []
    sig = None

    def rt(name, v, eq):
      for form, f in (('obj', lambda: pg.from_json(pg.to_json(v))),
                      ('str', lambda: pg.from_json_str(pg.to_json_str(v)))):
        res = self.attempt(f)
        if 'err' in res:
          problems.append('%s[%s] raises %s' % (name, form, res['err']))
        elif not eq(v, res['ok']) or type(res['ok']) is not type(v):
          problems.append('%s[%s] differs after the round trip' % (name, form))

    if what == 'spec':
      v = self.build_spec(case['expr'])
      rt('value spec', v, lambda a, b: a == b)
      j = pg.to_json(v)
      sig = [type(v).__name__, sorted(k for k in j if k != '_type')]
      if not problems:
        v2 = pg.from_json(pg.to_json(v))
        # schema-backed behaviour: the reloaded spec accepts / rejects the same probe values
        for probe in (None, 0, -1, 7, 'a', 'foo', True, 0.5, [], [1], (1, 'a'), {}, {'a': 1}):
          a = self.attempt(lambda: self.to_wire(v.apply(probe)))
          b = self.attempt(lambda: self.to_wire(v2.apply(probe)))
          if a != b:
            problems.append('apply(%r) differs after the round trip' % (probe,))
            break
    elif what == 'schema':
      cls = self.classes[case['expr']]
      rt('schema', cls.__schema__, lambda a, b: a == b)
    elif what == 'geno':
      self._names = 0
      hyper = pg.Dict(x=self.build_geno(case['expr']))
      spec = pg.dna_spec(hyper)
      rt('dna spec', spec, pg.eq)
      rnd = random.Random(case['seed'])
      dna = pg.random_dna(spec, rnd)
      rt('dna', dna, lambda a, b: a == b)
      rt('hyper value', hyper, pg.eq)
      for name, f in (('pickle', lambda: self.pickle.loads(self.pickle.dumps(dna))),
                      ('deepcopy', lambda: self.copy.deepcopy(dna))):
        res = self.attempt(f)
        if 'err' in res or res['ok'] != dna:
          problems.append('dna %s' % name)
    elif what == 'typed':
      vs = pg.typing
      v = [
          lambda: pg.List([1, 2], value_spec=vs.List(vs.Int(min_value=0), max_size=3)),
          lambda: pg.Dict(x=1, value_spec=vs.Dict([('x', vs.Int()), ('z', vs.Int(default=3))])),
          lambda: pg.Dict(x=1, value_spec=vs.Dict([('x', vs.Int()), ('y', vs.Int().freeze(5))])),
          lambda: pg.Dict.partial(z=2, value_spec=vs.Dict([('x', vs.Int()), ('z', vs.Int(default=3))])),
          lambda: pg.Dict(k1=1, k2=2, value_spec=vs.Dict([(vs.StrKey('k.*'), vs.Int())])),
      ][case['expr']]()
      tm = TYPED_MODEL.get(case['expr'])
      if tm is not None:
        # observables the Lean model of typed containers predicts
        if self.to_wire(v) != ({'l': tm['items']} if tm['op'] == 'typed_list' else {'d': tm['items']}):
          raise AssertionError('TYPED_MODEL out of sync: %s' % self.to_wire(v))
        loaded = self.attempt(lambda: pg.from_json(pg.to_json(v), allow_partial=True))
        outcomes = []
        for w in (tm['appends'] if tm['op'] == 'typed_list' else tm['writes']):
          c = pg.clone(v, deep=True)
          if tm['op'] == 'typed_list':
            r = self.attempt(lambda: c.append(self.build(w)))
          else:
            r = self.attempt(lambda: c.__setitem__(w[0], self.build(w[1])))
          outcomes.append(r.get('err', 'ok'))
        typed_model = {'json': self.jv_wire(pg.to_json(v)),
                       'rt': {'ok': self.to_wire(loaded['ok'])} if 'ok' in loaded else loaded,
                       'writes': outcomes}
      else:
        typed_model = None
      for form, f in (('obj', lambda: pg.from_json(pg.to_json(v), allow_partial=True)),
                      ('str', lambda: pg.from_json_str(pg.to_json_str(v), allow_partial=True))):
        res = self.attempt(f)
        tag = 'typed-container-%d' % case['expr']
        if 'err' in res:
          problems.append('%s-raises: [%s] raises %s' % (tag, form, res['err']))
          continue
        d = self.same(v, res['ok'], False)
        if d:
          problems.append('%s-value: value differs after the round trip: %s' % (tag, d[0]))
        elif self.probe(v) != self.probe(res['ok']):
          problems.append('%s-spec-lost: schema-backed behaviour differs (value_spec not serialised)' % tag)
    elif what == 'misc':
      P, Q = self.classes['P'], self.classes['Q']
      diff = pg.diff(Q(a=P(1, 'a'), n=3), Q(a=P(2, 'a'), n=None))
      rt('diff', diff, pg.eq)
      rt('opaque set (pickle fallback)', pg.Dict(s={1, 2, 'x'}), lambda a, b: a.s == b.s)
      ref = self.attempt(lambda: pg.to_json(pg.Dict(a=pg.Ref(P(1)))))
      if ref != {'err': 'TypeError'}:
        problems.append('pg.Ref is documented as not serialisable (TypeError), got %s' % (ref,))
      rt('keypath', pg.Dict(p=pg.KeyPath.parse('a.b[0]')), lambda a, b: a.p == b.p)
    elif what == 'func':
      for name, v in (('class', self.classes[case['expr']]), ('function', self.mod.module_function),
                      ('builtin', len), ('type', int), ('method', self.classes['P'].make)):
        res = self.attempt(lambda: pg.from_json_str(pg.to_json_str(pg.Dict(f=v))).f)
        if 'err' in res:
          problems.append('%s raises %s' % (name, res['err']))
        elif res['ok'] != v:
          problems.append('%s differs' % name)
    out = {'problems': problems, 'sig': sig}
    if what == 'typed':
      out['typed_model'] = typed_model
    return out


# ------------------------------------------------------------------------------------------
# The property
# ------------------------------------------------------------------------------------------

class C05(Prop):
  id = 'C05'
  props_modules = ['PgProps.C05']
  driver = 'drv_c05'
  translators = [t_c05.run, t_c05.run_fn]
  case_timeout_s = 30
  rule = ('codec: values generated as trees (leaves None/bool/small+big ints/float tokens incl. inf,-0.0,nan/'
          'strings with control, non-BMP and marker-like text; pg.List, tuples, pg.Dict with str and int keys, '
          'objects of 6 registered classes incl. partial ones, depth <= 4), ~12 % with exactly one injected '
          'reserved shape; load: arbitrary JSON incl. `_type` dicts with one mutation (unknown class, '
          'non-string _type, unknown / missing / ill-typed / frozen / int-keyed field, reordered); load_str: '
          '`n_:` keys of all spellings int() accepts or rejects; store: histories of save/load/append/'
          'read/exists/listdir/mkdirs over 1-6 prefix-free /mem paths drawn from names over {m,e,a,x,…} '
          '(replayed on a temp dir of the OS file system too) plus a messy stream (paths inside files, '
          'double slashes); hstore: histories over 1-3 paths with OPEN HANDLES as state (open r/w/a, partial '
          'read / readline / write through the handle, handles left open across later save / overwrite / '
          'append / load of the same path, closed later or never; own-position abstract store as spec); '
          'hist: serialise / mutate at depth 1-3 / query memoised state / serialise again under all options, via '
          'JSON, text and saved file; callable: functions of 9 origins from an importable module as leaf, list item, '
          'field value and unchanged field default; seq: add / read / mutate-returned-record / two readers on '
          '.mem, .mem@N, line sequences on /mem and the OS file system; spec: value specs / schemas / geno specs / DNA / functions. Non-trivial: a '
          'container or object value, a history with a write and a later read, a composite spec.')
  trusted_base = [
      "Python's json.dumps / json.loads (the text layer is an abstract bijection in the string-form theorem)",
      'pickle, copy.deepcopy, the OS file system (implementation-side oracle only)',
      'io.StringIO (code-point read / readline / write with NUL padding are modelled in C05Handles; the '
      'closed-handle theorems treat a file as its content)',
      'modelled, not verified: to_json / from_json / Object.__init__ binding for field kinds '
      'Any Bool Int Str List Dict Object, `n_:` key coding incl. int() on ASCII, MemoryFileSystem '
      '(_internal_path, _locate, mkdirs, open w/a, read), LineSequence; tied by correspondence',
      'stand-alone typed containers: modelled for const-key Dict / List with the field kinds above '
      '(sym_jsonify schema branch, schema-backed writes), tied by 4 fixed correspondence cases',
      'pg.DNA: compact JSON + root metadata + cloneable keys modelled on top of the C12 parse model (floats '
      'as exact ratios; the ratio <-> token map is the trusted float text layer); to_json options '
      'hide_frozen / hide_default_values and auto_dict modelled; jsonl = LineSequence + to_json_str',
      'outside the model (oracle only): typed containers with rich specs, Tuple/Enum/Float/Union fields, '
      'hyper primitives / DNASpec / Diff / functor objects (registered pg.Object classes with rich field '
      'specs), pg.KeyPath, the pickle fallback (sets), auto_import, non-compact DNA form, '
      'value specs (argument-record level only: T-SIG table + C05_sig_roundtrip), schemas, geno specs, DNA, '
      'functions / classes by name, MemorySequence (.mem), opaque-object fallback (pickle in base64)',
  ]
  assumptions = ['a Python dict has distinct keys (Conforms: keysNodup)',
                 'objects satisfy their class schema when built by the library (C03), i.e. `Conforms`',
                 'store theorems: paths are well located (PathOK; proved for canonical "/mem/d1/../name" strings) '
                 'and their locations prefix-free (a file is never inside a file); raw writefile / mkdirs / '
                 'exists / listdir and the error paths are correspondence only']

  _impl = None

  def setup_impl(self):
    super().setup_impl()
    if C05._impl is None:
      C05._impl = _Impl()

  # -- generation ---------------------------------------------------------------------------
  def extra_checks(self, ctx):
    """The class schemas the Lean theorem about DNASpec is stated over (`genoEnv`) are the schemas
    of the real geno classes, as the harness derives class environments from real schemas."""
    from harness.common import framework
    self.setup_impl()
    try:
      got = framework.Driver(self.driver).run([{'op': 'geno_env'}])[0]['classes']
    except Exception as e:   # pylint: disable=broad-except
      ctx.broken.append({'kind': 'correspondence', 'name': 'C05 genoEnv', 'detail': 'driver: %s' % e})
      return
    want = C05._impl.geno_env()
    if got != want:
      ctx.broken.append({'kind': 'correspondence', 'name': 'C05 genoEnv vs the schemas of pg.geno classes',
                         'detail': 'lean=%s real=%s' % (json.dumps(got)[:400], json.dumps(want)[:400])})

  def generate(self, rng, tier):
    quick = tier == 'quick'
    n_codec = 1400 if quick else 60000
    n_load = 500 if quick else 20000
    n_store = 300 if quick else 15000
    n_spec = 120 if quick else 3000
    for i in range(n_codec):
      rich = rng.chance(0.25)
      tg = TreeGen(rng, rich=rich)
      t = tg.tree(rng.weighted([(1, 0), (3, 1), (4, 2), (3, 3), (2, 4)]))
      if rng.chance(0.12):
        shape = rng.choice(['empty-tuple', 'tuple-marker-list', 'type-key-str', 'type-key-int', 'int-key-prefix'])
        t = inject_reserved(rng, t, shape)
      case = {'kind': 'codec', 'value': t, 'ap': tree_has(t, lambda x: isinstance(x, dict) and 'm' in x) or rng.chance(0.3)}
      if rng.chance(0.3):
        case['opts'] = {'hide_frozen': rng.chance(0.5), 'hide_default_values': rng.chance(0.7)}
      yield case
    for i in range(60 if quick else 2500):
      tg = TreeGen(rng)
      inner = {'o': MOD + 'N', 'a': [['x', rng.choice([0, 7, -3])], ['w', tg.tree(rng.below(3))]]}
      t = rng.choice([inner, {'l': [1, inner]}, {'d': [['k', inner], ['z', tg.tree(1)]]},
                      {'o': MOD + 'Q', 'a': [['a', inner], ['b', False], ['n', None]]}])
      yield {'kind': 'codec', 'value': t, 'ap': tree_has(t, lambda x: isinstance(x, dict) and 'm' in x),
             'auto_import': rng.chance(0.6)}
    for i in range(n_load):
      sf = rng.chance(0.4)
      ad = (not sf) and rng.chance(0.35)
      jg = JsonGen(rng, str_form=sf, unknown_bias=ad)
      case = {'kind': 'load_str' if sf else 'load', 'json': jg.value(rng.randint(0, 3)), 'ap': rng.chance(0.4)}
      if ad:
        case['auto_dict'] = True
      yield case
    for i in range(n_store):
      if rng.chance(0.2):
        yield gen_messy_store_case(rng)
      else:
        case = gen_store_case(rng, rich_records=rng.chance(0.1), objects=rng.chance(0.25))
        if rng.chance(0.2):
          case['rel'] = True
        yield case
    for i in range(300 if quick else 15000):
      yield gen_hstore_case(rng)
    for i in range(300 if quick else 10000):
      yield gen_dna_case(rng)
    for i in range(400 if quick else 12000):
      yield gen_vspec_case(rng)
    for i in range(300 if quick else 12000):
      yield gen_seq_case(rng)
    for i in range(300 if quick else 12000):
      yield gen_hist_case(rng)
    origins = ['module-def', 'module-lambda', 'class-body-lambda', 'class-body-def', 'nested-def', 'nested-lambda',
               'builtin', 'classmethod', 'partial', 'inherited-classmethod', 'lambda-kwonly-default',
               'functor-default-unbound', 'functor-default-bound', 'functor-override-args']
    for origin in origins:                       # small and exhaustive: every origin in every position
      for wrap in ('leaf', 'list', 'field'):
        yield {'kind': 'callable', 'origin': origin, 'wrap': wrap}
    yield {'kind': 'callable', 'origin': 'module-lambda', 'wrap': 'default'}
    for i in range(60 if quick else 2000):
      yield gen_fnfam_case(rng)
    for i in range(250 if quick else 12000):
      yield gen_mounts_case(rng)
    for i in range(200 if quick else 6000):
      what = rng.weighted([(4, 'hyper'), (4, 'dnaspec'), (2, 'diff'), (2, 'functor')])
      if what in ('hyper', 'dnaspec'):
        yield {'kind': 'dyn', 'what': what, 'expr': gen_geno(rng, 2)}
      else:
        yield {'kind': 'dyn', 'what': what, 'expr': rng.choice([0, 5, 'x', None, -2])}
    if not quick:
      yield from self.exhaustive_paths()
    for i in range(n_spec):
      k = rng.weighted([(6, 'spec'), (1, 'schema'), (3, 'geno'), (1, 'func'), (1, 'typed'), (1, 'misc')])
      if k == 'spec':
        yield {'kind': 'spec', 'what': 'spec', 'expr': gen_spec(rng, rng.randint(0, 3))}
      elif k == 'geno':
        yield {'kind': 'spec', 'what': 'geno', 'expr': gen_geno(rng, 2), 'seed': rng.below(1000)}
      elif k == 'typed':
        yield {'kind': 'spec', 'what': 'typed', 'expr': rng.below(5)}
      else:
        yield {'kind': 'spec', 'what': k, 'expr': rng.choice(['P', 'Q', 'R', 'S', 'T', 'U'])}

  def exhaustive_paths(self):
    """Every pair of distinct prefix-free paths of length <= 3 over {m, e, /, ., a} (where the
    lstrip defect lives): write both, read both."""
    alpha = 'me/.a'
    names = ['']
    for _ in range(3):
      names = names + [n + c for n in names for c in alpha if len(n) < 3]
    names = sorted({n for n in names if n and norm_path('/mem/' + n) and '.' not in norm_path('/mem/' + n)
                    and '..' not in norm_path('/mem/' + n) and not n.endswith('/')})
    for a in names:
      for b in names:
        ka, kb = norm_path('/mem/' + a), norm_path('/mem/' + b)
        if ka == kb or ka[:len(kb)] == kb or kb[:len(ka)] == ka:
          continue
        yield {'kind': 'store', 'ops': [
            {'k': 'save', 'p': '/mem/' + a, 'v': 'first-longer-content'}, {'k': 'save', 'p': '/mem/' + b, 'v': 2},
            {'k': 'save', 'p': '/mem/' + a, 'v': 1},
            {'k': 'load', 'p': '/mem/' + a}, {'k': 'load', 'p': '/mem/' + b}]}

  def search_cases(self, rng, tier, broken):
    yield from self.generate(rng.fork(), 'quick')
    yield from self.generate(rng.fork(), 'quick')
    yield {'kind': 'spec', 'what': 'spec', 'expr': ['Enum', {'values': [1, 2]}]}

  # -- execution ----------------------------------------------------------------------------
  def impl(self, case):
    self.setup_impl()
    im = C05._impl
    k = case['kind']
    if k == 'codec':
      return im.codec(case)
    if k in ('load', 'load_str'):
      return im.load(case)
    if k in ('store', 'hstore'):
      return im.store(case)
    if k == 'spec':
      return im.spec(case)
    if k == 'dna':
      return im.dna(case)
    if k == 'vspec':
      return im.vspec(case)
    if k == 'dyn':
      return im.dyn(case)
    if k == 'callable':
      return im.callable_case(case)
    if k == 'fnfam':
      return im.fnfam_case(case)
    if k == 'mounts':
      return im.mounts_case(case)
    if k == 'seq':
      return im.seq(case)
    if k == 'hist':
      return im.hist(case)
    raise AssertionError(k)

  def model_request(self, case):
    k = case['kind']
    if k == 'codec':
      if not is_model_tree(case['value']):
        return None
      req = {'op': 'codec', 'env': ENV_IMPORT if case.get('auto_import') else ENV, 'value': case['value'],
             'ap': case['ap']}
      if case.get('opts'):
        req['hide_frozen'] = case['opts']['hide_frozen']
        req['hide_default_values'] = case['opts']['hide_default_values']
      return req
    if k == 'callable':
      return {'op': 'fn'}
    if k == 'fnfam':
      # The JSON of each function as the real writer produced it (code payload numbered by first occurrence).
      self.setup_impl()
      im = C05._impl
      codes, fnjs = {}, []
      for fam, i in case['members']:
        f = getattr(im.mod, fam)[i]
        j = im.attempt(lambda: im.pg.to_json(f))
        if 'err' in j or not (isinstance(j['ok'], dict) and 'code' in j['ok']):
          return None
        fnjs.append({'code': codes.setdefault(j['ok']['code'], len(codes)), 'defaults': list(f.__defaults__ or ())})
      return {'op': 'fnload', 'fns': fnjs}
    if k == 'mounts':
      ops = []
      for op in lower_ops(case['ops']):
        if op['k'] == 'save':
          ops.append({'k': 'save', 'p': op['p'], 'c': json_text_of_tree(op['v']), 'mt': op['mt']})
        else:
          ops.append(op)
      return {'op': 'mounts', 'cfg': 'patched', 'ops': ops}
    if k == 'hist':
      self.setup_impl()
      items = []
      for cur, opts in C05._impl.hist_states(case):
        o = opts or {'hide_frozen': True, 'hide_default_values': False}
        items.append({'value': cur, 'hide_frozen': o['hide_frozen'], 'hide_default_values': o['hide_default_values']})
      return {'op': 'codec_many', 'env': ENV, 'items': items}
    if k == 'seq':
      b = case['backend']
      if b == 'std':
        return None
      paths = SEQ_PATHS[b]
      if b in ('mem', 'memN'):
        ops = []
        for op in case['ops']:
          if op['k'] == 'add':
            ops.append({'k': 'add', 'p': paths[op['p']], 'm': op['m'], 'r': [json_text_of_tree(v) for v in op['v']]})
          elif op['k'] == 'add2':
            ops.append({'k': 'add', 'p': paths[op['p']], 'm': 'a',
                        'r': [json_text_of_tree(v) for v in interleave(op['v1'], op['v2'])]})
          elif op['k'] == 'mutate':
            ops.append({'k': 'mutate'})
          else:
            ops.append({'k': 'read', 'p': paths[op['p']]})
        return {'op': 'memseq', 'ops': ops}
      # line sequences on /mem: the handle-level model (two appenders are two open handles)
      ops, nh = [], 0
      for op in case['ops']:
        if op['k'] == 'add':
          ops.append({'k': 'seqw', 'p': paths[op['p']], 'm': op['m'], 'r': [json_text_of_tree(v) for v in op['v']]})
        elif op['k'] == 'add2':
          q = paths[op['p']]
          ops.append({'k': 'mkdirs', 'p': os.path.dirname(q)})
          ops.append({'k': 'hopen', 'p': q, 'm': 'a'})
          ops.append({'k': 'hopen', 'p': q, 'm': 'a'})
          for i in range(max(len(op['v1']), len(op['v2']))):
            if i < len(op['v1']):
              ops.append({'k': 'hwrite', 'h': nh, 'c': json_text_of_tree(op['v1'][i]) + '\n'})
            if i < len(op['v2']):
              ops.append({'k': 'hwrite', 'h': nh + 1, 'c': json_text_of_tree(op['v2'][i]) + '\n'})
          ops.append({'k': 'hclose', 'h': nh + 1})
          ops.append({'k': 'hclose', 'h': nh})
          nh += 2
        elif op['k'] == 'mutate':
          ops.append({'k': 'exists', 'p': paths[0]})
        else:
          ops.append({'k': 'seqr', 'p': paths[op['p']]})
      return {'op': 'hstore', 'cfg': HANDLE_MODEL, 'ops': ops}
    if k == 'dyn':
      self.setup_impl()
      im = C05._impl
      v = im.dyn_value(case)
      t = im.to_wire(v)
      env = im.dyn_env(v)
      if env is None or '"opaque"' in json.dumps(t) or not is_model_tree_any(t):
        return None
      return {'op': 'codec', 'env': env, 'value': t, 'ap': False}
    if k in ('load', 'load_str'):
      req = {'op': k, 'env': ENV, 'json': case['json'], 'ap': case['ap']}
      if case.get('auto_dict'):
        req['auto_dict'] = True
      return req
    if k == 'store':
      ops = []
      for op in lower_ops(case['ops']):
        if op['k'] == 'save':
          ops.append({'k': 'save', 'p': op['p'], 'c': json_text_of_tree(op['v'])})
        else:
          ops.append(op)
      return {'op': 'store', 'cfg': 'patched', 'ops': ops}
    if k == 'dna':
      return {'op': 'dna', 'nest': case['nest'], 'meta': case['meta'], 'cloneable': case['cloneable']}
    if k == 'vspec':
      self.setup_impl()
      st = C05._impl.vspec_state(case)
      if st is None or not st[1]:
        return None
      if case.get('mutate'):
        im = C05._impl
        j = im.attempt(lambda: im.jv_wire(im.vspec_mutated(im.pg.to_json(im.vspec_build(case)), case['mutate'])))
        return {'op': 'vspec_load', 'json': j['ok']} if 'ok' in j else None
      return {'op': 'vspec', 'schema' if st[2] else 'spec': st[0]}
    if k == 'hstore':
      ops = []
      for op in case['ops']:
        if op['k'] == 'save':
          ops.append({'k': 'save', 'p': op['p'], 'c': json_text_of_tree(op['v'])})
        else:
          ops.append(op)
      return {'op': 'hstore', 'cfg': HANDLE_MODEL, 'ops': ops}
    if k == 'spec' and case['what'] == 'spec':
      return {'op': 'sig'}
    if k == 'spec' and case['what'] == 'typed' and case['expr'] in TYPED_MODEL:
      return TYPED_MODEL[case['expr']]
    return None

  def compare(self, case, impl_out, model_out):
    k = case['kind']
    if k == 'hist':
      a, b = impl_out['model']['outs'], model_out['outs']
      for i, (x, y) in enumerate(zip(a, b)):
        if x != y:
          return 'serialisation %d of the history: impl=%s model=%s' % (i, json.dumps(x)[:300], json.dumps(y)[:300])
      return None if len(a) == len(b) else 'different number of serialisations'
    if k == 'seq':
      reads = [o for o in model_out['outs'] if isinstance(o, dict) and ('r' in o or 'err' in o)]
      a = impl_out['model']['reads']
      return None if a == reads else 'sequence reads: impl=%s model=%s' % (json.dumps(a)[:300], json.dumps(reads)[:300])
    if k == 'callable':
      if impl_out.get('model') is None:
        return None
      for org, by_code in impl_out['model'].items():
        if model_out.get(org) != by_code:
          return 'function of origin %s: written by code (for a class method: bound class kept) = %s, model says %s' % (
              org, by_code, model_out.get(org))
      return None
    if k == 'dyn':
      case = {'value': impl_out['wire'], 'kind': 'codec'}
      k = 'codec'
    if k == 'codec':
      if 'model' not in impl_out:
        return None       # value could not be built / serialised: nothing to compare
      if not impl_out.get('built_same'):
        return None       # the library normalised the input while building it
      a = impl_out['model']
      b = {x: model_out.get(x) for x in ('json', 'rt', 'json_str', 'rt_str')}
      if a != b:
        for x in a:
          if a[x] != b[x]:
            return '%s: impl=%s model=%s' % (x, json.dumps(a[x])[:300], json.dumps(b[x])[:300])
      if model_out['encodable'] != (not reserved_shapes(case['value'], False)):
        return 'Encodable (Lean) and reserved_shapes (harness) disagree'
      if model_out['encodable_str'] != (not reserved_shapes(case['value'], True)):
        return 'Encodable true (Lean) and reserved_shapes (harness) disagree'
      if not model_out['conforms'] and case.get('auto_import', True) and 'auto_import' not in case:
        return 'the library built a value the model calls non-conforming'
      if case.get('opts'):
        a, b = impl_out['opts_model'], model_out.get('opts')
        if a != b:
          return 'options %s: impl=%s model=%s' % (case['opts'], json.dumps(a)[:300], json.dumps(b)[:300])
      return None
    if k in ('load', 'load_str'):
      a, b = impl_out['model']['rt'], model_out['rt']
      return None if a == b else 'impl=%s model=%s' % (json.dumps(a)[:300], json.dumps(b)[:300])
    if k == 'fnfam':
      if impl_out.get('model') is None:
        return None
      a, b = impl_out['model']['loaded'], model_out['loaded']
      return None if a == b else 'defaults of the loaded functions: impl=%s model=%s' % (json.dumps(a)[:300], json.dumps(b)[:300])
    if k in ('store', 'hstore', 'mounts'):
      a, b = impl_out['model']['outs'], model_out['outs']
      if k == 'hstore':
        # Public-API projection: what a handle that predates a later 'w' of its path reads, and
        # what the path holds after a write through such a stale handle, is not fixed by the
        # property (POSIX keeps the inode, this file system may keep or replace the buffer):
        # those positions are not compared.
        mask = stale_mask(case['ops'])
        a = [None if m else x for x, m in zip(a, mask)]
        b = [None if m else x for x, m in zip(b, mask)]
      if a != b:
        for i, (x, y) in enumerate(zip(a, b)):
          if x != y:
            return 'op %d %s: impl=%s model=%s' % (i, json.dumps(case['ops'][i])[:120], json.dumps(x)[:200], json.dumps(y)[:200])
      return None
    if k == 'vspec':
      if 'model' not in impl_out:
        return None
      a, b = impl_out['model'], model_out
      return None if a == b else 'vspec: impl=%s model=%s' % (json.dumps(a)[:500], json.dumps(b)[:500])
    if k == 'dna':
      a, b = impl_out['model'], model_out
      return None if a == b else 'dna: impl=%s model=%s' % (json.dumps(a)[:400], json.dumps(b)[:400])
    if k == 'spec' and case['what'] == 'typed':
      a, b = impl_out['typed_model'], model_out
      return None if a == b else 'typed container: impl=%s model=%s' % (json.dumps(a)[:300], json.dumps(b)[:300])
    if k == 'spec':
      # T-SIG cross-check: the keys a real spec emits are keys of the extracted table
      cls, keys = impl_out['sig']
      rows = {r['cls']: r for r in model_out['rows']}
      if cls not in rows:
        return 'spec class %s missing from the T-SIG table' % cls
      emitted = {e[0] for e in rows[cls]['emitted']}
      if not set(keys) <= emitted:
        return 'T-SIG: %s.to_json emitted %s, table has %s' % (cls, keys, sorted(emitted))
      return None
    return None

  # -- the property itself ------------------------------------------------------------------
  def oracle(self, case, out):
    k = case['kind']
    if k == 'dyn':
      return self.oracle({'kind': 'codec', 'value': out['wire'], 'ap': False}, out)
    if k == 'hist':
      n = 0
      for i, (step, o) in enumerate(zip(case['steps'], out['outs'])):
        if step['op'] != 'ser':
          continue
        n += 1
        what = None
        if not o['fresh_same']:
          what = 'differs from the serialisation of a freshly built equal value'
        elif o['rt'] != {'ok': o['cur']}:
          what = 'does not load back to the current value: %s' % json.dumps(o['rt'])[:200]
        if what:
          return {'signature': 'hist:%s:%s' % ('first' if n == 1 else 'later', what.split(':')[0][:50]),
                  'what': 'step %d (%s, options %s, serialisation no. %d of the history) %s' % (
                      i, step['via'], step['opts'], n, what)}
      return None
    if k == 'seq':
      spec, two = {}, set()
      for i, (op, o) in enumerate(zip(case['ops'], out['outs'])):
        err = isinstance(o, dict) and o.get('err')
        if op['k'] == 'add':
          if err:
            return {'signature': 'seq:add-raises', 'what': 'op %d raises %s' % (i, err)}
          spec[op['p']] = (list(spec.get(op['p'], [])) if op['m'] == 'a' else []) + list(op['v'])
        elif op['k'] == 'add2':
          if err:
            return {'signature': 'seq:add-raises', 'what': 'op %d raises %s' % (i, err)}
          spec[op['p']] = list(spec.get(op['p'], [])) + interleave(op['v1'], op['v2'])
          two.add(op['p'])
        elif op['k'] in ('read', 'read2'):
          if op['p'] not in spec:
            continue          # never written in this history
          want = spec.get(op['p'], [])
          got = None if (err or not isinstance(o['v'], list)) else o['v']
          if op['p'] in two and got is not None:
            # the order in which two concurrent appenders' records land is the file system's business
            canon = lambda rs: sorted(json.dumps(r, sort_keys=True) for r in rs)
            same = canon(got) == canon(want)
          else:
            same = got == want
          if not same and op['p'] in two and case['backend'] == 'line':
            return {'signature': 'seq:line:two-appenders-lose-records',
                    'what': 'op %d: after two appenders were open together %s holds %s, appended %s' % (
                        i, SEQ_PATHS['line'][op['p']], json.dumps(o)[:200], json.dumps(want)[:200])}
          if not same:
            return {'signature': 'seq:%s:read-differs-from-appended' % case['backend'],
                    'what': 'op %d (%s on backend %s): read gives %s, appended %s' % (
                        i, op['k'], case['backend'], json.dumps(o)[:200], json.dumps(want)[:200])}
      return None
    if k == 'callable':
      if out['problems']:
        p0 = out['problems'][0]
        return {'signature': 'callable:%s:%s' % (case['origin'] if case['wrap'] != 'default' else 'field-default',
                                                  'behaves-differently' if 'behaves differently' in p0 else
                                                  'not-the-same-function' if 'not the same function' in p0 else
                                                  p0.split('] ')[-1].split(' raises')[0][:40]),
                'what': 'callable %s as %s: %s' % (case['origin'], case['wrap'], '; '.join(out['problems']))}
      return None
    if k == 'codec':
      if 'build_error' in out:
        return None
      if 'to_json_error' in out:
        return {'signature': 'to_json-raises:' + out['to_json_error'], 'what': 'to_json raises on %s' % json.dumps(case['value'])[:300]}
      for form, d in sorted((out.get('opts_checks') or {}).items()):
        if d:
          shapes = sorted(set(reserved_shapes(case['value'], form == 'opts-str')))
          sig = 'roundtrip:' + ('+'.join(shapes) if shapes else form + ':' + d[0].split(':')[0])
          return {'signature': sig, 'what': '%s %s round trip of %s: %s' % (form, case['opts'], json.dumps(case['value'])[:300], '; '.join(d))}
      for form in ('obj', 'str', 'pickle', 'deepcopy'):
        d = out['checks'][form]
        if d and case.get('auto_import') is False and form in ('obj', 'str') and d == ['raises TypeError']:
          continue        # the class is not registered and auto_import is off: the documented TypeError
        if d:
          if form in ('obj', 'str'):
            shapes = sorted(set(reserved_shapes(case['value'], form == 'str')))
            sig = 'roundtrip:' + ('+'.join(shapes) if shapes else form + ':' + d[0].split(':')[0])
          else:
            sig = '%s:%s' % (form, d[0].split(':')[0])
          return {'signature': sig,
                  'what': '%s round trip of %s: %s' % (form, json.dumps(case['value'])[:400], '; '.join(d))}
      return None
    if k in ('load', 'load_str'):
      if out.get('reload'):
        return {'signature': 'reload:' + out['reload'][0].split(':')[0],
                'what': 'a loaded value does not round-trip: %s' % out['reload']}
      if out.get('wf'):
        return {'signature': 'loaded-not-well-formed', 'what': out['wf'][0]}
      return None
    if k == 'store':
      if case.get('messy'):
        return None
      for label, outs in (('mem', out['outs']), ('std', out['std'])):
        f = self.store_oracle(case, outs, label)
        if f:
          return f
      return None
    if k == 'hstore':
      return self.hstore_oracle(case, out['outs'])
    if k == 'mounts':
      # Every mount is its own store: what it returns is what ITS operations alone explain.
      for label, outs in (('mem', out['outs']), ('std', out['std'])):
        for mt, name in enumerate(MOUNTS):
          idx = [i for i, op in enumerate(case['ops']) if op.get('mt', 0) == mt]
          f = self.store_oracle({'kind': 'store', 'ops': [case['ops'][i] for i in idx]}, [outs[i] for i in idx],
                                '%s, mount %s alone' % (label, name if label == 'mem' else 'AB'[mt]))
          if f:
            if f['signature'] not in ('store:record-with-newline', 'store:record-with-cr-on-std-fs'):   # F13d / F13e
              f['signature'] = 'mounts:' + f['signature']
            return f
      return None
    if k == 'fnfam':
      if out['problems']:
        p = out['problems'][0]
        return {'signature': 'fnfam:' + ('raises' if p.startswith('raises') else 'count' if 'loaded' in p.split(' answers')[0]
                                         else 'loaded-function-behaves-differently'),
                'what': 'functions %s sharing code objects, %s: %s' % (json.dumps(case['members']), case['how'],
                                                                        '; '.join(out['problems'])[:600])}
      return None
    if k == 'vspec':
      if out.get('to_json_error'):
        return {'signature': 'vspec:to_json-raises:' + out['to_json_error'], 'what': json.dumps(case)[:300]}
      if out.get('problems'):
        p = out['problems'][0]
        return {'signature': 'roundtrip:empty-tuple' if out.get('empty_tuple') else
                             'vspec:tuple-of-size-0' if out.get('empty_fixed_tuple') else
                             'vspec:' + p.split('] ')[1].split('(')[0].split(':')[0].strip(),
                'what': '%s: %s' % (json.dumps(case.get('desc') or case.get('extra'))[:300], '; '.join(out['problems']))}
      return None
    if k == 'dna':
      if 'checks' not in out:
        return None
      for form in ('obj', 'str', 'str-indent', 'pickle', 'deepcopy'):
        d = out['checks'][form]
        if d:
          if form in ('pickle', 'deepcopy'):
            sig = 'dna:%s:%s' % (form, d[0])
          elif out['reserved']:
            sig = 'roundtrip:' + '+'.join(sorted(set(out['reserved'])))
          elif not out['normal']:
            sig = 'dna:not-in-normal-form'
          elif out['child_meta'] and d[0] in ('pg.eq', 'pg.hash'):
            sig = 'dna:child-metadata-dropped'
          else:
            sig = 'dna:%s:%s' % (form, d[0])
          return {'signature': sig, 'what': 'DNA %s, %s round trip: %s' % (json.dumps(case['nest'])[:200], form, '; '.join(d))}
      return None
    if k == 'spec':
      if out['problems']:
        p = out['problems'][0]
        return {'signature': 'spec:' + p.split(' raises')[0].split(' differs')[0].split('(')[0].split(':')[0].split('[')[0].strip(),
                'what': '%s: %s' % (json.dumps(case.get('expr'))[:300], '; '.join(out['problems']))}
    return None

  def store_oracle(self, case, outs, label):
    f = self.store_oracle_(case, outs, label)
    if (f and case.get('rel') and label == 'std' and not f['signature'].startswith('store:bare-file-name')
        and f['signature'] not in ('store:record-with-newline', 'store:record-with-cr-on-std-fs')):     # F13d / F13e
      import re
      m = re.search(r'op (\d+)', f['what'])
      if m and norm_path(case['ops'][int(m.group(1))]['p']) == ('mem',):
        # the bare relative name 'mem': taken for a path with the extension '.mem' (a memory sequence)
        f['signature'] = 'store:dotless-name-taken-as-extension'
    return f

  def store_oracle_(self, case, outs, label):
    """Read-your-writes against the abstract store `path key -> content / records`."""
    files = {}
    dirs = {()}
    jvals = {}        # key -> values appended through open_jsonl since the last 'w' (None: unknown)
    for i, (orig, op, o) in enumerate(zip(case['ops'], lower_ops(case['ops']), outs)):
      k, key = op['k'], norm_path(op['p'])
      err = isinstance(o, dict) and o.get('err')
      if orig['k'] == 'jw' and not err:
        base = jvals.get(key) if orig['m'] == 'a' and key in files else []
        jvals[key] = None if base is None else base + list(orig['v'])
      elif k in ('save', 'write', 'seqw') and not err:
        jvals[key] = None
      if k in ('save', 'seqw', 'mkdirs') and not err:
        upto = key if k == 'mkdirs' else key[:-1]
        for n in range(len(upto) + 1):
          dirs.add(upto[:n])
      if k == 'write' and err == 'FileNotFoundError' and key[:-1] not in dirs:
        continue      # writefile does not create directories
      bare = bool(case.get('rel')) and label == 'std' and len(key) == 1 and err == 'FileNotFoundError'
      if k == 'save':
        if err:
          return {'signature': 'store:bare-file-name:save-raises' if bare else 'store:save-raises',
                  'what': '[%s] op %d %s raises %s' % (label, i, op['p'][len('/mem/'):] if bare else op['p'], err)}
        files[key] = ('value', op['v'])
      elif k == 'write':
        if err:
          return {'signature': 'store:write-raises', 'what': '[%s] op %d raises %s' % (label, i, err)}
        prev = files.get(key)
        text = self.text_of(prev) or ''
        files[key] = ('text', text + op['c'] if op['m'] == 'a' else op['c'])
      elif k == 'seqw':
        if err:
          return {'signature': 'store:bare-file-name:append-raises' if bare else 'store:append-raises',
                  'what': '[%s] op %d %s raises %s' % (label, i, op['p'][len('/mem/'):] if bare else op['p'], err)}
        prev = files.get(key)
        old = list(prev[1]) if (prev and prev[0] == 'records' and op['m'] == 'a') else []
        if prev and prev[0] != 'records' and op['m'] == 'a':
          files[key] = ('mixed', None)
        else:
          files[key] = ('records', old + list(op['r']))
      elif k == 'load':
        prev = files.get(key)
        if prev is None:
          if not err:
            return {'signature': 'store:load-of-unwritten', 'what': '[%s] op %d loads %s' % (label, i, o)}
        elif prev[0] == 'value':
          if err or 'ok' not in o['v'] or o['v']['ok'] != prev[1]:
            return {'signature': 'store:load-mismatch',
                    'what': '[%s] op %d: pg.load(%s) gives %s, last saved %s' % (label, i, op['p'], json.dumps(o)[:200], json.dumps(prev[1])[:200])}
        elif prev[0] == 'text':
          if err or o['c'] != prev[1]:
            return {'signature': 'store:read-mismatch', 'what': '[%s] op %d: readfile gives %s, expected %r' % (label, i, json.dumps(o)[:200], prev[1])}
      elif k == 'seqr':
        prev = files.get(key)
        if prev is None:
          if not err:
            return {'signature': 'store:read-of-unwritten', 'what': '[%s] op %d reads %s' % (label, i, o)}
        elif prev[0] == 'records':
          if err or o['r'] != prev[1]:
            bad_nl = any('\n' in r for r in prev[1])
            bad_cr = label.startswith('std') and any('\r' in r for r in prev[1])
            sig = 'store:record-with-newline' if bad_nl else ('store:record-with-cr-on-std-fs' if bad_cr else 'store:records-mismatch')
            return {'signature': sig,
                    'what': '[%s] op %d: records of %s are %s, appended %s' % (label, i, op['p'], json.dumps(o)[:200], json.dumps(prev[1])[:200])}
          if orig['k'] == 'jr' and jvals.get(key) is not None and o['v'] != {'ok': jvals[key]}:
            partial = any(tree_has(v, lambda x: isinstance(x, dict) and 'm' in x) for v in jvals[key])
            return {'signature': 'store:jsonl-partial-object-unreadable' if partial and 'err' in o['v'] else
                                 'store:jsonl-values-mismatch',
                    'what': '[%s] op %d: open_jsonl(%s) yields %s, added %s' % (label, i, op['p'], json.dumps(o['v'])[:200], json.dumps(jvals[key])[:200])}
      elif k == 'exists':
        if key in files and o is not True:
          return {'signature': 'store:exists-false', 'what': '[%s] op %d: %s written but exists() = %s' % (label, i, op['p'], o)}
    return None

  def hstore_oracle(self, case, outs):
    """Abstract store with handles: a file is its content; every handle has its OWN position;
    'w' starts a new empty file (handles opened before it are stale). What the property demands:
    load / sequence read return what was last written to the path. A failure while a handle of the
    current file object is still open is the known shared-position defect (F130)."""
    files = {}          # key -> {'c': content or None (unspecified), 'gen': n}
    handles = []        # {'key','gen','pos','closed'} or None
    gen = [0]
    dirs = {()}

    def fresh(key, content):
      gen[0] += 1
      files[key] = {'c': content, 'gen': gen[0]}

    def open_current(key):
      f = files.get(key)
      return f is not None and any(h and h['key'] == key and h['gen'] == f['gen'] and not h['closed'] for h in handles)

    def lines(recs):
      return ''.join(r.rstrip('\n') + '\n' for r in recs)

    for i, (op, o) in enumerate(zip(case['ops'], outs)):
      k = op['k']
      err = isinstance(o, dict) and o.get('err')
      if k in ('hread', 'hreadline', 'hwrite', 'hclose'):
        h = handles[op['h']] if op['h'] < len(handles) else None
        if h is None:
          continue
        f = files.get(h['key'])
        cur = f is not None and f['gen'] == h['gen']
        if k == 'hclose':
          h['closed'] = True
        elif k == 'hwrite':
          if cur and f['c'] is not None:
            c, pos = f['c'], (len(f['c']) if h.get('append') else h['pos'])
            if h.get('append') and h['pos'] != len(c):
              f['stale_append'] = True      # the file grew since this 'a' handle last looked: O_APPEND still writes at the end
            c = c + '\0' * (pos - len(c))
            f['c'] = c[:pos] + op['c'] + c[pos + len(op['c']):]
            h['pos'] = pos + len(op['c'])
          elif f is not None:
            # a write through a handle that predates a later 'w' of the path: POSIX would still
            # reach the file, this file system writes into the detached old buffer — the property
            # does not say; the content is unspecified until the next overwrite
            f['c'] = None
        elif cur and f['c'] is not None:
          c, pos = f['c'], h['pos']
          if k == 'hread':
            n = len(c) if op['n'] is None else op['n']
            h['pos'] = min(len(c), pos + n) if pos <= len(c) else pos
          else:
            j = c.find('\n', pos)
            h['pos'] = len(c) if j < 0 else j + 1
        continue
      key = norm_path(op['p'])
      if k in ('save', 'seqw') and not err:
        for n in range(len(key)):
          dirs.add(key[:n])
      if k == 'hopen':
        if err:
          handles.append(None)
          if err == 'FileNotFoundError' and key[:-1] not in dirs:
            continue        # open() does not create directories
          if op['m'] != 'r' or key in files:
            return {'signature': 'store:open-raises', 'what': 'op %d open(%s, %s) raises %s' % (i, op['p'], op['m'], err)}
          continue
        if op['m'] == 'w' or (op['m'] == 'a' and key not in files):
          fresh(key, '')
        f = files.get(key)
        if f is None:
          return {'signature': 'store:open-of-unwritten', 'what': 'op %d opens %s which was never written' % (i, op['p'])}
        handles.append({'key': key, 'gen': f['gen'], 'closed': False, 'append': op['m'] == 'a',
                        'pos': len(f['c'] or '') if op['m'] == 'a' else 0})
      elif k == 'save':
        if err:
          return {'signature': 'store:save-raises', 'what': 'op %d %s raises %s' % (i, op['p'], err)}
        fresh(key, json_text_of_tree(op['v']))
      elif k == 'seqw':
        if err:
          return {'signature': 'store:append-raises', 'what': 'op %d %s raises %s' % (i, op['p'], err)}
        if op['m'] == 'w' or key not in files:
          fresh(key, lines(op['r']))
        elif files[key]['c'] is not None:
          files[key]['c'] += lines(op['r'])
      elif k in ('load', 'seqr'):
        f = files.get(key)
        if f is None:
          if not err:
            return {'signature': 'store:load-of-unwritten', 'what': 'op %d reads %s' % (i, o)}
          continue
        if f['c'] is None:
          continue
        if k == 'load':
          ok = not err and o.get('c') == f['c']
        else:
          exp = f['c'].split('\n')
          exp = exp[:-1] if exp and exp[-1] == '' else exp
          ok = not err and o.get('r') == exp
        if not ok:
          sig = 'store:append-handle-writes-at-stale-end' if f.get('stale_append') else (
              'store:open-handle-shared-position' if open_current(key) else (
                  'store:load-mismatch' if k == 'load' else 'store:records-mismatch'))
          return {'signature': sig,
                  'what': 'op %d: %s(%s) gives %s, the file holds %r' % (i, k, op['p'], json.dumps(o)[:200], f['c'][:200])}
      elif k == 'exists':
        if key in files and o is not True:
          return {'signature': 'store:exists-false', 'what': 'op %d: %s written but exists() = %s' % (i, op['p'], o)}
    return None

  def text_of(self, prev):
    if prev is None:
      return None
    if prev[0] == 'text':
      return prev[1]
    if prev[0] == 'value':
      return json_text_of_tree(prev[1])
    return None

  # -- bookkeeping --------------------------------------------------------------------------
  def nontrivial(self, case, out):
    k = case['kind']
    if k == 'codec':
      return isinstance(case['value'], dict) and 'f' not in case['value'] and 'build_error' not in out
    if k in ('load', 'load_str'):
      return isinstance(case['json'], dict)
    if k == 'dna':
      return isinstance(case['nest'], dict) and 'q' not in case['nest']
    if k == 'vspec':
      return 'extra' in case or case['desc']['k'] in ('list', 'tuple', 'dict', 'union')
    if k in ('dyn', 'callable'):
      return True
    if k == 'fnfam':
      return fnfam_ok(case['members'])
    if k == 'mounts':
      wrote = set()
      for op in case['ops']:
        if op['k'] in ('save', 'write', 'seqw', 'jw'):
          wrote.add((op['mt'], norm_path(op['p'])))
        elif op['k'] in ('load', 'seqr', 'jr', 'exists') and (1 - op['mt'], norm_path(op['p'])) in wrote:
          return True       # the twin of a written path is looked at on the other mount
      return False
    if k == 'seq':
      return any(op['k'] == 'mutate' or op['k'] == 'read2' for op in case['ops'])
    if k == 'hist':
      return any(st['op'] in ('set', 'append', 'setkey') for st in case['steps'])
    if k in ('store', 'hstore'):
      ops = case['ops']
      wrote = set()
      for op in ops:
        if op['k'] in ('save', 'write', 'seqw', 'jw'):
          wrote.add(norm_path(op['p']))
        elif op['k'] in ('load', 'seqr', 'jr') and norm_path(op['p']) in wrote:
          return True
      return False
    return case['what'] != 'spec' or case['expr'][0] in ('List', 'Tuple', 'Dict', 'Union')

  def describe(self, case, out):
    k = case['kind']
    h = ['kind:' + k]
    if k == 'codec':
      t = case['value']
      if 'build_error' in out:
        return h + ['codec:build-error:' + out['build_error']]
      h.append('codec:size<=%d' % (1 if tree_size(t) <= 1 else 5 if tree_size(t) <= 5 else 20 if tree_size(t) <= 20 else 999))
      h.append('codec:depth=%d' % tree_depth(t))
      shapes = reserved_shapes(t, True)
      h.append('codec:reserved:' + ('+'.join(sorted(set(shapes))) if shapes else 'none'))
      for name, pred in (('object', lambda x: isinstance(x, dict) and 'o' in x),
                         ('rich-class', lambda x: isinstance(x, dict) and x.get('o') in (MOD + 'T', MOD + 'U')),
                         ('partial', lambda x: isinstance(x, dict) and 'm' in x),
                         ('tuple', lambda x: isinstance(x, dict) and 't' in x),
                         ('int-key', lambda x: isinstance(x, dict) and 'd' in x and any(isinstance(kk, int) for kk, _ in x['d'])),
                         ('float', lambda x: isinstance(x, dict) and 'f' in x),
                         ('non-bmp', lambda x: isinstance(x, str) and any(ord(c) > 0xFFFF for c in x)),
                         ('control-char', lambda x: isinstance(x, str) and any(ord(c) < 32 for c in x))):
        if tree_has(t, pred):
          h.append('codec:has-' + name)
      if not is_model_tree(t):
        h.append('codec:impl-only')
      if 'auto_import' in case:
        h.append('codec:auto_import=%s' % case['auto_import'])
      if case.get('opts'):
        h.append('codec:opts:hide_frozen=%s,hide_default=%s' % (case['opts']['hide_frozen'], case['opts']['hide_default_values']))
      if 'model' in out:
        h.append('codec:rt=' + ('ok' if 'ok' in out['model']['rt'] else out['model']['rt']['err']))
        if not out.get('built_same'):
          h.append('codec:normalised-on-build')
    elif k in ('load', 'load_str'):
      rt = out['model']['rt']
      h.append('%s%s:%s' % (k, '+auto_dict' if case.get('auto_dict') else '', 'ok' if 'ok' in rt else rt['err']))
    elif k == 'hist':
      for st in case['steps']:
        if st['op'] == 'ser':
          h.append('hist:ser:%s:%s' % (st['via'], 'default-options' if st['opts'] is None else
                                       'hide_frozen=%s,hide_default=%s' % (st['opts']['hide_frozen'], st['opts']['hide_default_values'])))
        elif st['op'] == 'query':
          h.append('hist:query')
        else:
          h.append('hist:%s:depth=%d' % (st['op'], len(st['path'])))
    elif k == 'seq':
      h.append('seq:backend=' + case['backend'])
      for op, o in zip(case['ops'], out['outs']):
        h.append('seq:op:%s%s' % (op['k'], ':' + o['err'] if isinstance(o, dict) and o.get('err') else ''))
    elif k == 'callable':
      h.append('callable:%s:%s' % (case['origin'], case['wrap']))
    elif k == 'fnfam':
      h.append('fnfam:' + case['how'])
      h.append('fnfam:members=%d' % len(case['members']))
      h.append('fnfam:families=%d' % len({f for f, _ in case['members']}))
    elif k == 'mounts':
      h.append('mounts:used=%d' % len({op['mt'] for op in case['ops']}))
      for op, o in zip(case['ops'], out['outs']):
        h.append('mounts:op:%s:%s%s' % (MOUNTS[op['mt']], op['k'], ':' + o['err'] if isinstance(o, dict) and o.get('err') else ''))
    elif k == 'dyn':
      h.append('dyn:' + case['what'])
      if 'model' in out:
        h.append('dyn:rt=' + ('ok' if 'ok' in out['model']['rt'] else out['model']['rt']['err']))
    elif k == 'vspec':
      h.append('vspec:' + (out.get('kind') or ('build-error' if 'build_error' in out else 'to_json-error')))
      if 'model' in out:
        h.append('vspec:rt=' + ('ok' if 'ok' in out['model']['rt'] else out['model']['rt']['err']))
    elif k == 'dna':
      m = out['model']
      h.append('dna:' + ('rejected-by-constructor' if 'parse' in m else 'rt=' + ('ok' if 'ok' in m['rt'] else m['rt']['err'])))
      if case['meta']:
        h.append('dna:metadata')
      if out.get('child_meta'):
        h.append('dna:child-metadata')
      h.append('dna:depth=%d' % tree_depth(case['nest']))
    elif k == 'hstore':
      h.append('hstore:handles=%d' % sum(1 for o in case['ops'] if o['k'] == 'hopen'))
      closed = {o['h'] for o in case['ops'] if o['k'] == 'hclose'}
      h.append('hstore:unclosed=%d' % (sum(1 for o in case['ops'] if o['k'] == 'hopen') - len(closed)))
      for op, o in zip(case['ops'], out['outs']):
        h.append('hstore:op:%s%s' % (op['k'], ':' + o['err'] if isinstance(o, dict) and o.get('err') else ''))
    elif k == 'store':
      h.append('store:%s' % ('messy' if case.get('messy') else 'paths=%d' % len({norm_path(o['p']) for o in case['ops']})))
      h.append('store:ops<=%d' % (4 if len(case['ops']) <= 4 else 8 if len(case['ops']) <= 8 else 12))
      if case.get('rel'):
        h.append('store:std-paths-relative-to-cwd')
      if any(tree_has(v, lambda x: isinstance(x, dict) and 'o' in x) for op in case['ops'] if op['k'] == 'jw' for v in op['v']):
        h.append('store:jsonl-object-records')
      for op, o in zip(case['ops'], out['outs']):
        h.append('store:op:%s%s' % (op['k'], ':' + o['err'] if isinstance(o, dict) and o.get('err') else ''))
    else:
      h.append('spec:' + case['what'] + (':' + case['expr'][0] if case['what'] == 'spec' else ''))
      if out['problems']:
        h.append('spec:problem')
    return h

  def shrink_candidates(self, case):
    k = case['kind']
    if k == 'hist':
      steps = case['steps']
      for i in range(len(steps)):
        c = dict(case)
        c['steps'] = steps[:i] + steps[i + 1:]
        if any(st['op'] == 'ser' for st in c['steps']):
          yield c
    if k == 'seq':
      ops = case['ops']
      for i in range(len(ops)):
        if ops[i]['k'] in ('read', 'read2') and any(o['k'] == 'mutate' for o in ops[i + 1:]):
          continue          # keeps the numbering of the reads
        c = dict(case)
        c['ops'] = ops[:i] + ops[i + 1:]
        if c['ops']:
          yield c
    if k == 'hstore':
      ops = case['ops']
      for i in range(len(ops)):
        if ops[i]['k'] == 'hopen':
          continue          # keeps the numbering of the handles
        c = dict(case)
        c['ops'] = ops[:i] + ops[i + 1:]
        if c['ops']:
          yield c
    if k == 'fnfam':
      ms = case['members']
      for i in range(len(ms)):
        c = dict(case, members=ms[:i] + ms[i + 1:])
        if fnfam_ok(c['members']):      # stays self-contained: replays alike in a fresh process
          yield c
    if k in ('store', 'mounts'):
      ops = case['ops']
      for i in range(len(ops)):
        c = dict(case)
        c['ops'] = ops[:i] + ops[i + 1:]
        if c['ops']:
          yield c
    elif k == 'codec':
      t = case['value']
      if isinstance(t, dict):
        subs = []
        for key in ('l', 't'):
          if key in t:
            subs = list(t[key])
            for i in range(len(t[key])):
              c = dict(case)
              c['value'] = {key: t[key][:i] + t[key][i + 1:]}
              yield c
        if 'd' in t:
          subs = [v for _, v in t['d']]
          for i in range(len(t['d'])):
            c = dict(case)
            c['value'] = {'d': t['d'][:i] + t['d'][i + 1:]}
            yield c
        if 'o' in t:
          subs = [v for _, v in t['a']]
        for s in subs:
          c = dict(case)
          c['value'] = s
          yield c


PROP = C05()
