"""C18 — symbolized callables keep Python call semantics: generator, implementation runner, oracle.

Case shape:
  {"kind": "functor" | "cls",
   "via": "functor" | "symbolize",           # pg.functor(f) or pg.symbolize(f) (functions only)
   "ann": bool, "auto_typing": bool,         # annotate the generated source with `: int`
   "sig": {"pos": [[name, default|null], ...], "varargs": name|null,
           "kwonly": [[name, default|null], ...], "varkw": name|null},
   "c1": {"args": [int], "kwargs": [[name, int]], "override": bool, "ignore": bool},
   "c2": {"args": [int], "kwargs": [[name, int]], "override": bool|null, "ignore": bool|null},
   "tc_call": bool}                          # false: the call runs under pg.enable_type_check(False)

functor: `F(*c1.args, **c1.kwargs, override_args=…, ignore_extra_args=…)(*c2.args, **c2.kwargs …)`;
cls:     `Cls(*c1.args, **c1.kwargs)` where Cls = pg.symbolize(<generated class>), c2 absent.

The harness GENERATES SOURCE TEXT from `sig`, exec's it with the real compiler, symbolizes the
result with the real pyglove and compares with calling the plain function / class directly.
Observables: returned `locals()` (canonicalised to named / varargs / varkw) or exception class,
`sym_init_args`, `specified_args` / `default_args` / `non_default_args`,
`inspect.signature(cls.__init__)`, clone and JSON round trip then call.
"""

import inspect
import re
import sys
import types

from harness.common.framework import Prop

POS_NAMES = ['a', 'b', 'c', 'd']
KW_NAMES = ['x', 'y', 'z']
EXTRA_NAMES = ['p', 'q', 'r']
VARARGS, VARKW = 'args', 'kwargs'
MODULE = 'c18_generated'


# ------------------------------------------------------------------------------------------
# Reference copy (Python) of the spec-side helper definitions of PgModel/Call.lean.  The
# correspondence run compares them with the Lean ones (`effective`, `py_eff`), so that the
# oracle below and the theorems talk about the same effective call.
# ------------------------------------------------------------------------------------------

def sig_names(sig):
  return [p[0] for p in sig['pos']] + [p[0] for p in sig['kwonly']]


def name_args(sig, args, kwargs):
  """nameArgs: (named, va, extra) or None if the arguments cannot be distributed."""
  pos = [p[0] for p in sig['pos']]
  names = sig_names(sig)
  named = [[n, v] for n, v in zip(pos, args)]
  va = list(args[len(pos):])
  extra = []
  for k, v in kwargs:
    if k in names:
      if any(k == n for n, _ in named):
        return None
      named.append([k, v])
    elif sig['varkw'] is not None:
      if any(k == n for n, _ in extra):
        return None
      extra.append([k, v])
    else:
      return None
  if va and sig['varargs'] is None:
    return None
  return named, va, extra


def dedupe(kwargs):
  """A call cannot carry the same keyword twice: keep the first occurrence."""
  seen, out = set(), []
  for k, v in kwargs:
    if k not in seen:
      seen.add(k)
      out.append([k, v])
  return out


def drop_extras(sig, args, kwargs):
  names = sig_names(sig)
  if sig['varargs'] is None:
    args = args[:len(sig['pos'])]
  if sig['varkw'] is None:
    kwargs = [kv for kv in kwargs if kv[0] in names]
  return list(args), list(kwargs)


def merge_kw(m1, m2):
  out = [list(kv) for kv in m1]
  for k, v in m2:
    for kv in out:
      if kv[0] == k:
        kv[1] = v
        break
    else:
      out.append([k, v])
  return out


def to_call(sig, named, va, extra):
  if va:
    d = dict((k, v) for k, v in named)
    vals = [d.get(n, dflt) for n, dflt in sig['pos']]
    if any(v is None for v in vals):
      # a required positional parameter is unbound: only the keyword form is left (reports it missing)
      return {'args': [], 'kwargs': named + extra}
    pos_names = [p[0] for p in sig['pos']]
    return {'args': vals + va, 'kwargs': [kv for kv in named if kv[0] not in pos_names] + extra}
  if not va:
    d = dict((k, v) for k, v in named)
    pre = list(sig['pos'][:sig.get('posonly', 0)])
    while pre and pre[-1][0] not in d:
      pre.pop()      # positional-only parameters after the last supplied one are simply left out
    vals = [d.get(n, dflt) for n, dflt in pre]
    if any(v is None for v in vals):
      return {'args': [], 'kwargs': named + extra}
    po = [n for n, _ in pre]
    return {'args': vals, 'kwargs': [kv for kv in named if kv[0] not in po] + extra}
  pos = [p[0] for p in sig['pos']]
  d = dict((k, v) for k, v in named)
  return {'args': [d[n] for n in pos if n in d] + va,
          'kwargs': [kv for kv in named if kv[0] not in pos] + extra}


def apply_late(sig, n1, late):
  """Named.late: the late-binding operations (rebind / setattr / del on the functor object) on
  the level of the supplied arguments."""
  if n1 is None:
    return None
  names = sig_names(sig)
  named, va, extra = [list(kv) for kv in n1[0]], list(n1[1]), [list(kv) for kv in n1[2]]
  for op in late or ():
    if op['op'] == 'rebind':
      dfl = dict((n, d) for n, d in sig['pos'] + sig['kwonly'])
      for k, v in op['upd']:
        if k in names:
          cur = dict((a, b) for a, b in named).get(k, dfl[k])
          if cur != v:      # writing the value a parameter already has changes nothing
            named = merge_kw(named, [[k, v]])
        else:
          extra = merge_kw(extra, [[k, v]])
    elif op['op'] == 'set_va':
      va = list(op['vals'])
    else:
      named = [kv for kv in named if kv[0] != op['name']]
      extra = [kv for kv in extra if kv[0] != op['name']]
  return named, va, extra


def effective(sig, c1, c2, ignore, late=()):
  """Returns dict(call, conflict, va_conflict) or None."""
  n1 = apply_late(sig, name_args(sig, c1['args'], c1['kwargs']), late)
  a2, k2 = (drop_extras(sig, c2['args'], c2['kwargs']) if ignore else (c2['args'], c2['kwargs']))
  n2 = name_args(sig, a2, k2)
  if n1 is None or n2 is None:
    return None
  conflict = (any(any(k == n for n, _ in n1[0]) for k, _ in n2[0])
              or any(any(k == n for n, _ in n1[2]) for k, _ in n2[2]))
  va = n2[1] if n2[1] else n1[1]
  return {'call': to_call(sig, merge_kw(n1[0], n2[0]), va, merge_kw(n1[2], n2[2])),
          'conflict': conflict, 'va_conflict': bool(n1[1]) and bool(n2[1])}


# ------------------------------------------------------------------------------------------
# Source generation
# ------------------------------------------------------------------------------------------

def param_list(sig, ann, optional=()):
  def t(n):
    if not ann:
      return ''
    return ': typing.Optional[int]' if n in optional else ': int'
  eq = ' = ' if ann else '='
  parts = []
  for i, (n, d) in enumerate(sig['pos']):
    parts.append('%s%s%s' % (n, t(n), '' if d is None else '%s%d' % (eq, d)))
    if i + 1 == sig.get('posonly', 0):
      parts.append('/')
  if sig['varargs'] is not None:
    parts.append('*%s%s' % (sig['varargs'], t(None)))
  elif sig['kwonly']:
    parts.append('*')
  for n, d in sig['kwonly']:
    parts.append('%s%s%s' % (n, t(n), '' if d is None else '%s%d' % (eq, d)))
  if sig['varkw'] is not None:
    parts.append('**%s%s' % (sig['varkw'], t(None)))
  return parts


POISON = 13      # hist cases: the generated __init__ raises ValueError when a named argument equals it


def source_of(case, name):
  """Source text of the original callable (and, for subclassed functors, of the pg.Functor class)."""
  sig, ann = case['sig'], case.get('ann', False)
  ps = param_list(sig, ann, case.get('optional', ()))
  if case['kind'] == 'cls':
    return ('class %s:\n'
            '  def __init__(%s):\n'
            '    rec = dict(locals())\n'
            '    del rec["self"]\n'
            '    self.rec = rec\n' % (name, ', '.join(['self'] + ps)))
  if case['kind'] == 'hist':
    names = sig_names(sig)
    return ('class %s:\n'
            '  def __init__(%s):\n'
            '    rec = dict(locals())\n'
            '    del rec["self"]\n'
            '    if any(type(rec[n]) is int and rec[n] == %d for n in %r):\n'
            '      raise ValueError("poisoned argument")\n'
            '    self.rec = rec              # derived state computed by __init__\n'
            'class %s_ref:\n'
            '  def __init__(%s):\n'
            '    rec = dict(locals())\n'
            '    del rec["self"]\n'
            '    self.rec = rec\n'
            % (name, ', '.join(['self'] + ps), POISON, names, name, ', '.join(['self'] + ps)))
  if case['kind'] == 'nest':
    return nest_source(case, name)
  if case['kind'] == 'hier':
    psp = param_list(case['sig_p'], False)
    sp = case['sig_p']
    pcall = ', '.join([str(i + 1) for i in range(len(sp['pos']))] + ['%s=%d' % (n, 7) for n, _ in sp['kwonly']])
    body = ('  def __init__(%s):\n'
            '    rec = dict(locals())\n'
            '    del rec["self"]\n'
            '    rec.pop("__class__", None)\n'
            '    super().__init__(%s)\n'
            '    self.rec = rec\n' % (', '.join(['self'] + ps), pcall))
    return ('class %s_parent:\n'
            '  def __init__(%s):\n'
            '    rec = dict(locals())\n'
            '    del rec["self"]\n'
            '    self.rec_p = rec\n'
            'class %s(%s_parent):\n%s'
            'HIER_CHILD_BODY = %r\n' % (name, ', '.join(['self'] + psp), name, name, body, body))
  if case.get('via') == 'subclass':
    # the wrapped logic RAISES on a poisoned argument — in the plain function and in `_call` alike
    names = [n for n, _ in sig['pos']]
    src = ('def %s(%s):\n'
           '  r = dict(locals())\n'
           '  if any(type(r[n]) is int and r[n] == %d for n in %r):\n'
           '    raise ValueError("poisoned argument")\n'
           '  return r\n' % (name, ', '.join(ps), POISON, names))
    # class X(pg.Functor) with annotated members and a zero-argument `_call` reading self.<member>
    members = ''.join('  %s: typing.Any%s\n' % (n, '' if d is None else ' = %d' % d) for n, d in sig['pos'])
    body = ', '.join('%s=self.%s' % (n, n) for n, _ in sig['pos'])
    src += ('class %s_sub(pg.Functor):\n%s'
            '  def _call(self):\n'
            '    r = dict(%s)\n'
            '    if any(type(r[n]) is int and r[n] == %d for n in %r):\n'
            '      raise ValueError("poisoned argument")\n'
            '    return r\n' % (name, members or '  pass\n', body, POISON, names))
    return src
  src = 'def %s(%s):\n  return dict(locals())\n' % (name, ', '.join(ps))
  return src


def nest_source(case, name):
  """Two class-based functors sharing member names. The outer one READS the members of the inner
  one while it executes (`self.other.<m>`), CALLS it, reads again; optionally from a second thread."""
  members = case['sig_in']['pos']
  decl = ''.join('  %s: typing.Any%s\n' % (n, '' if d is None else ' = %d' % d) for n, d in members)
  mine = ', '.join('%s=self.%s' % (n, n) for n, _ in members)
  names = [n for n, _ in members]
  ref_in = ', '.join('%s%s' % (n, '' if d is None else '=%d' % d) for n, d in members)
  return (
      'def %(N)s_in_ref(%(ref_in)s):\n'
      '  r = dict(locals())\n'
      '  if any(type(v) is int and v == %(P)d for v in r.values()):\n'
      '    raise ValueError("poisoned argument")\n'
      '  return r\n'
      'def %(N)s(other%(comma)s%(ref_in)s):\n  return dict(locals())\n'
      'class %(N)s_in(pg.Functor):\n%(decl)s'
      '  def _call(self):\n'
      '    r = dict(%(mine)s)\n'
      '    if any(type(v) is int and v == %(P)d for v in r.values()):\n'
      '      raise ValueError("poisoned argument")\n'
      '    return r\n'
      'class %(N)s_out(pg.Functor):\n'
      '  other: typing.Any\n%(decl)s'
      '  def _call(self):\n'
      '    ctx = NEST_CTX\n'
      '    o = self.other\n'
      '    r = {}\n'
      '    r["read"] = ctx["snap"](o, %(names)r)\n'
      '    r["mine"] = dict(%(mine)s%(comma2)sother=self.other)\n'
      '    r["called"] = ctx["run"](lambda: o(*ctx["a"], **ctx["k"]))\n'
      '    r["read_after"] = ctx["snap"](o, %(names)r)\n'
      '    r["mine_after"] = dict(%(mine)s%(comma2)sother=self.other)\n'
      '    if ctx["thread"]:\n'
      '      r["thread_read_self"] = ctx["in_thread"](lambda: ctx["snap"](self, %(names_o)r))\n'
      '      r["thread_read_inner"] = ctx["in_thread"](lambda: ctx["snap"](o, %(names)r))\n'
      '      r["thread_called"] = ctx["in_thread"](lambda: ctx["run"](lambda: o(*ctx["a"], **ctx["k"])))\n'
      '    return r\n' % dict(N=name, ref_in=ref_in, comma=', ' if members else '', decl=decl, mine=mine,
                              comma2=', ' if members else '', names=names, names_o=['other'] + names, P=POISON))


_COUNTER = [0]


def fresh_name(prefix):
  _COUNTER[0] += 1
  return '%s_%d' % (prefix, _COUNTER[0])


def gen_module():
  m = sys.modules.get(MODULE)
  if m is None:
    import typing
    import pyglove as pg
    m = types.ModuleType(MODULE)
    m.typing = typing
    m.pg = pg
    sys.modules[MODULE] = m
  return m


# ------------------------------------------------------------------------------------------
# Canonicalisation
# ------------------------------------------------------------------------------------------

# Argument values cross the protocol as ints. Codes <= 0 stand for the falsy Python values; the
# model treats all of them as opaque scalars.
SPECIALS = {-1: None, -2: '', -3: False, -4: [], -5: [2, 3]}
INNER = 99      # wire code of `the inner functor object` in nest cases


def dec(v):
  """wire code -> Python value (a fresh object for the list)."""
  if v == -4:
    return []
  if v == -5:
    return [2, 3]
  return SPECIALS[v] if v in SPECIALS else v


def enc(v):
  """Python value -> wire code (or a '<type>' token for anything unexpected)."""
  if v is None:
    return -1
  if v is False:
    return -3
  if isinstance(v, str) and v == '':
    return -2
  if isinstance(v, (list, tuple)) and len(v) == 0:
    return -4
  if isinstance(v, (list, tuple)) and list(v) == [2, 3]:
    return -5
  if hasattr(v, 'sym_init_args') and hasattr(v, 'specified_args'):
    return INNER      # a functor object used as an argument value (nest cases)
  if isinstance(v, bool) or not isinstance(v, int):
    return '<%s>' % type(v).__name__
  return v


def canon_assignment(sig, loc):
  """locals() of the generated body -> {'named': [[n, v]], 'varargs': [...]|None, 'varkw': [[k, v]]|None}."""
  names = sig_names(sig)
  out = {'named': [[n, enc(loc[n])] for n in names],
         'varargs': [enc(x) for x in loc[sig['varargs']]] if sig['varargs'] is not None else None,
         'varkw': [[k, enc(v)] for k, v in loc[sig['varkw']].items()] if sig['varkw'] is not None else None}
  expected_keys = set(names) | {x for x in (sig['varargs'], sig['varkw']) if x is not None}
  if set(loc) != expected_keys:
    out['unexpected_locals'] = sorted(set(loc) ^ expected_keys)
  return out


_KINDS = [
    (re.compile(r'takes (from )?\d+ (to \d+ )?positional arguments? but \d+ '), 'too_many_positional'),
    (re.compile(r'got multiple values for argument'), 'multiple_values'),
    (re.compile(r'got some positional-only arguments passed as keyword arguments'), 'posonly_as_keyword'),
    (re.compile(r'got an unexpected keyword argument'), 'unexpected_keyword'),
    (re.compile(r'missing \d+ required (positional|keyword-only) arguments?'), 'missing_required'),
]


def cpython_kind(e):
  msg = str(e)
  for rx, k in _KINDS:
    if rx.search(msg):
      return k
  return 'unknown:' + msg[:60]


def outcome(thunk, sig, with_kind=False, attr=None):
  try:
    r = thunk()
  except Exception as e:   # pylint: disable=broad-except
    out = {'err': type(e).__name__}
    if with_kind and isinstance(e, TypeError):
      out['kind'] = cpython_kind(e)
    return out
  if attr is not None:
    r = getattr(r, attr)
  return {'ok': canon_assignment(sig, r)}


def strip_kind(o):
  if o is None:
    return None
  return {k: v for k, v in o.items() if k != 'kind'}


def canon_init_args(obj, missing, sig=None):
  va = sig['varargs'] if sig else None
  out = []
  for k, v in obj.sym_init_args.sym_items():
    if isinstance(v, type(missing)) and v == missing:
      out.append([k, 'MISSING'])
    elif k == va and isinstance(v, (list, tuple)):
      out.append([k, [enc(x) for x in v]])
    else:
      out.append([k, enc(v)])
  return out


def kw(pairs):
  return {k: dec(v) for k, v in pairs}


def pos(args):
  return [dec(v) for v in args]


def describe_signature(fn, drop_self):
  """[(name, kind, default|None, has_default)] of a callable's inspect.signature."""
  out = []
  ps = list(inspect.signature(fn).parameters.values())
  if drop_self and ps and ps[0].name == 'self':
    ps = ps[1:]
  for p in ps:
    has = p.default is not inspect.Parameter.empty
    out.append([p.name, p.kind.name, p.default if has and isinstance(p.default, int) else None, has])
  return out


# ------------------------------------------------------------------------------------------

class C18(Prop):
  id = 'C18'
  props_modules = ['PgProps.C18']
  driver = 'drv_c18'
  translators = []
  case_timeout_s = 20
  jobs_quick = 6
  rule = ('signatures generated from the grammar (0-4 positional with a defaults suffix, optional *args, '
          '0-3 keyword-only with/without defaults, optional **kwargs, optional `: int` annotations with '
          'auto_typing on/off) as SOURCE TEXT that is compiled by the real interpreter and symbolized with '
          'pg.functor / pg.symbolize (functions and classes); call patterns: construction-time binding, late '
          'binding, valid calls split between construction and call, overlapping argument sets with and '
          'without override_args, surplus arguments with and without ignore_extra_args, plus a perturbation '
          'stream (missing required, duplicate positional/keyword, unknown keyword, too many positionals, '
          'keywords named like the *args/**kwargs parameters); subclassed functors (`class X(pg.Functor)` with '
          'annotated members and a zero-argument `_call` reading self.<member>); argument values are ints 1-9 '
          'plus the falsy values 0 / False, None, \'\', [] at every binding stage; Optional[int] annotations '
          'under auto_typing; a clone of the functor re-bound before the original is called; symbolized EXISTING '
          'classes whose __init__ computes derived state and may raise, driven through histories construct -> '
          'rebind* (some make __init__ raise, followed by recovering rebinds; declared parameters and wildcard '
          'keywords); late binding on the functor object between construction and call (rebind / setattr / del of '
          'named parameters, of **kwargs entries and of the *args list) combined with every call-time form; '
          'class-based functors nested as members of class-based functors sharing member names, where the outer '
          '_call READS the inner members, CALLS the inner functor, reads again, also from a second thread; '
          'class-based functors whose _call RAISES on a poisoned argument (caller or outer functor catches), followed '
          'by member reads, a rebind and further calls on the same object; call-time keywords named like the *args '
          'parameter (scalar, falsy, empty and non-empty list values) for signatures with and without **kwargs; '
          'wrapper class HIERARCHIES: pg.symbolize(Parent), then `class Child(SymParent)` with its own __init__ '
          '(positional parameters re-ordered / renamed, positional-only and keyword-only ones added), parent-first '
          'and child-first, construction, clone, JSON and a rebind of the child. '
          'Non-trivial: at least one argument is '
          'supplied and the signature has at least one parameter; distinct: by the whole case.')
  trusted_base = [
      'CPython argument binding (the reference of the differential; pyBind is validated against really '
      'calling the generated function, against the kind of TypeError it reports, and against '
      'inspect.signature(f).bind)',
      'harness copy of nameArgs/effective (compared with the Lean definitions on every case)',
      'modelled, not verified: functorInit / functorCall / objectInit / callInitCall / symInitArgs '
      '(hand-written from functor.py, object.py, class_wrapper.py; tied by correspondence only)',
      'outside the model: docstring parsing, auto_typing conversion of annotations (exercised by the '
      'generator, assumed value-preserving for int), return-value specs, functor auto-call scope, '
      'pg.compound, MISSING_VALUE '
      'passed as an argument, non-scalar argument values',
  ]
  assumptions = ['argument values are opaque scalars (ints and the falsy values None, \'\', False, []); no argument '
                 'is pg.MISSING_VALUE; in one case 0 and False do not both occur (they are == for pyglove)',
                 'for a subclassed functor the member read `self.<m>` inside `_call` is modelled as the bound '
                 'value overridden by the call-time value (Functor._sym_inferred); overrides are per functor '
                 'object and per thread (PgModel OvStore / resolve), tied by the nested-functor cases',
                 'positional-only parameters are not passed by keyword (known finding F62)',
                 'keywords are not named like the *args parameter (pyglove exposes it as a symbolic field)']

  # -- generation -------------------------------------------------------------------------

  # value pool of the case being generated: ints 1-9 plus the falsy values (0 or False — never
  # both in one case, since False == 0 for pyglove's default test), None, '', []
  _falsy = [0, -1, -2, -4]
  _specials = True

  def val(self, rng):
    if self._specials and rng.chance(0.25):
      return rng.choice(self._falsy)
    return rng.randint(1, 9)

  def dflt(self, rng):
    if 0 in self._falsy and rng.chance(0.1):
      return 0
    return rng.randint(1, 9)

  def set_pool(self, rng, specials=True):
    self._falsy = [rng.choice([0, -3]), -1, -2, -4]
    self._specials = specials

  def gen_sig(self, rng, max_pos=4, max_kw=3):
    npos = rng.weighted([(2, 0), (4, 1), (5, 2), (4, 3), (2, 4)])
    npos = min(npos, max_pos)
    ndef = rng.randint(0, npos)
    pos = []
    for i in range(npos):
      pos.append([POS_NAMES[i], self.dflt(rng) if i >= npos - ndef else None])
    nkw = min(rng.weighted([(5, 0), (4, 1), (3, 2), (1, 3)]), max_kw)
    kwonly = [[KW_NAMES[i], self.dflt(rng) if rng.chance(0.5) else None] for i in range(nkw)]
    sig = {'pos': pos, 'varargs': VARARGS if rng.chance(0.4) else None,
           'kwonly': kwonly, 'varkw': VARKW if rng.chance(0.4) else None}
    if npos and rng.chance(0.15):
      sig['posonly'] = rng.randint(1, npos)     # def f(a, b, /, c): leading positional-only parameters
    return sig

  def gen_valid_call(self, rng, sig, partial=0.0):
    """A call that binds (each required parameter supplied unless dropped with prob. `partial`)."""
    pos = sig['pos']
    # how many leading positionals are passed positionally
    k = rng.randint(0, len(pos))
    args, kwargs = [], []
    for i, (n, d) in enumerate(pos):
      if i < k:
        args.append(self.val(rng))
      elif d is None or rng.chance(0.5):
        kwargs.append([n, d if (d is not None and rng.chance(0.25)) else self.val(rng)])
    if k == len(pos) and sig['varargs'] is not None and rng.chance(0.5):
      args += [self.val(rng) for _ in range(rng.randint(1, 3))]
    for n, d in sig['kwonly']:
      if d is None or rng.chance(0.5):
        kwargs.append([n, d if (d is not None and rng.chance(0.25)) else self.val(rng)])
    if sig['varkw'] is not None and rng.chance(0.5):
      for n in rng.sample(EXTRA_NAMES, rng.randint(1, 2)):
        kwargs.append([n, self.val(rng)])
    kwargs = rng.shuffle(kwargs)
    if partial:
      # Dropping a positional value is only possible from the end of the positional list.
      while args and len(args) <= len(pos) and rng.chance(partial):
        args.pop()
      kwargs = [kv for kv in kwargs if not rng.chance(partial)]
    return {'args': args, 'kwargs': kwargs}

  def perturb(self, rng, sig, call):
    """Makes a (probably) invalid call out of a valid one."""
    call = {'args': list(call['args']), 'kwargs': [list(kv) for kv in call['kwargs']]}
    names = sig_names(sig)
    k = rng.below(7)
    if k == 0:      # too many positionals (must not spill into keyword-only parameters)
      call['args'] = call['args'] + [self.val(rng) for _ in range(
          len(sig['pos']) - len(call['args']) + rng.randint(1, 1 + len(sig['kwonly'])))]
      if rng.chance(0.6):    # ... also when the keyword-only ones are not given by keyword
        kwn = [p[0] for p in sig['kwonly']]
        call['kwargs'] = [kv for kv in call['kwargs'] if kv[0] not in kwn or rng.chance(0.3)]
    elif k == 1 and call['args']:    # duplicate between positional and keyword
      n = sig['pos'][rng.below(min(len(call['args']), len(sig['pos'])))][0] if sig['pos'] else 'a'
      call['kwargs'] = [kv for kv in call['kwargs'] if kv[0] != n] + [[n, self.val(rng)]]
    elif k == 2:    # unknown keyword
      call['kwargs'].append([rng.choice(EXTRA_NAMES + ['w']), self.val(rng)])
    elif k == 3 and call['kwargs']:   # drop a keyword (maybe required)
      call['kwargs'].pop(rng.below(len(call['kwargs'])))
    elif k == 4 and call['args']:     # drop trailing positionals
      call['args'] = call['args'][:rng.below(len(call['args']))]
    elif k == 5:    # keyword named like *args / **kwargs (0 is falsy: separate path in the code)
      call['kwargs'].append([rng.choice([VARARGS, VARKW]), rng.choice([0, 5])])
    else:           # keyword for a parameter name the signature does not have
      others = [n for n in POS_NAMES + KW_NAMES if n not in names]
      if others:
        call['kwargs'].append([rng.choice(others), self.val(rng)])
    seen, out = set(), []
    for kv in call['kwargs']:
      if kv[0] not in seen:
        seen.add(kv[0])
        out.append(kv)
    call['kwargs'] = out
    return call

  def split_call(self, rng, sig, call):
    """Splits a call into (construction part, call part) without overlap."""
    npos = len(sig['pos'])
    args, kwargs = call['args'], call['kwargs']
    mode = rng.below(3)
    c1 = {'args': [], 'kwargs': []}
    c2 = {'args': [], 'kwargs': []}
    if mode == 0:
      # positionals early (maybe a prefix only, the rest late by keyword), keywords split
      k = rng.randint(0, len(args))
      if k < len(args) and len(args) > npos:
        k = len(args)
      c1['args'] = args[:k]
      for i in range(k, min(len(args), npos)):
        c2['kwargs'].append([sig['pos'][i][0], args[i]])
    elif mode == 1:
      # positionals late, by position
      c2['args'] = list(args)
    else:
      # everything that can be named is named, split randomly
      for i in range(min(len(args), npos)):
        (c1 if rng.chance(0.5) else c2)['kwargs'].append([sig['pos'][i][0], args[i]])
      if len(args) > npos:
        c1['args'] = []   # surplus positionals cannot be named: fall back to late positionals
        c1['kwargs'] = [kv for kv in c1['kwargs'] if kv[0] not in [p[0] for p in sig['pos']]]
        c2['kwargs'] = [kv for kv in c2['kwargs'] if kv[0] not in [p[0] for p in sig['pos']]]
        c2['args'] = list(args)
    for kv in kwargs:
      (c1 if rng.chance(0.5) else c2)['kwargs'].append(list(kv))
    c2['kwargs'] = rng.shuffle(c2['kwargs'])
    return c1, c2

  def gen_case(self, rng, sig=None):
    kind = rng.weighted([(20, 'cls'), (9, 'hist'), (8, 'nest'), (7, 'hier'), (56, 'functor')])
    if kind == 'nest':
      return self.gen_nest(rng)
    if kind == 'hier':
      return self.gen_hier(rng)
    ann = rng.chance(0.3)
    auto_typing = ann and rng.chance(0.5)
    via = 'symbolize'
    if kind == 'functor':
      via = rng.weighted([(45, 'functor'), (30, 'symbolize'), (25, 'subclass')])
    if via == 'subclass':
      ann = auto_typing = False
    # None / '' / False / [] are not ints: no special values where annotations are enforced
    self.set_pool(rng, specials=not auto_typing)
    sig = sig or self.gen_sig(rng)
    if via == 'subclass':
      sig = {'pos': sig['pos'], 'varargs': None, 'kwonly': [], 'varkw': None}
    case = {'kind': kind, 'via': via, 'ann': ann, 'auto_typing': auto_typing, 'sig': sig}
    if auto_typing:
      case['optional'] = [n for n in sig_names(sig) if rng.chance(0.3)]
    if kind == 'hist':
      return self.gen_hist(rng, case)
    empty = {'args': [], 'kwargs': []}
    if kind == 'cls':
      call = self.gen_valid_call(rng, sig, partial=0.15 if rng.chance(0.3) else 0.0)
      if rng.chance(0.35):
        call = self.perturb(rng, sig, call)
      elif rng.chance(0.15):
        # arity pattern: more positionals than positional parameters, keyword-only ones partly omitted
        over = rng.randint(1, 1 + len(sig['kwonly']))
        call = {'args': [self.val(rng) for _ in range(len(sig['pos']) + over)],
                'kwargs': [[n, self.val(rng)] for n, _ in sig['kwonly'] if rng.chance(0.4)]}
      case['mode'] = 'direct'
      case['c1'] = dict(call, override=False, ignore=False)
      return case
    mode = rng.weighted([(4, 'construct'), (5, 'late'), (5, 'split'), (4, 'override'), (2, 'ignore'),
                         (2, 'partial')])
    case['mode'] = mode
    c1f = {'override': False, 'ignore': False}
    c2f = {'override': None, 'ignore': None}
    call = self.gen_valid_call(rng, sig)
    if mode == 'construct':
      if rng.chance(0.4):
        call = self.perturb(rng, sig, call)
      c1, c2 = call, empty
    elif mode == 'late':
      if rng.chance(0.45):
        call = self.perturb(rng, sig, call)
      c1, c2 = empty, call
    elif mode == 'split':
      if rng.chance(0.3):
        call = self.perturb(rng, sig, call)
      c1, c2 = self.split_call(rng, sig, call)
    elif mode == 'partial':
      c1 = self.gen_valid_call(rng, sig, partial=0.4)
      c2 = self.gen_valid_call(rng, sig, partial=0.6)
      if rng.chance(0.5):
        # remove the overlap so that most of these bind
        n1 = name_args(sig, c1['args'], c1['kwargs'])
        if n1 is not None:
          taken = {n for n, _ in n1[0]} | {n for n, _ in n1[2]}
          c2 = {'args': [], 'kwargs': [kv for kv in c2['kwargs'] if kv[0] not in taken]}
    elif mode == 'override':
      c1 = self.gen_valid_call(rng, sig, partial=0.3)
      c2 = self.gen_valid_call(rng, sig, partial=0.5)
      if rng.chance(0.25):
        c2 = self.perturb(rng, sig, c2)
      where = rng.below(4)
      if where == 0:
        c1f['override'] = True
      elif where == 1:
        c2f['override'] = True
      elif where == 2:
        c1f['override'] = True
        c2f['override'] = False
      # where == 3: overlapping without override (expected to be refused)
    else:   # ignore
      c1 = self.gen_valid_call(rng, sig, partial=0.5)
      c2 = self.gen_valid_call(rng, sig, partial=0.5)
      n1 = name_args(sig, c1['args'], c1['kwargs'])
      if n1 is not None:
        taken = {n for n, _ in n1[0]} | {n for n, _ in n1[2]}
        c2 = {'args': [], 'kwargs': [kv for kv in c2['kwargs'] if kv[0] not in taken]}
      c2 = {'args': list(c2['args']), 'kwargs': [list(kv) for kv in c2['kwargs']]}
      if rng.chance(0.6):
        c2['kwargs'].append([rng.choice(EXTRA_NAMES), self.val(rng)])
      if rng.chance(0.4) and not c1['args']:
        c2['args'] = [self.val(rng) for _ in range(len(sig['pos']) + rng.randint(1, 2))]
        c2['kwargs'] = [kv for kv in c2['kwargs'] if kv[0] not in [p[0] for p in sig['pos']]]
      seen, out = set(), []
      for kv in c2['kwargs']:
        if kv[0] not in seen:
          seen.add(kv[0])
          out.append(kv)
      c2['kwargs'] = out
      where = rng.below(3)
      if where == 0:
        c1f['ignore'] = True
      elif where == 1:
        c2f['ignore'] = True
      # where == 2: surplus without the option (expected to be refused)
    case['c1'] = dict(c1, kwargs=dedupe(c1['kwargs']), **c1f)
    case['c2'] = dict(c2, kwargs=dedupe(c2['kwargs']), **c2f)
    # the call (not the construction) runs under pg.enable_type_check(False) in ~12 % of the cases
    case['tc_call'] = not rng.chance(0.12)
    if sig['varargs'] is not None and rng.chance(0.08) and all(k != sig['varargs'] for k, _ in case['c2']['kwargs']):
      # a call-time keyword named like the *args parameter (scalar, falsy, empty and non-empty list)
      case['c2']['kwargs'] = case['c2']['kwargs'] + [[sig['varargs'], rng.choice([5, 0] if auto_typing else [-5, -5, -4, 5, 0])]]
    if via == 'subclass':
      if rng.chance(0.3):
        # the wrapped logic raises (poisoned call-time argument); the caller catches
        tgt = case['c2']
        if tgt['kwargs'] and rng.chance(0.6):
          tgt['kwargs'][rng.below(len(tgt['kwargs']))][1] = POISON
        elif tgt['args']:
          tgt['args'][rng.below(len(tgt['args']))] = POISON
        elif sig['pos']:
          n = sig['pos'][-1][0]
          tgt['kwargs'] = [kv for kv in tgt['kwargs'] if kv[0] != n] + [[n, POISON]]
          if rng.chance(0.7):
            tgt['override'] = True
      if sig['pos']:
        case['after_upd'] = [[rng.choice(sig['pos'])[0], self.val(rng)]]
    if rng.chance(0.22):
      self.gen_late(rng, case)
    if rng.chance(0.15) and sig_names(sig):
      # a clone of the functor is re-bound before the original is called: must not affect the original
      case['clone_upd'] = [[n, self.val(rng)] for n in rng.sample(sig_names(sig), rng.randint(1, min(2, len(sig_names(sig)))))]
    return case

  def gen_hier(self, rng):
    """Wrapper class HIERARCHY: pg.symbolize(Parent), then `class Child(SymParent)` with its own
    __init__ (positional parameters re-ordered / renamed, positional-only and keyword-only ones added),
    instantiated parent-first or child-first within the case."""
    self.set_pool(rng, specials=True)
    sig_p = self.gen_sig(rng)
    sig_p.pop('posonly', None)
    if rng.chance(0.5) and len(sig_p['pos']) >= 2:
      # same names, other order (defaults stay a suffix)
      names = rng.shuffle([n for n, _ in sig_p['pos']])
      nd = sum(1 for _, d in sig_p['pos'] if d is not None)
      pos = [[n, (self.dflt(rng) if i >= len(names) - nd else None)] for i, n in enumerate(names)]
      sig = {'pos': pos, 'varargs': sig_p['varargs'] if rng.chance(0.5) else None,
             'kwonly': [list(p) for p in sig_p['kwonly']] if rng.chance(0.5) else [], 'varkw': None}
      if rng.chance(0.3):
        sig['posonly'] = rng.randint(1, len(pos))
    else:
      sig = self.gen_sig(rng)
    call = self.gen_valid_call(rng, sig)
    if rng.chance(0.15):
      call = self.perturb(rng, sig, call)
    pcall = self.gen_valid_call(rng, sig_p)
    case = {'kind': 'hier', 'via': 'symbolize', 'ann': False, 'auto_typing': False, 'mode': 'hierarchy',
            'sig': sig, 'sig_p': sig_p, 'order': rng.choice(['parent-first', 'child-first']),
            'c1': dict(call, kwargs=dedupe(call['kwargs']), override=False, ignore=False),
            'p_c1': dict(pcall, kwargs=dedupe(pcall['kwargs']))}
    names = [n for n in sig_names(sig) if n not in [p[0] for p in sig['pos'][:sig.get('posonly', 0)]]]
    if names:
      case['after_upd'] = [[rng.choice(names), rng.randint(20, 29)]]
    return case

  def gen_nest(self, rng):
    """Class-based functors nested as members of other class-based functors, sharing parameter names."""
    self.set_pool(rng, specials=True)
    n = rng.randint(1, 3)
    ndef = rng.randint(0, n)
    members = [[POS_NAMES[i], self.dflt(rng) if i >= n - ndef else None] for i in range(n)]
    sig_in = {'pos': members, 'varargs': None, 'kwonly': [], 'varkw': None}
    sig = {'pos': [['other', None]] + members, 'varargs': None, 'kwonly': [], 'varkw': None}
    def part(sg, p):
      c = self.gen_valid_call(rng, sg, partial=p)
      return {'args': c['args'], 'kwargs': dedupe(c['kwargs'])}
    ic1, ic2 = part(sig_in, 0.4), part(sig_in, 0.5)
    oc1, oc2 = part(sig_in, 0.3), part(sig_in, 0.5)     # `other` is placed below
    if len(oc1['args']) == n + 0 and False:
      pass
    where = rng.weighted([(5, 'construct'), (2, 'late'), (3, 'call')])
    late = []
    def place(c, here):
      # `other` is the first positional parameter of the outer functor
      if here and rng.chance(0.5):
        return {'args': [INNER] + c['args'], 'kwargs': c['kwargs']}
      names = [m[0] for m in members]
      kws = [[names[i], v] for i, v in enumerate(c['args'])] + c['kwargs']
      return {'args': [], 'kwargs': ([['other', INNER]] if here else []) + kws}
    oc1 = place(oc1, where == 'construct')
    oc2 = place(oc2, where == 'call')
    if where == 'late':
      late = [{'op': 'rebind', 'upd': [['other', INNER]], 'via': rng.choice(['rebind', 'setattr'])}]
    def flags(c1, c2):
      ov = rng.below(4)
      c1 = dict(c1, override=(ov == 0), ignore=False)
      c2 = dict(c2, override=(True if ov == 1 else None), ignore=None)
      return c1, c2
    ic1, ic2 = flags(ic1, ic2)
    oc1, oc2 = flags(oc1, oc2)
    if rng.chance(0.3):
      # the inner functor's `_call` raises (the outer one catches)
      if ic2['kwargs']:
        ic2['kwargs'][rng.below(len(ic2['kwargs']))][1] = POISON
      elif ic2['args']:
        ic2['args'][-1] = POISON
      else:
        ic2['kwargs'] = [[members[-1][0], POISON]]
        ic2['override'] = True
    return {'kind': 'nest', 'via': 'subclass', 'ann': False, 'auto_typing': False, 'mode': 'nested',
            'sig': sig, 'sig_in': sig_in, 'c1': oc1, 'c2': oc2, 'in_c1': ic1, 'in_c2': ic2,
            'late': late, 'thread': rng.chance(0.5)}

  def gen_late(self, rng, case):
    """Late binding on the functor object between construction and call: rebind / setattr of named
    parameters, of wildcard keywords (**kwargs) and of the variadic positional list (*args), and del."""
    sig = case['sig']
    names = sig_names(sig)
    n1 = name_args(sig, case['c1']['args'], case['c1']['kwargs'])
    if n1 is None:
      return
    extras = [k for k, _ in n1[2]]
    kinds = []
    if names:
      kinds += [(3, 'named'), (2, 'del')]
    if sig['varkw'] is not None:
      kinds += [(4, 'extra')]
    if sig['varargs'] is not None:
      kinds += [(4, 'va')]
    if not kinds:
      return
    ops = []
    for _ in range(rng.randint(1, 3)):
      k = rng.weighted(kinds)
      via = 'setattr' if rng.chance(0.4) else 'rebind'
      if k == 'named':
        upd = [[n, self.val(rng)] for n in rng.sample(names, rng.randint(1, min(2, len(names))))]
        if sig['varkw'] is not None and rng.chance(0.3):
          e = rng.choice(EXTRA_NAMES)
          upd.append([e, self.val(rng)])
          extras.append(e)
        ops.append({'op': 'rebind', 'upd': upd, 'via': via})
      elif k == 'extra':
        upd = [[e, self.val(rng)] for e in rng.sample(EXTRA_NAMES, rng.randint(1, 2))]
        extras += [e for e, _ in upd]
        ops.append({'op': 'rebind', 'upd': upd, 'via': via})
      elif k == 'va':
        ops.append({'op': 'set_va', 'vals': [self.val(rng) for _ in range(rng.randint(0, 3))], 'via': via})
      else:
        cands = names + [e for e in extras]
        n = rng.choice(cands)
        ops.append({'op': 'del', 'name': n})
        extras = [e for e in extras if e != n]
    case['late'] = ops

  def gen_hist(self, rng, case):
    """Symbolized existing class whose __init__ computes derived state and may raise: construct,
    then a history of rebinds (some of them make __init__ raise)."""
    sig = case['sig']
    sig.pop('posonly', None)
    case['mode'] = 'history'
    call = self.gen_valid_call(rng, sig)
    if rng.chance(0.1):
      call = self.perturb(rng, sig, call)
    case['c1'] = dict(call, kwargs=dedupe(call['kwargs']), override=False, ignore=False)
    names = sig_names(sig)
    # the generator tracks the named arguments so that every step changes something
    n1 = name_args(sig, case['c1']['args'], case['c1']['kwargs'])
    cur = {}
    for n, d in sig['pos'] + sig['kwonly']:
      if d is not None:
        cur[n] = d
    if n1 is not None:
      cur.update((k, v) for k, v in n1[0])
    steps = []
    poisoned = None
    if n1 is not None:
      cur.update((k, v) for k, v in n1[2])
    for _ in range(rng.randint(1, 4) if names else 0):
      upd = []
      if poisoned is not None and rng.chance(0.7):
        upd.append([poisoned, self.val(rng)])     # repair the argument that made __init__ raise
        poisoned = None
      elif rng.chance(0.35):
        poisoned = rng.choice(names)
        upd.append([poisoned, POISON])
      for n in rng.sample(names, rng.randint(0 if upd else 1, min(2, len(names)))):
        if all(n != k for k, _ in upd):
          upd.append([n, self.val(rng)])
      if sig['varkw'] is not None and rng.chance(0.35):
        upd.append([rng.choice(EXTRA_NAMES), self.val(rng)])     # a wildcard keyword is (re)bound late
      upd = [[k, v] for k, v in upd if cur.get(k, 'unset') != v] or [[names[0], 20 + len(steps)]]
      for k, v in upd:
        cur[k] = v
      if all(cur.get(n) != POISON for n in names):
        poisoned = None
      steps.append({'upd': upd})
    case['steps'] = steps
    return case

  def generate(self, rng, tier):
    n = 1500 if tier == 'quick' else 40000
    for _ in range(n):
      yield self.gen_case(rng)
    if tier == 'thorough':
      yield from self.enumerate_small()

  def enumerate_small(self):
    """All signatures with <= 2 positional, <= 1 keyword-only, +-*args, +-**kwargs x all late and
    construction-time calls with <= 3 supplied arguments over the parameter names plus one unknown."""
    import itertools
    for npos in range(3):
      for ndef in range(npos + 1):
        for nkw in range(2):
          for kwdef in ([None] if nkw == 0 else [None, 7]):
            for va in (None, VARARGS):
              for vk in (None, VARKW):
                sig = {'pos': [[POS_NAMES[i], (5 + i) if i >= npos - ndef else None] for i in range(npos)],
                       'varargs': va, 'kwonly': [[KW_NAMES[0], kwdef]] if nkw else [], 'varkw': vk}
                names = sig_names(sig) + ['p']
                for nargs in range(4):
                  for nk in range(0, 4 - nargs):
                    for ks in itertools.combinations(names, nk):
                      call = {'args': list(range(1, nargs + 1)), 'kwargs': [[k, 8] for k in ks]}
                      for mode in ('construct', 'late'):
                        c1, c2 = (call, {'args': [], 'kwargs': []}) if mode == 'construct' else ({'args': [], 'kwargs': []}, call)
                        yield {'kind': 'functor', 'via': 'functor', 'ann': False, 'auto_typing': False,
                               'sig': sig, 'mode': mode,
                               'c1': dict(c1, override=False, ignore=False),
                               'c2': dict(c2, override=None, ignore=None)}
                      yield {'kind': 'cls', 'via': 'symbolize', 'ann': False, 'auto_typing': False,
                             'sig': sig, 'mode': 'direct', 'c1': dict(call, override=False, ignore=False)}

  # -- execution --------------------------------------------------------------------------

  def model_request(self, case):
    if case['kind'] == 'hier':
      return {'kind': 'cls', 'sig': case['sig'], 'c1': case['c1'], 'fix29': True}
    if case['kind'] == 'nest':
      return {'kind': 'nest', 'sig': case['sig'], 'sig_in': case['sig_in'], 'c1': case['c1'], 'c2': case['c2'],
              'in_c1': case['in_c1'], 'in_c2': case['in_c2'], 'late': case.get('late', [])}
    req = {'kind': case['kind'], 'sig': case['sig'], 'c1': case['c1'], 'fix29': True}
    if case['kind'] == 'functor':
      req['c2'] = case['c2']
      if case.get('late'):
        req['late'] = case['late']
    if case['kind'] == 'hist':
      req['steps'] = case['steps']
    return req

  def impl(self, case):
    import pyglove as pg
    missing = pg.MISSING_VALUE
    sig = case['sig']
    mod = gen_module()
    name = fresh_name('K' if case['kind'] in ('cls', 'hist', 'hier') else 'fn')
    src = source_of(case, name)
    exec(compile(src, '<c18:%s>' % name, 'exec'), mod.__dict__)   # pylint: disable=exec-used
    plain = mod.__dict__[name]
    c1 = case['c1']
    a1, k1 = c1['args'], c1['kwargs']
    attr = 'rec' if case['kind'] in ('cls', 'hist', 'hier') else None
    model = {}
    obs = {'source': src}

    def direct(args, kwargs):
      out = outcome(lambda: plain(*pos(args), **kw(kwargs)), sig, with_kind=True, attr=attr)
      # second reference: inspect.signature(...).bind + apply_defaults
      def via_bind():
        s = inspect.signature(plain.__init__ if case['kind'] in ('cls', 'hist', 'hier') else plain)
        b = s.bind(*((['self'] if case['kind'] in ('cls', 'hist', 'hier') else []) + pos(args)), **kw(kwargs))
        b.apply_defaults()
        d = dict(b.arguments)
        d.pop('self', None)
        return d
      out2 = outcome(via_bind, sig)
      if strip_kind(out) != out2 and out.get('err') != 'ValueError':    # ValueError: raised by the body
        obs.setdefault('bind_disagrees', []).append([args, kwargs, out, out2])
      return out

    if case['kind'] == 'hist':
      return self.impl_hist(case, pg, mod, name, plain, obs)
    if case['kind'] == 'nest':
      return self.impl_nest(case, pg, mod, name, obs)
    if case['kind'] == 'hier':
      return self.impl_hier(case, pg, mod, name, plain, obs)

    model['py_c1'] = direct(a1, k1)

    if case['kind'] == 'cls':
      sym = pg.symbolize(plain, auto_typing=True) if case.get('auto_typing') else pg.symbolize(plain)
      made = {}
      def construct():
        made['obj'] = sym(*pos(a1), **kw(k1))
        return made['obj']
      model['direct'] = outcome(construct, sig, attr='rec')
      obj = made.get('obj')
      model['sym_init_args'] = canon_init_args(obj, missing, sig) if obj is not None else None
      obs['init_signature'] = describe_signature(sym.__init__, True)
      obs['plain_signature'] = describe_signature(plain.__init__, True)
      if obj is not None:
        obs['clone'] = outcome(lambda: obj.clone(), sig, attr='rec')
        obs['clone_deep'] = outcome(lambda: obj.clone(deep=True), sig, attr='rec')
        obs['json'] = outcome(lambda: pg.from_json(obj.to_json()), sig, attr='rec')
        try:
          obs['json_init_args'] = canon_init_args(pg.from_json(obj.to_json()), missing, sig)
        except Exception as e:   # pylint: disable=broad-except
          obs['json_init_args'] = 'raises:' + type(e).__name__
      return {'model': model, 'obs': obs}

    c2 = case['c2']
    a2, k2 = c2['args'], c2['kwargs']
    ignore = c2['ignore'] if c2['ignore'] is not None else c1['ignore']
    override = c2['override'] if c2['override'] is not None else c1['override']
    model['py_c2'] = direct(a2, k2)
    eff = effective(sig, c1, c2, ignore, case.get('late'))
    model['effective'] = eff['call'] if eff else None
    model['py_eff'] = direct(eff['call']['args'], eff['call']['kwargs']) if eff else None
    model['conflict'] = eff['conflict'] if eff else None
    model['va_conflict'] = eff['va_conflict'] if eff else None
    model['override'] = override
    if ignore:
      da, dk = drop_extras(sig, a2, k2)
      obs['py_c2_dropped'] = direct(da, dk)

    opts = {}
    if case.get('auto_typing'):
      opts['auto_typing'] = True
    if case['via'] == 'subclass':
      sym = mod.__dict__[name + '_sub']
    elif case['via'] == 'symbolize':
      sym = pg.symbolize(plain, **opts)
    elif opts:
      sym = pg.functor_class(plain, add_to_registry=True, **opts)
    else:
      sym = pg.functor(plain)
    made = {}
    init_kw = kw(k1)
    if c1['override']:
      init_kw['override_args'] = True
    if c1['ignore']:
      init_kw['ignore_extra_args'] = True
    try:
      made['obj'] = sym(*pos(a1), **init_kw)
      model['init'] = 'ok'
    except Exception as e:   # pylint: disable=broad-except
      model['init'] = type(e).__name__
    obj = made.get('obj')
    obs['init_signature'] = describe_signature(sym.__init__, True)
    obs['plain_signature'] = describe_signature(plain, False)
    if obj is None:
      return {'model': model, 'obs': obs}
    if case.get('clone_upd'):
      # re-binding a clone must leave the original alone
      try:
        obj.clone().rebind(raise_on_no_change=False, **kw(case['clone_upd']))
        obj.clone(deep=True).rebind(raise_on_no_change=False, **kw(case['clone_upd']))
      except Exception as e:   # pylint: disable=broad-except
        obs['clone_upd_error'] = type(e).__name__
    for op in case.get('late', []):
      # late binding on the functor object itself, before the call
      try:
        if op['op'] == 'rebind':
          if op.get('via') == 'setattr':
            for k, v in op['upd']:
              setattr(obj, k, dec(v))
          else:
            obj.rebind(raise_on_no_change=False, **kw(op['upd']))
        elif op['op'] == 'set_va':
          if op.get('via') == 'setattr':
            setattr(obj, sig['varargs'], pos(op['vals']))
          else:
            obj.rebind(raise_on_no_change=False, **{sig['varargs']: pos(op['vals'])})
        else:
          delattr(obj, op['name'])
      except Exception as e:   # pylint: disable=broad-except
        obs.setdefault('late_errors', []).append([op, type(e).__name__, str(e)[:120]])
    if case.get('late'):
      nl = apply_late(sig, name_args(sig, a1, k1), case['late'])
      rc = to_call(sig, *nl)
      obs['py_reported'] = direct(rc['args'], rc['kwargs'])
    model['sym_init_args'] = canon_init_args(obj, missing, sig)
    model['specified'] = sorted(obj.specified_args)
    model['default'] = sorted(obj.default_args)
    model['nondefault'] = sorted(obj.non_default_args)
    call_kw = kw(k2)
    if c2['override'] is not None:
      call_kw['override_args'] = c2['override']
    if c2['ignore'] is not None:
      call_kw['ignore_extra_args'] = c2['ignore']
    import contextlib
    scope = (contextlib.nullcontext if case.get('tc_call', True) else (lambda: pg.enable_type_check(False)))
    with scope():
      model['call'] = outcome(lambda: obj(*pos(a2), **call_kw), sig)
      model['call0'] = outcome(lambda: obj(), sig)
    # the functor must not have been changed by being called
    obs['init_args_after_call'] = canon_init_args(obj, missing, sig)
    if case['via'] == 'subclass':
      # after the call (which may have raised inside `_call`): member reads, a rebind, further calls
      def reads(o):
        out = []
        for n, _ in sig['pos']:
          v = getattr(o, n)
          out.append([n, 'MISSING' if (isinstance(v, type(missing)) and v == missing) else enc(v)])
        return out
      obs['member_reads'] = reads(obj)
    with scope():
      obs['clone_call'] = outcome(lambda: obj.clone()(*pos(a2), **call_kw), sig)
      obs['clone_deep_call'] = outcome(lambda: obj.clone(deep=True)(*pos(a2), **call_kw), sig)
    try:
      rt = pg.from_json(obj.to_json())
      obs['json_init_args'] = canon_init_args(rt, missing, sig)
      obs['json_call0'] = outcome(lambda: rt(), sig)
      obs['json_sets'] = [sorted(rt.specified_args), sorted(rt.default_args), sorted(rt.non_default_args)]
    except Exception as e:   # pylint: disable=broad-except
      obs['json_init_args'] = 'raises:' + type(e).__name__
      obs['json_call0'] = {'err': 'roundtrip:' + type(e).__name__}
      obs['json_sets'] = None
    # the model also predicts the round trip and the clone (Functor.jsonRoundTrip / Functor.clone)
    model['json_init_args'] = obs['json_init_args']
    model['json_call0'] = obs['json_call0']
    if obs['json_sets'] is not None:
      model['json_specified'], model['json_default'], model['json_nondefault'] = obs['json_sets']
    model['clone_call'] = obs['clone_call']
    if case['via'] == 'subclass' and case.get('after_upd'):
      # finally: re-bind a member on the same object, read the members, call again
      try:
        obj.rebind(raise_on_no_change=False, **kw(case['after_upd']))
        obs['member_reads_after_rebind'] = reads(obj)
        obs['call0_after_rebind'] = outcome(lambda: obj(), sig)
        obs['args_after_rebind'] = canon_init_args(obj, missing, sig)
      except Exception as e:   # pylint: disable=broad-except
        obs['after_rebind_error'] = type(e).__name__
      na = apply_late(sig, name_args(sig, a1, k1),
                      list(case.get('late', [])) + [{'op': 'rebind', 'upd': case['after_upd']}])
      if na is not None:
        rc = to_call(sig, *na)
        obs['py_after_rebind'] = direct(rc['args'], rc['kwargs'])
    return {'model': model, 'obs': obs}

  def impl_hier(self, case, pg, mod, name, plain, obs):
    missing = pg.MISSING_VALUE
    sig, sig_p = case['sig'], case['sig_p']
    parent = mod.__dict__[name + '_parent']
    c1, pc = case['c1'], case['p_c1']
    model = {}

    def direct(fn, sg, args, kwargs, attr):
      return outcome(lambda: fn(*pos(args), **kw(kwargs)), sg, with_kind=True, attr=attr)

    model['py_c1'] = direct(plain, sig, c1['args'], c1['kwargs'], 'rec')
    SymP = pg.symbolize(parent)
    # the child wrapper class: a subclass of the symbolized parent with its own __init__
    ns = {'SymP': SymP}
    exec(compile('class %s_child(SymP):\n%s' % (name, mod.__dict__['HIER_CHILD_BODY']), '<c18:%s_child>' % name, 'exec'),
         mod.__dict__, ns)   # pylint: disable=exec-used
    mod.__dict__['SymP'] = SymP
    exec(compile('class %s_child(SymP):\n%s' % (name, mod.__dict__['HIER_CHILD_BODY']), '<c18:%s_child>' % name, 'exec'),
         mod.__dict__)   # pylint: disable=exec-used
    Child = mod.__dict__[name + '_child']

    def use_parent():
      obs['parent'] = outcome(lambda: SymP(*pos(pc['args']), **kw(pc['kwargs'])), sig_p, attr='rec_p')
      obs['parent_plain'] = outcome(lambda: parent(*pos(pc['args']), **kw(pc['kwargs'])), sig_p, attr='rec_p')

    made = {}
    def construct():
      made['obj'] = Child(*pos(c1['args']), **kw(c1['kwargs']))
      return made['obj']

    if case['order'] == 'parent-first':
      use_parent()
    model['direct'] = outcome(construct, sig, attr='rec')
    if case['order'] != 'parent-first':
      use_parent()
    obj = made.get('obj')
    model['sym_init_args'] = canon_init_args(obj, missing, sig) if obj is not None else None
    obs['init_signature'] = describe_signature(Child.__init__, True)
    obs['plain_signature'] = describe_signature(plain.__init__, True)
    if obj is not None:
      obs['parent_view'] = strip_kind(outcome(lambda: obj, sig_p, attr='rec_p'))
      obs['parent_view_plain'] = strip_kind(outcome(lambda: plain(*pos(c1['args']), **kw(c1['kwargs'])), sig_p, attr='rec_p'))
      obs['clone'] = outcome(lambda: obj.clone(deep=True), sig, attr='rec')
      obs['json'] = outcome(lambda: pg.from_json(obj.to_json()), sig, attr='rec')
      if case.get('after_upd'):
        n1 = name_args(sig, c1['args'], c1['kwargs'])
        try:
          obj.rebind(raise_on_no_change=False, **kw(case['after_upd']))
          obs['rebind'] = outcome(lambda: obj, sig, attr='rec')
        except Exception as e:   # pylint: disable=broad-except
          obs['rebind'] = {'err': type(e).__name__}
        obs['rebind_args'] = canon_init_args(obj, missing, sig)
        if n1 is not None:
          nl = apply_late(sig, n1, [{'op': 'rebind', 'upd': case['after_upd']}])
          rc = to_call(sig, *nl)
          obs['rebind_plain'] = strip_kind(direct(plain, sig, rc['args'], rc['kwargs'], 'rec'))
          obs['rebind_expected_args'] = self.expected_report(sig, nl)
    return {'model': model, 'obs': obs}

  def impl_nest(self, case, pg, mod, name, obs):
    import threading
    missing = pg.MISSING_VALUE
    sig, sig_in = case['sig'], case['sig_in']
    In, Out = mod.__dict__[name + '_in'], mod.__dict__[name + '_out']
    in_ref, out_ref = mod.__dict__[name + '_in_ref'], mod.__dict__[name]
    model = {}
    holder = {}

    def val(v):
      return holder['inner'] if v == INNER else dec(v)

    def mk(cls, c, sg):
      k = {a: val(b) for a, b in c['kwargs']}
      if c.get('override'):
        k['override_args'] = True
      return cls(*[val(v) for v in c['args']], **k)

    def snap(o, names):
      out = []
      for n in names:
        v = getattr(o, n)
        out.append([n, 'MISSING' if (isinstance(v, type(missing)) and v == missing) else enc(v)])
      return out

    def run(thunk, sg=sig_in):
      return outcome(thunk, sg)

    def in_thread(thunk):
      box = {}
      def body():
        try:
          box['v'] = thunk()
        except Exception as e:   # pylint: disable=broad-except
          box['v'] = {'err': 'in-thread:' + type(e).__name__}
      th = threading.Thread(target=body)
      th.start()
      th.join(10)
      return box.get('v', 'THREAD-TIMEOUT')

    try:
      holder['inner'] = mk(In, case['in_c1'], sig_in)
      model['in_init'] = 'ok'
    except Exception as e:   # pylint: disable=broad-except
      model['in_init'] = type(e).__name__
    if 'inner' not in holder:
      holder['inner'] = In.partial()
    inner = holder['inner']
    try:
      outer = mk(Out, case['c1'], sig)
      model['out_init'] = 'ok'
    except Exception as e:   # pylint: disable=broad-except
      outer = None
      model['out_init'] = type(e).__name__
    if outer is None or model['in_init'] != 'ok':
      if outer is None:
        model.pop('in_init', None)
      return {'model': model, 'obs': obs}
    for op in case.get('late', []):
      if op.get('via') == 'setattr':
        setattr(outer, 'other', inner)
      else:
        outer.rebind(other=inner)
    ic2, oc2 = case['in_c2'], case['c2']
    ik = {a: val(b) for a, b in ic2['kwargs']}
    if ic2.get('override') is not None:
      ik['override_args'] = ic2['override']
    ok = {a: val(b) for a, b in oc2['kwargs']}
    if oc2.get('override') is not None:
      ok['override_args'] = oc2['override']
    mod.__dict__['NEST_CTX'] = {'snap': snap, 'run': run, 'in_thread': in_thread, 'thread': case.get('thread', False),
                                'a': [val(v) for v in ic2['args']], 'k': ik}
    inner_before = snap(inner, [n for n, _ in sig_in['pos']])
    try:
      r = outer(*[val(v) for v in oc2['args']], **ok)
      res = {'mine': {'ok': canon_assignment(sig, r['mine'])}, 'read': r['read'], 'called': r['called']}
      obs['read_after'] = r['read_after']
      obs['mine_after'] = {'ok': canon_assignment(sig, r['mine_after'])}
      if case.get('thread'):
        res['thread_read_self'] = r['thread_read_self']
        res['thread_read_inner'] = r['thread_read_inner']
        obs['thread_called'] = r['thread_called']
      model['call'] = {'ok': res}
    except Exception as e:   # pylint: disable=broad-except
      model['call'] = {'err': type(e).__name__}
    # afterwards the inner functor still reports / uses its own arguments
    obs['inner_before'] = inner_before
    obs['inner_after'] = snap(inner, [n for n, _ in sig_in['pos']])
    obs['inner_call_after'] = run(lambda: inner(*mod.__dict__['NEST_CTX']['a'], **ik))
    # reference: the plain functions on the effective arguments
    def ref(fn, sg, c1, c2, late=()):
      e = effective(sg, c1, c2, False, late)
      if e is None:
        return {'err': 'TypeError'}, None
      if e['conflict'] and not (c2['override'] if c2['override'] is not None else c1['override']):
        return {'err': 'TypeError'}, e
      return outcome(lambda: fn(*[val(v) for v in e['call']['args']],
                                **{a: val(b) for a, b in e['call']['kwargs']}), sg), e
    obs['ref_mine'], _ = ref(out_ref, sig, case['c1'], case['c2'], case.get('late', []))
    obs['ref_called'], _ = ref(in_ref, sig_in, case['in_c1'], case['in_c2'])
    return {'model': model, 'obs': obs}

  def impl_hist(self, case, pg, mod, name, plain, obs):
    missing = pg.MISSING_VALUE
    sig = case['sig']
    c1 = case['c1']
    ref = mod.__dict__[name + '_ref']
    model = {'py_c1': outcome(lambda: ref(*pos(c1['args']), **kw(c1['kwargs'])), sig, with_kind=True, attr='rec')}
    sym = pg.symbolize(plain)
    obs['init_signature'] = describe_signature(sym.__init__, True)
    obs['plain_signature'] = describe_signature(plain.__init__, True)

    def state(o):
      try:
        return canon_assignment(sig, o.rec)
      except AttributeError:
        return 'NOATTR'

    try:
      obj = sym(*pos(c1['args']), **kw(c1['kwargs']))
      model['init'] = 'ok'
    except Exception as e:   # pylint: disable=broad-except
      obj = None
      model['init'] = type(e).__name__
    model['steps'] = []
    if obj is not None:
      model['rec'] = state(obj)
      model['args'] = canon_init_args(obj, missing, sig)
      for st in case['steps']:
        try:
          obj.rebind(raise_on_no_change=False, **kw(st['upd']))
          res = 'ok'
        except Exception as e:   # pylint: disable=broad-except
          res = type(e).__name__
        model['steps'].append({'res': res, 'rec': state(obj), 'args': canon_init_args(obj, missing, sig)})
      # the wrapper state after the history survives clone and JSON round trip
      final = model['steps'][-1] if model['steps'] else {'res': 'ok', 'rec': model['rec']}
      if final['res'] == 'ok':
        obs['final'] = final['rec']
        obs['clone'] = outcome(lambda: obj.clone(), sig, attr='rec')
        obs['json'] = outcome(lambda: pg.from_json(obj.to_json()), sig, attr='rec')
    return {'model': model, 'obs': obs}

  @staticmethod
  def hist_prediction(model_out):
    """The model does not know the body of __init__: it predicts what __init__ SEES; the harness
    adds the body's rule (ValueError iff a named int argument equals POISON)."""
    def step(sees):
      if 'err' in sees:
        return sees['err'], 'NOATTR'
      if any(v == POISON for _, v in sees['ok']['named']):
        return 'ValueError', 'NOATTR'
      return 'ok', sees['ok']
    out = {'py_c1': model_out['py_c1'], 'steps': []}
    if model_out['init'] != 'ok':
      out['init'] = model_out['init']
      return out
    res, rec = step(model_out['sees'])
    out['init'] = res
    if res != 'ok':
      return out
    out['rec'], out['args'] = rec, model_out['args']
    for st in model_out['steps']:
      res, rec = step(st['sees'])
      out['steps'].append({'res': res, 'rec': rec, 'args': st['args']})
    return out

  def compare(self, case, impl_out, model_out):
    a = impl_out['model']
    b = self.hist_prediction(model_out) if case['kind'] == 'hist' else dict(model_out)
    if case.get('via') == 'subclass':
      # the model predicts what the body SEES; the generated body raises ValueError on a poisoned argument
      def poisonify(o):
        if isinstance(o, dict) and 'ok' in o and isinstance(o['ok'], dict) and 'named' in o['ok'] \
            and any(v == POISON for _, v in o['ok']['named']):
          return {'err': 'ValueError'}
        return o
      if case['kind'] == 'functor':
        for k in ('call', 'call0', 'clone_call', 'json_call0', 'py_c1', 'py_c2', 'py_eff'):
          if k in b:
            b[k] = poisonify(b[k])
      elif isinstance(b.get('call'), dict) and 'ok' in b['call']:
        b['call'] = {'ok': dict(b['call']['ok'], called=poisonify(b['call']['ok']['called']))}
    if case['kind'] == 'nest' and isinstance(b.get('call'), dict) and 'ok' in b['call'] and not case.get('thread'):
      b['call'] = {'ok': {k: v for k, v in b['call']['ok'].items() if not k.startswith('thread_')}}
    for k in ('specified', 'default', 'nondefault', 'json_specified', 'json_default', 'json_nondefault'):
      if k in b:
        b[k] = sorted(b[k])
    keys = set(a) | set(b)
    diffs = []
    for k in sorted(keys):
      if a.get(k) != b.get(k):
        diffs.append('%s: impl=%s model=%s' % (k, a.get(k), b.get(k)))
    return '; '.join(diffs)[:900] if diffs else None

  # -- the property itself ------------------------------------------------------------------

  def binds_varargs_by_name(self, case):
    """Construction (or direct class construction) with a keyword named like the *args parameter."""
    va = case['sig']['varargs']
    return va is not None and any(k == va for k, _ in case['c1']['kwargs'])

  def calls_with_varargs_name(self, case):
    """A CALL-TIME keyword named like the *args parameter."""
    va = case['sig']['varargs']
    return va is not None and case['kind'] == 'functor' and any(k == va for k, _ in case['c2']['kwargs'])

  def uses_varargs_name_as_keyword(self, case):
    va = case['sig']['varargs']
    if va is None:
      return False
    calls = [case['c1']] + ([case['c2']] if case['kind'] == 'functor' else [])
    return any(k == va for c in calls for k, _ in c['kwargs'])

  @staticmethod
  def _mismatch(stage, expected, got):
    """expected: outcome of the direct call (with CPython's kind), got: outcome of the symbolic one."""
    if strip_kind(expected) == strip_kind(got):
      return None
    if 'err' in expected and 'ok' in got:
      sig = 'accepts:%s:%s' % (expected.get('kind', '?'), stage)
    elif 'ok' in expected and 'err' in got:
      sig = 'rejects-valid-call:%s:%s' % (stage, got['err'])
    elif 'ok' in expected:
      sig = 'wrong-assignment:%s' % stage
    else:
      sig = 'error-class:%s:%s-instead-of-%s' % (stage, got['err'], expected['err'])
    return {'signature': sig,
            'what': '%s: calling the original directly gives %s, the symbolic object gives %s' % (stage, expected, got)}

  def passes_posonly_by_keyword(self, case):
    sig = case['sig']
    po = {p[0] for p in sig['pos'][:sig.get('posonly', 0)]}
    calls = [case['c1']] + ([case['c2']] if case['kind'] == 'functor' else [])
    return any(k in po for c in calls for k, _ in c['kwargs'])

  def oracle(self, case, out):
    obs = out['obs']
    f = self._oracle_core(case, out)
    ign = case['kind'] == 'functor' and (case['c2']['ignore'] if case['c2']['ignore'] is not None else case['c1']['ignore'])
    prebound = (case['kind'] == 'functor' and case['sig']['varargs'] is not None
                and (len(case['c1']['args']) > len(case['sig']['pos'])
                     or any(op['op'] == 'set_va' for op in case.get('late', []))))
    if f and self.calls_with_varargs_name(case) and (case['sig']['varkw'] is not None or (ign and prebound)):
      # F355: with **kwargs declared, a call-time keyword named like *args is consumed as the variadic
      # list (or dropped) instead of landing in **kwargs; and with the *args list already bound it counts
      # as a re-specification of that field, which ignore_extra_args does not drop. Otherwise (no **kwargs,
      # list not bound) the functor refuses / ignores it exactly as the plain function does — NOT excused.
      return {'signature': 'varargs-name-as-call-keyword',
              'what': 'call-time keyword named like the *args parameter, **kwargs declared: ' + f['what']}
    if f and self.passes_posonly_by_keyword(case):
      # F62: symbolic fields are addressable by name, also those of positional-only parameters
      return {'signature': 'posonly-keyword',
              'what': 'a positional-only parameter is passed by keyword: ' + f['what']}
    if f:
      return f
    # Generated __init__ signature = signature of the original.
    if 'init_signature' in obs and obs['init_signature'] != obs['plain_signature']:
      relaxed = [[n, 'POSITIONAL_OR_KEYWORD' if k == 'POSITIONAL_ONLY' else k, d, h]
                 for n, k, d, h in obs['plain_signature']]
      return {'signature': 'posonly-signature' if obs['init_signature'] == relaxed else 'generated-init-signature',
              'what': 'inspect.signature(cls.__init__) = %s, original: %s' % (obs['init_signature'], obs['plain_signature'])}
    return None

  def _oracle_core(self, case, out):
    m, obs = out['model'], out['obs']
    sig = case['sig']
    if obs.get('bind_disagrees'):
      return {'signature': 'interpreter-self-disagreement',
              'what': 'inspect.signature().bind differs from the real call: %s' % obs['bind_disagrees'][:1]}
    if self.binds_varargs_by_name(case):
      return None      # documented: the *args parameter is a symbolic field of that name (F(args=[...]))
    c1 = case['c1']
    n1 = name_args(sig, c1['args'], c1['kwargs'])

    if case['kind'] == 'hist':
      return self._oracle_hist(case, out, n1)
    if case['kind'] == 'nest':
      return self._oracle_nest(case, out)

    if case['kind'] == 'hier':
      stage = 'subclass-of-wrapper:%s' % case['order']
      f = self._mismatch(stage, m['py_c1'], m['direct'])
      if f:
        return f
      if obs.get('parent') != obs.get('parent_plain'):
        return {'signature': 'wrapper-hierarchy:parent:%s' % case['order'],
                'what': 'the symbolized parent gives %s, the plain parent %s' % (obs.get('parent'), obs.get('parent_plain'))}
      if 'ok' in m['direct']:
        f = self._reported(sig, n1, m['sym_init_args'], stage, full=True)
        if f:
          return f
        if obs['parent_view'] != obs['parent_view_plain']:
          return {'signature': 'wrapper-hierarchy:super-init', 'what': 'super().__init__ saw %s, plain: %s' % (obs['parent_view'], obs['parent_view_plain'])}
        for k in ('clone', 'json'):
          if obs[k] != m['direct']:
            return {'signature': 'roundtrip:hierarchy-%s' % k, 'what': '%s holds %s, original %s' % (k, obs[k], m['direct'])}
        if 'rebind_plain' in obs:
          if obs['rebind_args'] != obs['rebind_expected_args']:
            return {'signature': 'reported-args:hierarchy-rebind', 'what': 'after rebind sym_init_args = %s, expected %s' % (obs['rebind_args'], obs['rebind_expected_args'])}
          if obs['rebind'] != obs['rebind_plain']:
            return {'signature': 'wrapper-hierarchy:rebind:%s' % case['order'],
                    'what': 'after rebind(%s) the child holds %s; Child(*reported) holds %s' % (case['after_upd'], obs['rebind'], obs['rebind_plain'])}
      return None

    if case['kind'] == 'cls':
      f = self._mismatch('direct-construction', m['py_c1'], m['direct'])
      if f:
        return f
      if 'ok' in m['direct']:
        f = self._reported(sig, n1, m['sym_init_args'], 'direct-construction', full=True)
        if f:
          return f
        for k in ('clone', 'clone_deep', 'json'):
          if obs[k] != m['direct']:
            return {'signature': 'roundtrip:%s' % k, 'what': '%s then reading the object gives %s, original %s' % (k, obs[k], m['direct'])}
        if obs['json_init_args'] != m['sym_init_args']:
          return {'signature': 'roundtrip:json-init-args', 'what': 'sym_init_args after JSON round trip %s, before %s' % (obs['json_init_args'], m['sym_init_args'])}
      return None

    c2 = case['c2']
    # construction-time errors are the language's errors for the same arguments (missing aside)
    if m['init'] != 'ok':
      if n1 is not None:
        return {'signature': 'rejects-valid-call:construction:%s' % m['init'],
                'what': 'F(*%s, **%s) raises %s although the arguments can be bound' % (c1['args'], c1['kwargs'], m['init'])}
      if m['init'] != m['py_c1'].get('err'):
        return {'signature': 'error-class:construction:%s-instead-of-%s' % (m['init'], m['py_c1'].get('err')),
                'what': 'construction raises %s, the direct call %s' % (m['init'], m['py_c1'])}
      return None
    if n1 is None:
      return {'signature': 'accepts:%s:construction' % m['py_c1'].get('kind', '?'),
              'what': 'F(*%s, **%s) is accepted, the direct call gives %s' % (c1['args'], c1['kwargs'], m['py_c1'])}
    late = case.get('late')
    if obs.get('late_errors'):
      return {'signature': 'late-binding-op-raises:%s' % obs['late_errors'][0][1],
              'what': 'late binding on the functor object raises: %s' % obs['late_errors'][:1]}
    if late:
      n1 = apply_late(sig, n1, late)
    f = self._reported(sig, n1, m['sym_init_args'], 'late-bound' if late else 'construction', full=False)
    if f:
      return f
    if obs['init_args_after_call'] != m['sym_init_args']:
      return {'signature': 'call-mutates-functor', 'what': 'sym_init_args changed by __call__: %s -> %s' % (m['sym_init_args'], obs['init_args_after_call'])}
    if 'member_reads' in obs:
      exp = [kv for kv in self.expected_report(sig, n1) if kv[0] in [p[0] for p in sig['pos']]]
      if obs['member_reads'] != exp:
        return {'signature': 'members-after-call%s' % ('-that-raised' if m['call'].get('err') == 'ValueError' else ''),
                'what': 'after the call (%s) the members read %s; the bound arguments are %s' % (m['call'], obs['member_reads'], exp)}
      if 'after_rebind_error' in obs:
        return {'signature': 'rebind-after-call-raises:%s' % obs['after_rebind_error'], 'what': 'rebind after the call raises'}
      if 'member_reads_after_rebind' in obs:
        n2_ = apply_late(sig, n1, [{'op': 'rebind', 'upd': case['after_upd']}])
        exp2 = [kv for kv in self.expected_report(sig, n2_) if kv[0] in [p[0] for p in sig['pos']]]
        if obs['member_reads_after_rebind'] != exp2:
          return {'signature': 'members-after-call-and-rebind',
                  'what': 'after the call (%s) and rebind(%s) the members read %s; expected %s' % (m['call'], case['after_upd'], obs['member_reads_after_rebind'], exp2)}
        f = self._mismatch('call-after-call-and-rebind', obs['py_after_rebind'], obs['call0_after_rebind'])
        if f:
          return f
    if late:
      # re-bound functor: F…() is the plain function called with the REPORTED arguments
      f = self._mismatch('call-with-reported-args', obs['py_reported'], m['call0'])
    else:
      # construction-time binding: F(*a, **k)() is f(*a, **k)
      f = self._mismatch('construction-time-binding', m['py_c1'], m['call0'])
    if f:
      return f
    # JSON round trip then call; clone then call
    if obs['json_init_args'] != m['sym_init_args']:
      return {'signature': 'roundtrip:json-init-args', 'what': 'sym_init_args after JSON round trip %s, before %s' % (obs['json_init_args'], m['sym_init_args'])}
    if obs['json_call0'] != m['call0']:
      return {'signature': 'roundtrip:json-call', 'what': 'from_json(to_json(F))() = %s, F() = %s' % (obs['json_call0'], m['call0'])}
    for k in ('clone_call', 'clone_deep_call'):
      if obs[k] != m['call']:
        return {'signature': 'roundtrip:%s' % k, 'what': '%s = %s, original %s' % (k, obs[k], m['call'])}
    # the two-stage call
    ignore = c2['ignore'] if c2['ignore'] is not None else c1['ignore']
    if not (c1['args'] or c1['kwargs']) and not ignore and not late:
      # late binding: F()(*a, **k) is f(*a, **k), literally
      f = self._mismatch('late-binding', m['py_c2'], m['call'])
      if f:
        return f
    if m['effective'] is None:
      # the call-time arguments cannot be distributed over the parameters: same kind of error
      expected = obs['py_c2_dropped'] if ignore else m['py_c2']
      if 'err' in m['call'] and m['call']['err'] == expected.get('err'):
        return None
      if 'ok' in expected:    # cannot happen: naming failed
        return None
      return self._mismatch('call-time-binding', expected, m['call'])
    if m['conflict'] and not m['override']:
      if m['call'] != {'err': 'TypeError'}:
        return {'signature': 'overrides-without-override-args',
                'what': 'argument bound at construction supplied again at call time without override_args: %s' % m['call']}
      return None
    if m['va_conflict'] and not m['override']:
      return None     # observation O1 (prebound *args silently replaced); the property does not fix it
    stage = 're-bound-then-call' if late else ('late-binding' if not (c1['args'] or c1['kwargs']) else 'two-stage')
    return self._mismatch(stage, m['py_eff'], m['call'])

  def _oracle_nest(self, case, out):
    """While the outer functor executes, the inner functor object keeps ITS arguments: reading its
    members gives its bound arguments, calling it gives in_ref(*its effective arguments); the outer one
    sees out_ref(*its effective arguments); another thread sees bound arguments only."""
    m, obs = out['model'], out['obs']
    if m.get('out_init') != 'ok' or m.get('in_init') != 'ok':
      return None      # construction-time errors are covered by the functor cases
    call = m['call']
    if 'ref_mine' not in obs:
      return None
    if 'err' in call:
      if obs['ref_mine'] != {'err': call['err']}:
        return {'signature': 'nested:outer-call-raises:%s' % call['err'],
                'what': 'the outer functor call raises %s, out_ref(*effective) gives %s' % (call['err'], obs['ref_mine'])}
      return None
    r = call['ok']
    sig_in = case['sig_in']
    n_in = name_args(sig_in, case['in_c1']['args'], case['in_c1']['kwargs'])
    d = dict((k, v) for k, v in n_in[0])
    bound_inner = [[n, d.get(n, dflt if dflt is not None else 'MISSING')] for n, dflt in sig_in['pos']]
    if r['mine'] != obs['ref_mine']:
      return {'signature': 'nested:outer-members', 'what': 'outer members during the call %s, out_ref(*effective) %s' % (r['mine'], obs['ref_mine'])}
    for key, got in (('read', r['read']), ('read_after', obs['read_after']), ('inner_after', obs['inner_after']),
                     ('thread_read_inner', r.get('thread_read_inner', bound_inner))):
      if got != bound_inner:
        return {'signature': 'nested:inner-members-leak:%s' % key,
                'what': 'while the outer functor executes (%s), the inner functor object reads %s; its own bound arguments '
                        'are %s' % (key, got, bound_inner)}
    for key, got in (('called', r['called']), ('inner_call_after', obs['inner_call_after']),
                     ('thread_called', obs.get('thread_called', obs['ref_called']))):
      if got != obs['ref_called']:
        return {'signature': 'nested:inner-call:%s' % key,
                'what': 'calling the inner functor (%s) gives %s, in_ref(*effective) gives %s' % (key, got, obs['ref_called'])}
    if obs['mine_after'] != obs['ref_mine']:
      return {'signature': 'nested:outer-members-after-inner-call',
              'what': 'after calling the inner functor the outer members read %s, expected %s' % (obs['mine_after'], obs['ref_mine'])}
    if 'thread_read_self' in r:
      n_out = apply_late(case['sig'], name_args(case['sig'], case['c1']['args'], case['c1']['kwargs']), case.get('late', []))
      d = dict((k, v) for k, v in n_out[0])
      bound_outer = [[n, d.get(n, dflt if dflt is not None else 'MISSING')] for n, dflt in case['sig']['pos']]
      if r['thread_read_self'] != bound_outer:
        return {'signature': 'nested:overrides-visible-in-other-thread',
                'what': 'another thread reads %s from the executing functor; its bound arguments are %s' % (r['thread_read_self'], bound_outer)}
    return None

  def _oracle_hist(self, case, out, n1):
    """After every step of construct -> rebind -> rebind ...: the wrapper either is in the state of
    a directly constructed Original(*effective arguments) and reports those arguments, or the step
    failed with the exception the direct construction raises."""
    m, obs = out['model'], out['obs']
    sig = case['sig']
    c1 = case['c1']

    def direct(named, va, extra):
      call = to_call(sig, named, va, extra)
      if any(v == POISON for _, v in named):
        return {'err': 'ValueError'}, call
      # the original class without the check is the generated `<name>_ref`; binding = model-free:
      # reuse py_c1-style evaluation through the spec copy
      return None, call

    # construction
    if n1 is None:
      if m['init'] == 'ok':
        return {'signature': 'accepts:%s:construction' % m['py_c1'].get('kind', '?'),
                'what': 'Cls(*%s, **%s) is accepted, the original gives %s' % (c1['args'], c1['kwargs'], m['py_c1'])}
      return None
    named, va, extra = [list(kv) for kv in n1[0]], list(n1[1]), [list(kv) for kv in n1[2]]
    expect_err, _ = direct(named, va, extra)
    py = m['py_c1']
    if expect_err is None and 'err' in py:
      expect_err = {'err': py['err']}
    if expect_err is not None:
      if m['init'] != expect_err['err']:
        return {'signature': 'history:construction:%s-instead-of-%s' % (m['init'], expect_err['err']),
                'what': 'construction gives %s, the original raises %s' % (m['init'], expect_err['err'])}
      return None
    if m['init'] != 'ok':
      return {'signature': 'rejects-valid-call:history-construction:%s' % m['init'],
              'what': 'Cls(*%s, **%s) raises %s, the original gives %s' % (c1['args'], c1['kwargs'], m['init'], py)}
    if m['rec'] != py['ok']:
      return {'signature': 'wrong-assignment:history-construction',
              'what': 'after construction the wrapper holds %s, the original %s' % (m['rec'], py['ok'])}
    defaults = dict((n, d) for n, d in sig['pos'] + sig['kwonly'] if d is not None)
    for i, (st, o) in enumerate(zip(case['steps'], m['steps'])):
      named = merge_kw(named, [kv for kv in st['upd'] if kv[0] in sig_names(sig)])
      extra = merge_kw(extra, [kv for kv in st['upd'] if kv[0] not in sig_names(sig)])
      f = self._reported(sig, (named, va, extra), o['args'], 'history-step', full=True)
      if f:
        return f
      full = dict(defaults)
      full.update((k, v) for k, v in named)
      exp_rec = {'named': [[n, full[n]] for n in sig_names(sig)],
                 'varargs': list(va) if sig['varargs'] is not None else None,
                 'varkw': [list(kv) for kv in extra] if sig['varkw'] is not None else None}
      poisoned = any(v == POISON for v in full.values())
      if poisoned:
        if o['res'] != 'ValueError':
          return {'signature': 'history:step-accepts-failing-init',
                  'what': 'step %d %s: Original(*effective) raises ValueError, rebind gives %s / state %s' % (i, st['upd'], o['res'], o['rec'])}
      else:
        if o['res'] != 'ok':
          return {'signature': 'history:step-raises:%s' % o['res'],
                  'what': 'step %d %s: rebind raises %s, Original(*effective) constructs %s' % (i, st['upd'], o['res'], exp_rec)}
        if o['rec'] != exp_rec:
          prev_failed = i > 0 and m['steps'][i - 1]['res'] != 'ok'
          return {'signature': 'history:stale-state%s' % ('-after-failed-init' if prev_failed else ''),
                  'what': 'step %d %s: sym_init_args report %s but the wrapped instance holds %s; Original(*effective) '
                          'holds %s' % (i, st['upd'], o['args'], o['rec'], exp_rec)}
    if 'final' in obs:
      for k in ('clone', 'json'):
        if obs[k] != {'ok': obs['final']}:
          return {'signature': 'roundtrip:history-%s' % k,
                  'what': '%s of the wrapper after the history holds %s, the wrapper %s' % (k, obs[k], obs['final'])}
    return None

  def expected_report(self, sig, n1):
    named, va, extra = n1
    d = dict((k, v) for k, v in named)
    exp = []
    for n, dflt in sig['pos']:
      exp.append([n, d.get(n, dflt if dflt is not None else 'MISSING')])
    if sig['varargs'] is not None:
      exp.append([sig['varargs'], list(va)])
    for n, dflt in sig['kwonly']:
      exp.append([n, d.get(n, dflt if dflt is not None else 'MISSING')])
    return exp + [list(kv) for kv in extra]

  def _reported(self, sig, n1, reported, stage, full):
    """sym_init_args denote the supplied arguments: supplied value, else default, else MISSING."""
    if n1 is None or reported is None:
      return None
    named, va, extra = n1
    d = dict((k, v) for k, v in named)
    exp = []
    for n, dflt in sig['pos']:
      exp.append([n, d.get(n, dflt if dflt is not None else 'MISSING')])
    if sig['varargs'] is not None:
      exp.append([sig['varargs'], list(va)])
    for n, dflt in sig['kwonly']:
      exp.append([n, d.get(n, dflt if dflt is not None else 'MISSING')])
    exp += [list(kv) for kv in extra]
    if exp != reported:
      return {'signature': 'reported-args:%s' % stage,
              'what': 'sym_init_args = %s, supplied arguments denote %s' % (reported, exp)}
    return None

  def nontrivial(self, case, out):
    sig = case['sig']
    nparams = len(sig['pos']) + len(sig['kwonly']) + (sig['varargs'] is not None) + (sig['varkw'] is not None)
    calls = [case['c1']] + ([case['c2']] if case['kind'] == 'functor' else [])
    return nparams > 0 and any(c['args'] or c['kwargs'] for c in calls)

  def describe(self, case, out):
    m = out['model']
    sig = case['sig']
    h = ['kind:%s' % case['kind'], 'mode:%s' % case.get('mode', '?'),
         'npos:%d' % len(sig['pos']), 'nkwonly:%d' % len(sig['kwonly']),
         'varargs:%s' % (sig['varargs'] is not None), 'varkw:%s' % (sig['varkw'] is not None),
         'pos-defaults:%d' % sum(1 for _, d in sig['pos'] if d is not None),
         'posonly:%d' % sig.get('posonly', 0)]
    if self.passes_posonly_by_keyword(case):
      h.append('posonly-passed-by-keyword')
    if case.get('ann'):
      h.append('annotated%s' % ('+auto_typing' if case.get('auto_typing') else ''))
    if not case.get('tc_call', True):
      h.append('call-under-type-check-off')
    if 'py_c1' in m:
      h.append('py_c1:%s' % (m['py_c1'].get('kind') or 'ok'))
    h.append('via:%s' % case.get('via'))
    vals = [v for c in [case['c1'], case.get('c2') or {'args': [], 'kwargs': []}]
            for v in list(c['args']) + [x for _, x in c['kwargs']]]
    for code, label in ((0, '0'), (-1, 'None'), (-2, "''"), (-3, 'False'), (-4, '[]')):
      if code in vals:
        h.append('value:%s' % label)
    if case.get('optional'):
      h.append('Optional-annotation')
    if case.get('clone_upd'):
      h.append('clone-rebound-before-call')
    for op in case.get('late', []):
      h.append('late-op:%s%s' % (op['op'], ':' + op['via'] if 'via' in op else ''))
      if op['op'] == 'rebind' and any(k not in sig_names(sig) for k, _ in op['upd']):
        h.append('late-op:wildcard-keyword')
    if case['kind'] == 'hier':
      h.append('hier:%s' % case['order'])
      h.append('hier:child:%s' % (m['direct'].get('err') or 'ok'))
      same = sorted(n for n, _ in case['sig']['pos']) == sorted(n for n, _ in case['sig_p']['pos'])
      h.append('hier:positional-names-%s' % ('permuted' if same and case['sig']['pos'] != case['sig_p']['pos'] else 'other'))
      return h
    if case['kind'] == 'nest':
      h.append('nest:other-bound-at-%s' % ('late' if case.get('late') else ('call' if any(k == 'other' for k, _ in case['c2']['kwargs']) else 'construct')))
      h.append('nest:thread=%s' % case.get('thread'))
      if 'call' in m:
        h.append('nest:call:%s' % (m['call'].get('err') or 'ok'))
        if 'ok' in m['call']:
          h.append('nest:inner-called:%s' % (m['call']['ok']['called'].get('err') or 'ok'))
      return h
    if case['kind'] == 'hist':
      h.append('hist-init:%s' % m['init'])
      h.append('hist-steps:%d' % len(m['steps']))
      for i, st in enumerate(m['steps']):
        h.append('hist-step:%s' % st['res'])
        if i > 0 and m['steps'][i - 1]['res'] != 'ok' and st['res'] == 'ok':
          h.append('hist:recovery-after-failed-init')
      return h
    if case['kind'] == 'cls':
      h.append('direct:%s' % (m['direct'].get('err') or 'ok'))
    else:
      h.append('py_c2:%s' % (m['py_c2'].get('kind') or 'ok'))
      h.append('init:%s' % m['init'])
      if m['init'] == 'ok':
        h.append('call:%s' % (m['call'].get('err') or 'ok'))
        if m['effective'] is not None:
          h.append('py_eff:%s' % (m['py_eff'].get('kind') or 'ok'))
          if m['conflict']:
            h.append('conflict%s' % ('+override' if m['override'] else ''))
          if m['va_conflict']:
            h.append('va-conflict')
        else:
          h.append('effective:undefined')
      c1, c2 = case['c1'], case['c2']
      if c1['ignore'] or c2['ignore']:
        h.append('ignore_extra_args')
      h.append('supplied:%d' % (len(c1['args']) + len(c1['kwargs']) + len(c2['args']) + len(c2['kwargs'])))
      if not (c1['args'] or c1['kwargs'] or c2['args'] or c2['kwargs']):
        h.append('trivial:no-arguments')
    if self.binds_varargs_by_name(case):
      h.append('precondition:varargs-bound-by-name-at-construction')
    if self.calls_with_varargs_name(case):
      h.append('call-keyword-named-like-varargs:%s' % ('with-varkw' if sig['varkw'] is not None else 'no-varkw'))
    if case.get('via') == 'subclass' and case['kind'] == 'functor' and m.get('call', {}).get('err') == 'ValueError':
      h.append('subclass:_call-raised')
    return h

  def shrink_candidates(self, case):
    import copy
    if case['kind'] == 'nest':
      if case.get('thread'):
        cand = copy.deepcopy(case)
        cand['thread'] = False
        yield cand
      for cn in ('c1', 'c2', 'in_c1', 'in_c2'):
        for i, (k, v) in enumerate(case[cn]['kwargs']):
          if v != INNER:
            cand = copy.deepcopy(case)
            cand[cn]['kwargs'].pop(i)
            yield cand
        if case[cn]['args'] and case[cn]['args'][-1] != INNER:
          cand = copy.deepcopy(case)
          cand[cn]['args'].pop()
          yield cand
      return
    calls = ['c1'] + (['c2'] if case['kind'] == 'functor' else [])
    for cn in calls:
      c = case[cn]
      for i in range(len(c['kwargs'])):
        cand = copy.deepcopy(case)
        cand[cn]['kwargs'].pop(i)
        yield cand
      if c['args']:
        cand = copy.deepcopy(case)
        cand[cn]['args'].pop()
        yield cand
    sig = case['sig']
    used = {k for cn in calls for k, _ in case[cn]['kwargs']}
    used |= {k for st in case.get('steps', []) for k, _ in st['upd']}
    used |= {k for k, _ in case.get('clone_upd', [])}
    used |= {k for k, _ in case.get('after_upd', [])}
    if case.get('after_upd'):
      cand = copy.deepcopy(case)
      del cand['after_upd']
      yield cand
    used |= {k for op in case.get('late', []) for k, _ in op.get('upd', [])}
    used |= {op['name'] for op in case.get('late', []) if 'name' in op}
    for i in range(len(case.get('late', []))):
      cand = copy.deepcopy(case)
      cand['late'].pop(i)
      yield cand
    used |= set(case.get('optional', []))
    for i in range(len(case.get('steps', []))):
      cand = copy.deepcopy(case)
      cand['steps'].pop(i)
      yield cand
      if len(case['steps'][i]['upd']) > 1:
        for j in range(len(case['steps'][i]['upd'])):
          cand = copy.deepcopy(case)
          cand['steps'][i]['upd'].pop(j)
          yield cand
    if case.get('clone_upd'):
      cand = copy.deepcopy(case)
      del cand['clone_upd']
      yield cand
    if sig['kwonly'] and sig['kwonly'][-1][0] not in used:
      cand = copy.deepcopy(case)
      cand['sig']['kwonly'].pop()
      yield cand
    nargs = max(len(case[cn]['args']) for cn in calls)
    if sig['pos'] and len(sig['pos']) > nargs and sig['pos'][-1][0] not in used:
      cand = copy.deepcopy(case)
      cand['sig']['pos'].pop()
      yield cand
    if sig['varkw'] is not None:
      cand = copy.deepcopy(case)
      cand['sig']['varkw'] = None
      yield cand
    if sig['varargs'] is not None and nargs <= len(sig['pos']):
      cand = copy.deepcopy(case)
      cand['sig']['varargs'] = None
      yield cand
    if case.get('ann'):
      cand = copy.deepcopy(case)
      cand['ann'] = cand['auto_typing'] = False
      yield cand


PROP = C18()
