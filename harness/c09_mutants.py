"""Self-test of the C09 check: mutants of /repo HEAD in a scratch worktree (usage: /venv/bin/python harness/c09_mutants.py [N1 N3 ...])."""
import subprocess, os, sys, json
VERIF = os.path.dirname(os.path.dirname(os.path.abspath(__file__)))
M = os.environ.get('C09_MUT', '/work/repo-p0809-m')
BASE_PATCHES = []          # C09-F55 / C09-F110 are part of /repo since 6daab50 / b2cef49
B = 'pyglove/core/symbolic/base.py'; L = 'pyglove/core/symbolic/list.py'; D = 'pyglove/core/symbolic/dict.py'
MUTS = {
 'N1-sort-ascending': (B, """                                  key=lambda x: x[0].sym_path,
                                  reverse=True):""", """                                  key=lambda x: x[0].sym_path,
                                  reverse=False):"""),
 'N2-absolute-path': (B, "          relative_path = update.path - target.sym_path", "          relative_path = update.path"),
 'N3-no-missing-reset': (B, """      target._set_raw_attr('_sym_missing_values', None)     # pylint: disable=protected-access
      target._set_raw_attr('_sym_nondefault_values', None)  # pylint: disable=protected-access
      target._on_change(updates)""", """      target._set_raw_attr('_sym_nondefault_values', None)  # pylint: disable=protected-access
      target._on_change(updates)"""),
 'N4-stop-after-first-target': (B, """      if target is self and not notify_parents:
        break""", """      break"""),
 'N5-no-reset-on-skip': (B, """    else:
      self._reset_content_caches(updates)
    return self""", """    return self"""),
 'N6-dict-setitem-ignores-flag': (D, """    update = self._set_item_without_permission_check(key, value)
    if flags.is_change_notification_enabled() and update:
      self._notify_field_updates([update])

  def __setattr__""", """    update = self._set_item_without_permission_check(key, value)
    if update:
      self._notify_field_updates([update])

  def __setattr__"""),
 'N8-insert-reports-old-occupant': (L, """    old_value = pg_typing.MISSING_VALUE
    # Replace an existing value.
    if index < len(self) and not should_insert:""", """    old_value = pg_typing.MISSING_VALUE
    if index < len(self) and should_insert:
      old_value = list.__getitem__(self, index)
    # Replace an existing value.
    if index < len(self) and not should_insert:"""),
 'N9-del-slice-ascending-positions-shift': (L, """      indices = sorted(range(*self._parse_slice(index)), reverse=True)""", """      indices = sorted(range(*self._parse_slice(index)), reverse=True)
      indices = [i - k for k, i in enumerate(sorted(indices))]"""),
 'N10-clear-reports-nothing-to-ancestors': (L, """              old_value, pg_typing.MISSING_VALUE))
    if flags.is_change_notification_enabled() and updates:
      self._notify_field_updates(updates)

  def sort(""", """              old_value, pg_typing.MISSING_VALUE))
    if flags.is_change_notification_enabled() and updates:
      self._notify_field_updates(updates, notify_parents=False)

  def sort("""),
 'N11-reverse-reports-every-position': (L, """      if new_value is not old_value:
        updates.append(""", """      if True:
        updates.append("""),
 'N12-popitem-reports-wrong-old': (D, """            utils.KeyPath(key, self.sym_path), self._update_target, None,
            value, pg_typing.MISSING_VALUE)""", """            utils.KeyPath(key, self.sym_path), self._update_target, None,
            pg_typing.MISSING_VALUE, pg_typing.MISSING_VALUE)"""),
 'N13-extended-slice-negative-step-not-reversed': (L, """        replacements.reverse()
        start, step = start + (slice_size - 1) * step, -step""", """        start, step = start + (slice_size - 1) * step, -step"""),
 'N15-invalidation-stops-at-unmemoised-ancestor (seeded C09-4)': (B, """    target = self
    while target is not None:
      target._set_raw_attr('_sym_puresymbolic', None)       # pylint: disable=protected-access""", """    target = self
    while target is not None:
      if (target is not self
          and target._sym_puresymbolic is None
          and target._sym_missing_values is None
          and target._sym_nondefault_values is None):
        break
      target._set_raw_attr('_sym_puresymbolic', None)       # pylint: disable=protected-access"""),
 'N16-subscription-memoised-on-the-class (seeded C09-5)': ('pyglove/core/symbolic/object.py', """    return self._on_change.__code__ is not Object._on_change.__code__  # pytype: disable=attribute-error""", """    cls = self.__class__
    subscribes = getattr(cls, '_sym_subscribes_field_updates', None)
    if subscribes is None:
      subscribes = (
          cls._on_change.__code__ is not Object._on_change.__code__)
      setattr(cls, '_sym_subscribes_field_updates', subscribes)
    return subscribes"""),
 'N17-on-bound-only-for-direct-fields': ('pyglove/core/symbolic/object.py', """    del field_updates
    return self._on_bound()""", """    if all(len(k) == 1 for k in field_updates):
      return self._on_bound()"""),
 'N18-reverse-notifies-per-position': ('pyglove/core/symbolic/list.py', """        updates.append(
            base.FieldUpdate(
                self.sym_path + i, self,
                self._value_spec.element if self._value_spec else None,
                old_value, new_value))
    if flags.is_change_notification_enabled() and updates:
      self._notify_field_updates(updates)""", """        updates.append(
            base.FieldUpdate(
                self.sym_path + i, self,
                self._value_spec.element if self._value_spec else None,
                old_value, new_value))
    if flags.is_change_notification_enabled():
      for u in updates:
        self._notify_field_updates([u])"""),
 'N19-silent-rebind-compacts-lists-through-on_change (seeded C09-8)': (B, """    else:
      self._reset_content_caches(updates)
    return self""", """    else:
      self._reset_content_caches(updates)
      done = set()
      for u in updates:
        if (isinstance(u.target, Symbolic.ListType) and pg_typing.MISSING_VALUE == u.new_value
            and id(u.target) not in done):
          done.add(id(u.target))
          u.target._on_change({})
    return self"""),
 'N20-no-reentry-into-a-running-handler (seeded C09-9)': (B, """      target._on_change(updates)   # pylint: disable=protected-access
""", """      if not getattr(target, '_sym_handling_change', False):
        target._set_raw_attr('_sym_handling_change', True)
        try:
          target._on_change(updates)   # pylint: disable=protected-access
        finally:
          target._set_raw_attr('_sym_handling_change', False)
"""),
 'N21-nested-events-queued-after-the-outer-dispatch': (B, """    for target, updates in sorted(per_target_updates.values(),
                                  key=lambda x: x[0].sym_path,
                                  reverse=True):""", """    if getattr(Symbolic, '_c09_dispatching', False):
      Symbolic._c09_queue.append((self, field_updates, notify_parents))
      return
    Symbolic._c09_dispatching = True
    Symbolic._c09_queue = []
    try:
      self._c09_dispatch(per_target_updates, notify_parents)
    finally:
      Symbolic._c09_dispatching = False
    for node, ups, npar in Symbolic._c09_queue:
      node._notify_field_updates(ups, npar)

  def _c09_dispatch(self, per_target_updates, notify_parents):
    for target, updates in sorted(per_target_updates.values(),
                                  key=lambda x: x[0].sym_path,
                                  reverse=True):"""),
 'N14-pop-notifies-twice': (L, """    with flags.allow_writable_accessors(True):
      del self[index]
    return value""", """    with flags.allow_writable_accessors(True):
      del self[index]
    if flags.is_change_notification_enabled():
      self._notify_field_updates([base.FieldUpdate(self.sym_path + index, self, None, value, pg_typing.MISSING_VALUE)])
    return value"""),
 'N22-notify-switch-in-a-module-global (seeded C09-12)': ('PATCH', 'seeded/C09-12/patch.diff', ''),
 'N23-rollback-of-a-refused-write-only-for-TypeError-ValueError (seeded C09-11)': (D, """      except Exception:
        # The write is rejected: the old value stays attached where it was.""", """      except (TypeError, ValueError):
        # The write is rejected: the old value stays attached where it was."""),
 'N24-list-clear-snapshots-evaluated-items (seeded C09-10)': (L, """    old_values = list(self.sym_values())
    # Detach the removed values from the object tree.""", """    old_values = list(self)
    # Detach the removed values from the object tree."""),
 'N25-rollback-of-a-refused-write-not-for-ValueError': (D, """      except Exception:
        # The write is rejected: the old value stays attached where it was.""", """      except (TypeError, KeyError):
        # The write is rejected: the old value stays attached where it was."""),
 'N26-rollback-of-a-refused-write-not-for-TypeError': (D, """      except Exception:
        # The write is rejected: the old value stays attached where it was.""", """      except (ValueError, KeyError):
        # The write is rejected: the old value stays attached where it was."""),
 'N27-dict-write-takes-the-evaluated-old-value': (D, """    old_value = self.get(key, pg_typing.MISSING_VALUE)
    if old_value is value:
      return None
""", """    old_value = self[key] if key in self else pg_typing.MISSING_VALUE
    if old_value is value:
      return None
"""),
 'N28-list-del-takes-the-evaluated-old-value': (L, """      old_value = self.sym_getattr(i)
      super().__delitem__(i)""", """      old_value = self[i]
      super().__delitem__(i)"""),
 'N29-dict-clear-snapshots-evaluated-items': (D, """    items = dict(self.sym_items())
    self._value_spec = None""", """    items = {k: self[k] for k in self.sym_keys()}
    self._value_spec = None"""),
 'N30-list-write-reports-the-value-handed-in-not-the-stored-one (seeded C09-15)': (L, """        self._value_spec.element if self._value_spec else None,
        old_value, new_value)""", """        self._value_spec.element if self._value_spec else None,
        old_value, value)"""),
 'N31-memos-reset-before-any-handler-runs (seeded C09-14)': ('PATCH', 'seeded/C09-14/patch.diff', ''),
 'N32-dict-write-reports-the-value-handed-in-not-the-stored-one': (D, """        utils.KeyPath(key, self.sym_path), self._update_target, field,
        old_value, new_value)""", """        utils.KeyPath(key, self.sym_path), self._update_target, field,
        old_value, value)"""),
}
only = sys.argv[1:]
for name, (path, old, new) in MUTS.items():
  if only and name.split('-')[0] not in only: continue
  subprocess.run(['git','-C','/repo','worktree','remove','--force',M],capture_output=True)
  subprocess.run(['git','-C','/repo','worktree','add',M,'HEAD'],capture_output=True,check=True)
  for bp in BASE_PATCHES:
    subprocess.run(['git','-C',M,'apply',bp],check=True)
  if path == 'PATCH':
    subprocess.run(['git','-C',M,'apply',os.path.join(VERIF, old)],check=True)
  else:
    fp=os.path.join(M,path); s=open(fp).read()
    assert old in s, name
    open(fp,'w').write(s.replace(old,new,1))
  imp = subprocess.run(['/venv/bin/python','-c','import pyglove'],cwd=M,capture_output=True)
  env=dict(os.environ, VERIF_REPO=M)
  for f in os.listdir(VERIF+'/replays'):
    if f.startswith('C09'): os.remove(VERIF+'/replays/'+f)
  p=subprocess.run(['./check','C09'],cwd=VERIF,env=env,capture_output=True,text=True)
  lines=[l for l in p.stdout.split('\n') if l.startswith(('VIOLATION','BROKEN','FAIL','OK'))]
  reps=sorted(f for f in os.listdir(VERIF+'/replays') if f.startswith('C09'))
  rr=[]
  for r in reps[:4]:
    j=json.load(open(VERIF+'/replays/'+r))
    a=subprocess.run(['./check','C09','--replay','replays/'+r],cwd=VERIF,env=env,capture_output=True,text=True).returncode
    rr.append((r,j.get('kind'),j.get('signature'),'mutant-exit',a))
  # the same replays on the clean patched base
  subprocess.run(['git','-C',M,'checkout','.'],capture_output=True)
  for bp in BASE_PATCHES:
    subprocess.run(['git','-C',M,'apply',bp],check=True)
  rr2=[]
  for r in reps[:4]:
    b=subprocess.run(['./check','C09','--replay','replays/'+r],cwd=VERIF,env=env,capture_output=True,text=True).returncode
    rr2.append(b)
  print('==',name,'import ok' if imp.returncode==0 else 'IMPORT FAILS','exit',p.returncode)
  for l in lines[:5]: print('   ',l[:200])
  for x, b in zip(rr, rr2): print('   ',x,'clean-exit',b)
  sys.stdout.flush()
subprocess.run(['git','-C','/repo','worktree','remove','--force',M],capture_output=True)
for f in os.listdir(VERIF+'/replays'):
  if f.startswith('C09'): os.remove(VERIF+'/replays/'+f)
