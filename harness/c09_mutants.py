import subprocess, os, sys, json, shutil
BASE=os.environ.get('C08_BASE', '/work/repo-c08')
M='/work/repo-c08m'
MUTS = {
 'N1-sort-ascending': ('pyglove/core/symbolic/base.py', """                                  key=lambda x: x[0].sym_path,
                                  reverse=True):""", """                                  key=lambda x: x[0].sym_path,
                                  reverse=False):"""),
 'N2-absolute-path': ('pyglove/core/symbolic/base.py', "          relative_path = update.path - target.sym_path", "          relative_path = update.path"),
 'N3-no-missing-reset': ('pyglove/core/symbolic/base.py', """      target._set_raw_attr('_sym_missing_values', None)     # pylint: disable=protected-access
      target._set_raw_attr('_sym_nondefault_values', None)  # pylint: disable=protected-access
      target._on_change(updates)""", """      target._set_raw_attr('_sym_nondefault_values', None)  # pylint: disable=protected-access
      target._on_change(updates)"""),
 'N4-stop-after-first-target': ('pyglove/core/symbolic/base.py', """      if target is self and not notify_parents:
        break""", """      break"""),
 'N5-no-reset-on-skip': ('pyglove/core/symbolic/base.py', """    else:
      self._reset_content_caches(updates)
    return self""", """    return self"""),
 'N6-dict-setitem-ignores-flag': ('pyglove/core/symbolic/dict.py', """    update = self._set_item_without_permission_check(key, value)
    if flags.is_change_notification_enabled() and update:
      self._notify_field_updates([update])

  def __setattr__""", """    update = self._set_item_without_permission_check(key, value)
    if update:
      self._notify_field_updates([update])

  def __setattr__"""),
 'N7-no-nondefault-reset': ('pyglove/core/symbolic/base.py', """      target._set_raw_attr('_sym_nondefault_values', None)  # pylint: disable=protected-access
      target._on_change(updates)""", """      target._on_change(updates)"""),
}
only = sys.argv[1:]
res = {}
for name, (path, old, new) in MUTS.items():
  if only and name.split('-')[0] not in only: continue
  subprocess.run(['git','-C','/repo','worktree','remove','--force',M],capture_output=True)
  subprocess.run(['git','-C','/repo','worktree','add',M,'HEAD'],capture_output=True,check=True)
  subprocess.run('git -C %s diff | git -C %s apply' % (BASE, M), shell=True, check=True)
  fp=os.path.join(M,path); s=open(fp).read()
  assert old in s, name
  open(fp,'w').write(s.replace(old,new,1))
  imp = subprocess.run(['/venv/bin/python','-c','import pyglove'],cwd=M,capture_output=True)
  env=dict(os.environ, VERIF_REPO=M)
  for f in os.listdir('/work/verif-c08/replays'):
    if f.startswith('C09'): os.remove('/work/verif-c08/replays/'+f)
  p=subprocess.run(['./check','C09'],cwd='/work/verif-c08',env=env,capture_output=True,text=True)
  lines=[l for l in p.stdout.split('\n') if l.startswith(('VIOLATION','BROKEN','FAIL','OK'))]
  reps=sorted(f for f in os.listdir('/work/verif-c08/replays') if f.startswith('C09'))
  rr=[]
  for r in reps:
    j=json.load(open('/work/verif-c08/replays/'+r))
    a=subprocess.run(['./check','C09','--replay','replays/'+r],cwd='/work/verif-c08',env=env,capture_output=True,text=True).returncode
    b=subprocess.run(['./check','C09','--replay','replays/'+r],cwd='/work/verif-c08',env=dict(os.environ,VERIF_REPO=BASE),capture_output=True,text=True).returncode
    rr.append((r,j.get('kind'),j.get('signature'),'mutant-exit',a,'clean-exit',b))
  print('==',name,'import ok' if imp.returncode==0 else 'IMPORT FAILS','exit',p.returncode)
  for l in lines[:8]: print('   ',l[:220])
  for x in rr: print('   ',x)
  sys.stdout.flush()
subprocess.run(['git','-C','/repo','worktree','remove','--force',M],capture_output=True)
subprocess.run(['/venv/bin/python','-m','translate.t_c09'],cwd='/work/verif-c08',env=dict(os.environ,VERIF_REPO=BASE),capture_output=True)
