"""CLI of the verification machinery: ./check Cxx --tier quick|thorough | --replay f | --setup."""

import argparse
import importlib
import os
import sys

from harness.common import framework


def load_prop(pid):
  mod = importlib.import_module('harness.' + pid.lower())
  return mod.PROP


def setup():
  """MANIFEST.setup_cmd: build every Lean target registered in the lakefile (offline)."""
  exes = []
  with framework.BuildLock():
    # Translators first (the generated tables must exist before lake sees them).
    for pid in all_props():
      try:
        prop = load_prop(pid)
      except ModuleNotFoundError:
        continue
      for tr in prop.translators:
        try:
          tr()
        except Exception as e:   # reported by the checks themselves
          print('setup: translator %s: %s' % (tr.__module__, e))
    targets = ['PgAudit.Tool']
    for pid in all_props():
      try:
        prop = load_prop(pid)
      except ModuleNotFoundError:
        continue
      targets += prop.props_modules
      if prop.driver:
        exes.append(prop.driver)
    ok, errors, text = framework.lake_build(targets + exes)
    if not ok:
      # Setup itself never gives a verdict; the checks will report what is broken.
      print(text[-3000:])
      print('setup: lake build reported errors (left to the individual checks)')
  return 0


def all_props():
  import json
  with open(os.path.join(framework.VERIF, 'MANIFEST.json')) as f:
    m = json.load(f)
  return [c['property_id'] for c in m['checks']]


def main(argv):
  ap = argparse.ArgumentParser()
  ap.add_argument('prop', nargs='?')
  ap.add_argument('--tier', default=os.environ.get('VERIF_TIER', 'quick'), choices=['quick', 'thorough'])
  ap.add_argument('--replay')
  ap.add_argument('--setup', action='store_true')
  args = ap.parse_args(argv)
  try:
    if args.setup:
      return setup()
    if not args.prop:
      ap.error('property id required')
    prop = load_prop(args.prop)
    if args.replay:
      return framework.run_replay(prop, args.replay)
    seed = int(os.environ.get('VERIF_SEED', '0'))
    tier = os.environ.get('VERIF_TIER') or args.tier
    return framework.run_check(prop, tier, seed)
  except framework.InfraError as e:
    print('INFRASTRUCTURE FAILURE: %s' % e, file=sys.stderr)
    return 2
  except Exception:   # pylint: disable=broad-except  (a bug of the machinery is never a verdict)
    import traceback
    traceback.print_exc()
    print('INFRASTRUCTURE FAILURE: unexpected exception in the check machinery', file=sys.stderr)
    return 2


if __name__ == '__main__':
  sys.exit(main(sys.argv[1:]))
