"""C01 — symbolic tree integrity: generator, implementation runner, oracle.

Case shape: {"ops": [raw op, ...]} (see harness/symcommon.py). The implementation runner executes
the history on the real pyglove and, after every step, dumps every node reachable from every
handle (renumbered id, believed parent, believed path, flags, keys) and evaluates the property
on the real objects: `child.sym_parent is container`, `child.sym_path == container path + key`,
`root.sym_get(path) is child`, no object reachable twice.
"""

import json

from harness.common.framework import Prop
from harness import symcommon as sc
from harness import c01lib

F = sc.DEFAULT_FLAGS


# ------------------------------------------------------------------------------------------------
# Generator
# ------------------------------------------------------------------------------------------------

class Gen:
  p_ref = 0.5      # share of pg.Ref / inferred values among the `k == 8` atoms
  static = False   # mutation-free stream (C07): nested sealed containers, Refs to nodes, inferred values

  def __init__(self, rng):
    self.r = rng

  def atom(self):
    r = self.r
    k = r.below(10)
    if k < 5:
      return r.below(4)
    if k < 7:
      return ['s', r.below(3)]
    if k == 7:
      return ['q'] if r.chance(0.7) else ['T', r.randint(1, 3)]
    if self.static and k >= 7 and r.chance(0.6):
      return r.weighted([(4, ['R', r.below(64)]), (2, ['R']), (3, ['I']), (2, ['q'])])
    if k == 8 and r.chance(self.p_ref):
      # a pg.Ref to a plain list. (References to existing nodes and inferred values make
      # pyglove evaluate through them whenever a plain container is converted — they are
      # generated only by the mutation-free stream of C07.)
      return ['R']
    return None

  def ref(self):
    return ['r', self.r.below(64)]

  def lit_key(self):
    r = self.r
    if r.chance(0.85):
      # a quarter of the string keys look like path expressions ('m.c', 'w[0]', 'a b', 'x]y.')
      return ['k', r.below(4) if r.chance(0.75) else r.randint(4, 7)]
    return ['i', r.randint(-1, 3)]

  def value(self, depth, refs=0.3, flagged=False):
    """A VE. `flagged`: containers may carry non-default flags and objects may appear (only in
    `new`, where construction happens before anything else)."""
    r = self.r
    k = r.below(10)
    if depth <= 0 or k < 3:
      if r.chance(refs):
        return self.ref()
      return self.atom()
    if r.chance(refs * 0.5):
      return self.ref()
    flags = list(F)
    if flagged and r.chance(0.15):
      # nested containers are never constructed sealed (the harness has to build flagged nested
      # containers before their holder, so sealing them would seal offered nodes early); the
      # top-level container of `new` may be sealed, which seals the whole value
      flags = [self.static and r.chance(0.5), r.chance(0.7), r.chance(0.3)]
    n = r.weighted([(2, 0), (4, 1), (4, 2), (2, 3), (1, 4)])
    if flagged and k == 9:
      return ['o', r.below(2), [flags[0] and self.static, True, flags[2]],
              [[r.below(3), self.value(depth - 1, refs, flagged)] for _ in range(min(n, 3))]]
    if flagged and k == 8 and r.chance(0.5):
      return ['tl', [['o', 0, list(F), [[r.below(2), self.value(depth - 1, 0.0)]]] for _ in range(r.randint(0, 3))]]
    if k % 2 == 0:
      keys = []
      items = []
      for _ in range(n):
        key = self.lit_key()
        if key in keys:
          continue
        keys.append(key)
        items.append([key, self.value(depth - 1, refs, flagged)])
      return ['d', flags, items]
    # (a parent-inferred value directly inside a list makes every evaluated iteration of that
    # list raise; inferred values are generated under dict keys and object fields only)
    items = [self.value(depth - 1, refs, flagged) for _ in range(n)]
    return ['l', flags, [None if v == ['I'] else v for v in items]]

  def container(self, depth, refs, flagged):
    for _ in range(20):
      v = self.value(depth, refs, flagged)
      if isinstance(v, list) and v and v[0] in ('d', 'l', 'o'):
        if flagged and self.r.chance(0.12):
          fl = v[2] if v[0] == 'o' else v[1]
          fl[0] = True
        return v
    return ['d', list(F), []]

  def top_value(self, refs=0.45):
    """value offered to a mutator: plain containers, atoms, refs, sometimes MISSING."""
    r = self.r
    if r.chance(0.04):
      return 'M'
    return self.value(r.randint(0, 2), refs)

  def idx(self):
    """boundary-biased index spec."""
    r = self.r
    k = r.below(10)
    if k < 3:
      return ['abs', r.randint(0, 3)]
    if k < 6:
      return ['len', r.randint(-2, 1)]
    if k < 9:
      return ['neg', r.randint(-1, 2)]
    return ['abs', r.randint(-6, 6)]

  def key(self):
    r = self.r
    if r.chance(0.55):
      return ['e', r.below(8)]
    return self.lit_key()

  def path(self):
    r = self.r
    n = r.weighted([(5, 1), (4, 2), (2, 3)])
    out = []
    for i in range(n):
      k = r.below(10)
      if k < 6:
        out.append(['e', r.below(8)])
      elif k < 8:
        out.append(self.lit_key())
      else:
        out.append(self.idx())
    return out

  def op(self, notify_off=0.25):
    r = self.r
    name = r.weighted([
        (10, 'dset'), (4, 'ddel'), (3, 'dpop'), (2, 'dpopitem'), (2, 'dclear'), (3, 'dsetdefault'),
        (4, 'dupdate'), (2, 'dior'),
        (8, 'lset'), (4, 'ldel'), (6, 'lappend'), (7, 'linsert'), (4, 'lextend'), (2, 'liadd'),
        (4, 'lpop'), (2, 'lremove'), (2, 'lclear'), (4, 'lsort'), (4, 'lreverse'), (2, 'limul'),
        (6, 'lslice'), (5, 'ldelslice'), (2, 'seal'),
        (3, 'tlset'), (2, 'tlappend'), (2, 'tlins'), (1, 'tldel'), (1, 'tlpop'),
        (4, 'oset'), (9, 'rebind'), (4, 'clone'), (3, 'new'), (3, 'newjson')])
    j = {'op': name, 't': r.below(64), 'n': not r.chance(notify_off)}
    if name == 'new':
      j['v'] = self.container(r.randint(1, 3), 0.3, True)
    elif name == 'newjson':
      # deserialization: nested values (objects with symbolic children included) through JSON
      j['v'] = self.container(r.randint(1, 4), 0.0, True)
      j['str'] = r.chance(0.5)
    elif name == 'clone':
      j['deep'] = r.chance(0.5)
    elif name in ('dset', 'dsetdefault'):
      j['key'] = self.key()
      j['v'] = self.top_value()
    elif name in ('ddel', 'dpop'):
      j['key'] = self.key() if r.chance(0.85) else self.lit_key()
    elif name == 'lset':
      j['key'] = self.idx()
      j['v'] = self.top_value()
    elif name in ('tlset', 'tlins', 'tlappend'):
      # typed list: an instance of C0 (new or existing) is accepted, anything else is rejected
      j['key'] = self.idx()
      k = r.below(10)
      j['v'] = (['o', 0, list(F), [[r.below(2), self.value(1, 0.0)]]] if k < 4 else self.ref() if k < 7
                else r.below(4))
    elif name in ('tldel', 'tlpop'):
      j['key'] = self.idx()
    elif name in ('ldel', 'lpop'):
      j['key'] = self.idx()
    elif name == 'lappend':
      j['v'] = self.top_value()
    elif name == 'linsert':
      j['key'] = self.idx()
      j['v'] = self.top_value()
    elif name in ('lextend', 'liadd'):
      j['vs'] = [self.top_value() for _ in range(r.below(4))]
    elif name == 'lremove':
      j['a'] = r.below(4)
    elif name == 'lsort':
      j['ranks'] = [r.below(4) for _ in range(r.randint(1, 5))]
      j['rev'] = r.chance(0.4)
    elif name == 'limul':
      j['times'] = r.weighted([(1, -1), (2, 0), (3, 1), (5, 2), (2, 3)])
    elif name in ('lslice', 'ldelslice'):
      j['a'] = self.idx() if r.chance(0.8) else None
      j['b'] = self.idx() if r.chance(0.8) else None
      j['step'] = r.weighted([(4, None), (4, 1), (4, 2), (2, 3), (4, -1), (3, -2), (1, 0)])
      if name == 'lslice':
        j['vs'] = [self.top_value() for _ in range(r.weighted([(2, 0), (4, 1), (4, 2), (3, 3), (1, 4)]))]
    elif name == 'seal':
      j['flag'] = r.chance(0.6)
    elif name == 'oset':
      j['key'] = r.below(3)
      j['v'] = self.top_value()
    elif name in ('dupdate', 'dior'):
      j['kvs'] = [[self.key(), self.top_value()] for _ in range(r.below(4))]
    elif name == 'rebind':
      n = r.weighted([(1, 0), (6, 1), (4, 2), (3, 3)])
      j['pairs'] = [[self.path(), r.chance(0.3), self.top_value()] for _ in range(n)]
      j['skip'] = r.weighted([(6, None), (2, True), (2, False)])
    return j

  def history(self, max_ops=40):
    r = self.r
    ops = []
    for _ in range(r.randint(1, 3)):
      if r.chance(0.25):
        ops.append({'op': 'newjson', 'v': self.container(r.randint(2, 4), 0.0, True), 'str': r.chance(0.5)})
      else:
        ops.append({'op': 'new', 'v': self.container(r.randint(1, 4), 0.15, True)})
    n = r.weighted([(2, r.randint(1, 4)), (5, r.randint(5, 15)), (4, r.randint(16, max_ops))])
    off = r.weighted([(5, 0.0), (4, 0.25), (1, 0.9)])
    for _ in range(n):
      ops.append(self.op(off))
    return {'ops': ops}


def scatter_history(g):
  """one notified rebind that deletes 2-4 NON-ADJACENT items of a list (MISSING under scattered
  positions), mixed with replacements / insertions in the same batch; on the list itself or through
  an ancestor path. The live items in between must stay where they are (re-indexed), the deleted
  ones must be detached."""
  r = g.r
  n = r.randint(5, 8)
  items = []
  for i in range(n):
    k = r.below(4)
    items.append(['d', list(F), [[['k', 0], i]]] if k < 2 else (['l', list(F), [i]] if k == 2 else i))
  root_items = [[['k', 0], ['l', list(F), items]]]
  if r.chance(0.5):
    root_items.append([['k', 1], ['d', list(F), []]])
  ops = [{'op': 'new', 'v': ['d', list(F), root_items]}]
  for _ in range(r.below(3)):
    ops.append(g.op(0.1))
  for _ in range(r.randint(1, 2)):
    # positions with a gap of at least one live item between two deletions
    cnt = r.randint(2, 4)
    pos, p = [], r.below(2)
    while len(pos) < cnt and p < n:
      pos.append(p)
      p += r.randint(2, 3)
    if len(pos) < 2:
      pos = [0, 2]
    via_root = r.chance(0.6)
    mk = (lambda i: [['k', 0], ['abs', i]]) if via_root else (lambda i: [['abs', i]])
    pairs = [[mk(i), False, 'M'] for i in pos]
    free = [i for i in range(n) if i not in pos]
    if free and r.chance(0.5):
      pairs.append([mk(free[r.below(len(free))]), False, g.top_value(0.2)])
    if free and r.chance(0.3):
      pairs.append([mk(free[r.below(len(free))]), True, g.value(1, 0.0)])
    if r.chance(0.5):
      pairs.reverse()
    ops.append({'op': 'rebind', 't': 0 if via_root else 1, 'n': True, 'pairs': pairs,
                'skip': r.weighted([(6, None), (3, False)])})
    for _ in range(r.below(3)):
      ops.append(g.op(0.1))
  return {'ops': ops}


def exhaustive_small():
  """All histories of length 2 over a 2-level seed tree and a small argument pool."""
  seed = [{'op': 'new', 'v': ['d', list(F), [[['k', 0], ['l', list(F), [['d', list(F), []], 1, ['l', list(F), [2]]]]],
                                             [['k', 1], ['d', list(F), [[['k', 0], 3]]]]]]},
          {'op': 'new', 'v': ['l', list(F), [['d', list(F), []]]]}]
  pool = [1, ['r', 2], ['r', 6], ['d', list(F), [[['k', 2], ['r', 4]]]]]
  small = []
  for v in pool:
    small += [{'op': 'lset', 't': 0, 'key': ['abs', 0], 'v': v}, {'op': 'lset', 't': 0, 'key': ['neg', 2], 'v': v},
              {'op': 'linsert', 't': 0, 'key': ['abs', 1], 'v': v}, {'op': 'linsert', 't': 0, 'key': ['neg', 1], 'v': v},
              {'op': 'lappend', 't': 0, 'v': v}, {'op': 'dset', 't': 0, 'key': ['k', 0], 'v': v},
              {'op': 'dset', 't': 1, 'key': ['k', 2], 'v': v},
              {'op': 'lslice', 't': 0, 'a': ['abs', 0], 'b': ['abs', 2], 'step': 1, 'vs': [v]},
              {'op': 'rebind', 't': 0, 'pairs': [[[['k', 0], ['abs', 0]], True, v]], 'skip': None}]
  small += [{'op': 'ldelslice', 't': 0, 'a': ['abs', 0], 'b': None, 'step': 2},
            {'op': 'ldelslice', 't': 0, 'a': None, 'b': ['abs', 0], 'step': -1},
            {'op': 'ldelslice', 't': 0, 'a': ['abs', 0], 'b': ['abs', 2], 'step': None},
            {'op': 'lslice', 't': 0, 'a': None, 'b': None, 'step': -1, 'vs': [1, ['r', 6], ['d', list(F), []]]},
            {'op': 'lslice', 't': 0, 'a': ['abs', 0], 'b': None, 'step': 2, 'vs': [['r', 2], 5]},
            {'op': 'ldel', 't': 0, 'key': ['abs', 0]}, {'op': 'lpop', 't': 0, 'key': ['neg', 1]},
            {'op': 'lreverse', 't': 0}, {'op': 'lsort', 't': 0, 'ranks': [2, 1, 0], 'rev': False},
            {'op': 'lclear', 't': 0}, {'op': 'limul', 't': 0, 'times': 2}, {'op': 'dclear', 't': 0},
            {'op': 'dpopitem', 't': 0}, {'op': 'ddel', 't': 0, 'key': ['k', 0]},
            {'op': 'clone', 't': 1, 'deep': False}]
  for a in small:
    for b in small:
      for na in (True, False):
        yield {'ops': seed + [dict(a, n=na), dict(b, n=True)]}


# ------------------------------------------------------------------------------------------------

def signature(fail):
  op = fail['op']
  return '%s:%s%s%s' % (fail['kind'], op['op'], '' if op.get('n', True) else ':n0',
                        ':unsafe' if op.get('unsafe') else '')


class C01(Prop):
  id = 'C01'
  props_modules = ['PgProps.C01']
  driver = 'drv_c01'
  translators = []
  case_timeout_s = 20
  rule = ('histories: 1-3 constructions from nested values (Dict/List/2 Object classes, depth <= 4, '
          'width <= 4, flags, shared sub-objects) followed by 1-40 operations drawn from the whole '
          'mutator surface of pg.Dict / pg.List / pg.Object (item and attribute assignment and '
          'deletion, every list and dict mutator incl. the in-place operators, slice assignment and slice deletion '
          '(any start / stop / step incl. negative and zero steps, extended slices with and without matching sizes), seal / unseal, rebind '
          'with 0-3 paths incl. Insertion and MISSING, clone, construction), state-relative targets, '
          'boundary-biased indices (len+d, -len+d), existing nodes offered as values (relocate-or-copy), '
          'change notification off in 0/25/90 % of the calls of a history. Non-trivial: at least 3 '
          'operations took effect (outcome ok) and the forest has at least 3 nodes at the end; '
          'distinct: by the JSON text of the history. Plus 60 / 900 histories around one notified rebind that deletes 2-4 '
          'non-adjacent items of a list (mixed with a replacement / an insertion, on the list or through its holder). '
          'Plus an oracle-only family (300 / 4000 cases): pg.Dict bound to one of '
          '3 schemata and a pg.Object class whose fields have container defaults (nested Dict fields, List fields with list '
          'defaults, Any fields, a required field), with or without allow_partial, alone or inside a Dict / List holder, then '
          '1-8 of clear / del / pop / popitem / assignment or rebind of MISSING / assignment / rebind / update / setdefault on '
          'the container or a typed sub-container, notification on or off.')
  trusted_base = [
      'resolution glue of state-relative operation descriptions (harness/symcommon.py and '
      'lean/Driver/SymGlue.lean implement the same rules; a disagreement shows up as a dump mismatch)',
      'modelled, not verified: the forest semantics of PgModel/Sym*.lean (tied by correspondence '
      'on generated histories, dump after every step)',
      'oracle-only (no model, no correspondence): containers bound to a schema with container defaults '
      '(harness/c01lib.py): re-population of removed keys with fresh default nodes',
      'outside the model: value specs on Dict/List, pg.Ref, contextual/inferred values, user '
      '_on_change/_on_bound overrides (treated as observers), notify_parents=False, tuples',
  ]
  assumptions = ['sym_items() enumerates exactly the symbolic children of a node',
                 'histories never offer a parentless node that contains the written container (F30), '
                 'except in the time-boxed witness']

  def cfg(self):
    return sc.tree_cfg()

  def generate(self, rng, tier):
    g = Gen(rng)
    n = 350 if tier == 'quick' else 6000
    for _ in range(n):
      yield g.history()
    ex = list(exhaustive_small())
    # (the framework keeps every dump of every case in memory: ~1 MB per long history)
    ex = [ex[i] for i in range(0, len(ex), 37 if tier == 'quick' else 1)]
    yield from ex
    # batched rebinds that delete scattered list items
    for _ in range(60 if tier == 'quick' else 900):
      yield scatter_history(g)
    # oracle-only family: containers bound to a schema with container defaults (harness/c01lib.py)
    for _ in range(300 if tier == 'quick' else 4000):
      yield c01lib.gen_case(rng)

  def model_request(self, case):
    req = {'op': 'history', 'ops': case['ops']}
    req.update(self.cfg())
    return req

  def impl(self, case):
    if 'tlib' in case:
      return c01lib.run_case(case)
    return sc.run_history(case)

  def compare(self, case, impl_out, model_out):
    a = impl_out['model']
    b = model_out['steps']
    for i, rec in enumerate(a):
      if i >= len(b):
        return 'step %d: model stopped earlier (%s)' % (i, b[-1]['out'] if b else '-')
      if rec['dump'] is None:
        return None
      mo = {'out': b[i]['out'], 'dump': sc.canon(b[i]['dump'])}
      if mo['out'] == 'diverges':
        return None
      if b[i].get('keyed') is False:
        # hypothesis of C01_step_Full: the glue never builds a dict literal with a repeated key
        return 'step %d: the resolved operation is not well-keyed' % i
      if b[i].get('aliased'):
        # the model had to put one node object in two places: the real code must fail C01 here
        f = impl_out['fail']
        if f is not None and f['step'] == i:
          return None
        return 'step %d: model reports one node in two places, the oracle passed' % i
      if rec != mo:
        what = 'outcome' if rec['out'] != mo['out'] else 'dump'
        return 'step %d (%s) %s differs: impl=%s model=%s' % (
            i, json.dumps(case['ops'][i])[:200], what, json.dumps(rec)[:700], json.dumps(mo)[:700])
      if impl_out['fail'] is None and not b[i]['wf']:
        return 'step %d: model state is not well-formed although the oracle passed' % i
    return None

  def oracle(self, case, out):
    f = out.get('fail')
    if not f:
      return None
    return {'signature': signature(f), 'what': 'after step %d (%s): %s' % (
        f['step'], json.dumps(f['op'])[:300], f['what'])}

  def nontrivial(self, case, out):
    if not isinstance(out, dict) or 'model' not in out:
      return False
    if 'tlib' in case:
      return out.get('effective', 0) >= 1
    steps = out['model']
    effective = sum(1 for s in steps if s['out'] == 'ok')
    last = steps[-1]['dump'] if steps and steps[-1]['dump'] is not None else []
    return effective >= 3 and _count_nodes(last) >= 3

  def describe(self, case, out):
    h = []
    if not isinstance(out, dict) or 'model' not in out:
      return ['timeout-or-error']
    if 'tlib' in case:
      t = case['tlib']
      h = ['tlib:' + str(out.get('tlib')), 'tlib-holder:' + t['holder'], 'tlib-partial:%s' % t['partial']]
      for o in t['ops']:
        h.append('tlib-op:' + o['op'] + ('' if not o['w'] else ':sub'))
        if not o['n']:
          h.append('notify-off')
      if out.get('fail'):
        h.append('oracle-fail:' + signature(out['fail']))
      return h
    n = len(case['ops'])
    h.append('len:%s' % ('1-5' if n <= 5 else '6-15' if n <= 15 else '16-30' if n <= 30 else '31+'))
    for j, s in zip(case['ops'], out['model']):
      h.append('op:' + j['op'])
      h.append('out:' + s['out'])
      if not j.get('n', True):
        h.append('notify-off')
      if '"r"' in json.dumps(j):
        h.append('offers-existing-node')
    last = out['model'][-1]['dump'] if out['model'] and out['model'][-1]['dump'] is not None else []
    c = _count_nodes(last)
    h.append('nodes:%s' % ('0-2' if c <= 2 else '3-10' if c <= 10 else '11-30' if c <= 30 else '31+'))
    h.append('roots:%s' % ('1' if len(last) <= 1 else '2-4' if len(last) <= 4 else '5+'))
    if out.get('fail'):
      h.append('oracle-fail:' + signature(out['fail']))
    return h

  def shrink_candidates(self, case):
    if 'tlib' in case:
      t = case['tlib']
      for i in range(len(t['ops']) - 1, -1, -1):
        yield {'ops': [], 'tlib': dict(t, ops=t['ops'][:i] + t['ops'][i + 1:])}
      for k in list(t['init']):
        yield {'ops': [], 'tlib': dict(t, init={a: b for a, b in t['init'].items() if a != k})}
      if t['holder'] != 'none':
        yield {'ops': [], 'tlib': dict(t, holder='none')}
      return
    ops = case['ops']
    for i in range(len(ops) - 1, -1, -1):
      yield {'ops': ops[:i] + ops[i + 1:]}
    for i, j in enumerate(ops):
      for field in ('v',):
        if isinstance(j.get(field), list) and j[field] and j[field][0] in ('d', 'l') and j['op'] != 'new':
          yield {'ops': ops[:i] + [dict(j, **{field: 1})] + ops[i + 1:]}
      for field in ('vs', 'kvs', 'pairs'):
        if isinstance(j.get(field), list) and len(j[field]) > 1:
          yield {'ops': ops[:i] + [dict(j, **{field: j[field][:-1]})] + ops[i + 1:]}


def _count_nodes(dump):
  n = 0
  stack = list(dump)
  while stack:
    t = stack.pop()
    if isinstance(t, list) and len(t) == 6 and isinstance(t[5], list):
      n += 1
      stack += [c for _, c in t[5]]
  return n


PROP = C01()
