"""C03 — schema invariant of typed pg.List / pg.Dict / pg.Object: generator, implementation runner, oracle.

Case shapes (descriptions and values: harness/typing_vocab.py):
  {"kind": "list", "spec": <list spec desc>, "items": [v...], "ops": [<list op>...]}
      list ops: ["append", v] ["insert", i, v] ["setitem", i, v] ["setslice", a, b, c, [v...]] ["delitem", i]
                ["delslice", a, b, c] ["pop", i] ["remove", v] ["extend", [v...]] ["iadd", [v...]] ["imul", n]
                ["clear"] ["sort"] ["reverse"] ["rebind", [[k, is_insertion, v]...]]
  {"kind": "dict" | "object", "spec": <dict spec desc with fields>, "partial": bool, "items": [[k, v]...],
   "ops": [[<dict op>, scope]...]}        scope: null | bool = an enclosing `pg.allow_partial(scope)`
      dict ops: ["setitem", k, v] ["delitem", k] ["pop", k] ["setdefault", k, v] ["update", [[k, v]...]]
                ["ior", [[k, v]...]] ["rebind", [[k, v]...]] ["clear"] ["popitem"];  object: ["setattr", k, v], ["rebind", ...]

Implementation observables (public API only): constructor result or exception class; after every
mutating call the exception class and the container content; every stored member re-applied to its
element / field spec; declared keys; required keys; len(list) against the bounds.
"""

import contextlib
import copy
import json

from harness.common.framework import Prop
from harness import typing_vocab as tv
from translate import t_c03

SCHEMA_ERRS = ('TypeError', 'ValueError', 'KeyError')
ATOM_KINDS = ('int', 'float', 'str', 'bool', 'enum')
_CLS_COUNTER = [0]


def arg_py(pg, a):
  """A write argument: a plain value or ["typed", <src spec desc>, <allow_partial>, <content>] = an
  already typed pg.List / pg.Dict bound to `src`."""
  if a and a[0] == 'typed':
    spec = tv.build(a[1])
    content = tv.to_py(a[3])
    if isinstance(content, list):
      return pg.List(content, value_spec=spec, allow_partial=a[2])
    return pg.Dict(content, value_spec=spec, allow_partial=a[2])
  if a and a[0] == 'held':
    # an already typed container that SITS IN ANOTHER (non-partial) TREE: the receiver stores a copy,
    # and the original -- still a member of its holder -- must stay as it is
    spec = tv.build(a[1])
    content = tv.to_py(a[2])
    c = (pg.List(content, value_spec=spec) if isinstance(content, list) else pg.Dict(content, value_spec=spec))
    holder = pg.Dict({'h': c}, value_spec=pg.typing.Dict([('h', tv.build(a[1]))]))
    _HELD.append((holder, c))
    return holder.h
  if a and a[0] == 'untyped':
    # an UNTYPED pg.List / pg.Dict (no value spec yet): it validates like the plain value, but
    # `custom_apply` binds it to the field's spec before its content is validated
    content = tv.to_py(a[1])
    c = pg.List(content) if isinstance(content, list) else pg.Dict(content)
    _UNTYPED.append(c)
    return c
  return tv.to_py(a)


_UNTYPED = []
_HELD = []


def run_list_op(pg, lst, op):
  k = op[0]
  if k == 'append':
    lst.append(tv.to_py(op[1]))
  elif k == 'insert':
    lst.insert(op[1], tv.to_py(op[2]))
  elif k == 'setitem':
    lst[op[1]] = tv.to_py(op[2])
  elif k == 'setslice':
    lst[op[1]:op[2]:op[3]] = [tv.to_py(v) for v in op[4]]
  elif k == 'delitem':
    del lst[op[1]]
  elif k == 'delslice':
    del lst[op[1]:op[2]:op[3]]
  elif k == 'pop':
    lst.pop(op[1])
  elif k == 'remove':
    lst.remove(tv.to_py(op[1]))
  elif k == 'extend':
    lst.extend([tv.to_py(v) for v in op[1]])
  elif k == 'extend_iter':
    lst.extend(iter([tv.to_py(v) for v in op[1]]))
  elif k == 'iadd':
    lst += [tv.to_py(v) for v in op[1]]
  elif k == 'iadd_iter':
    lst += (tv.to_py(v) for v in op[1])
  elif k == 'imul':
    lst *= op[1]
  elif k == 'clear':
    lst.clear()
  elif k == 'sort':
    lst.sort()
  elif k == 'reverse':
    lst.reverse()
  elif k == 'rebind':
    lst.rebind({kk: (pg.Insertion(tv.to_py(v)) if ins else tv.to_py(v)) for kk, ins, v in op[1]},
               raise_on_no_change=False)
  else:
    raise ValueError(k)


def prebuild(pg, op):
  """The op with its write arguments converted to Python objects (typed containers are created
  here, outside any allow_partial scope of the call itself)."""
  k = op[0]
  if k in ('setitem', 'setattr', 'setdefault'):
    return [k, op[1], arg_py(pg, op[2])]
  if k in ('update', 'ior', 'rebind'):
    return [k, {kk: arg_py(pg, v) for kk, v in op[1]}]
  if k == 'rebind_paths':
    return [k, {pg.KeyPath(list(path)): (pg.Insertion(tv.to_py(v)) if ins else tv.to_py(v)) for path, ins, v in op[1]}]
  return op


def run_dict_op(pg, target, op, is_object):
  """`op` comes from prebuild()."""
  k = op[0]
  if k == 'setitem':
    target[op[1]] = op[2]
  elif k == 'setattr':
    with pg.allow_writable_accessors(True):
      setattr(target, op[1], op[2])
  elif k == 'delitem':
    del target[op[1]]
  elif k == 'pop':
    target.pop(op[1])
  elif k == 'setdefault':
    target.setdefault(op[1], op[2])
  elif k == 'update':
    target.update(op[1])
  elif k == 'ior':
    target |= op[1]
  elif k in ('rebind', 'rebind_paths'):
    target.rebind(op[1], raise_on_no_change=False)
  elif k == 'clear':
    target.clear()
  elif k == 'popitem':
    target.popitem()
  else:
    raise ValueError(k)


def canon(v):
  """Wire value with dict items sorted by key at every depth (key order is not a schema matter)."""
  if isinstance(v, list) and v and v[0] == 'd' and len(v) == 2:
    return ['d', sorted([[k, canon(x)] for k, x in v[1]])]
  if isinstance(v, list) and v and v[0] in ('l', 't') and len(v) == 2:
    return [v[0], [canon(x) for x in v[1]]]
  return v


def frozen_ok(value_spec, stored):
  """A frozen field / element holds exactly its frozen value (checked directly, not through apply)."""
  import pyglove as pg
  if value_spec.frozen and pg.MISSING_VALUE != value_spec.default:
    return canon(tv.from_py(stored)) == canon(tv.from_py(value_spec.default))
  return True


def untyped_member(pg, spec, value):
  """Path of a dict / list member that sits where its spec says Dict(schema) / List but is NOT a symbolic
  container bound to a value spec (so later writes into it are never validated); None if there is none.
  Walks through typed dicts, lists, TUPLES (fixed and variable) and Union candidates."""
  T = pg.typing
  if isinstance(spec, T.Union):
    for c in spec.candidates:
      if c.value_type is not None and isinstance(value, c.value_type) and isinstance(c, (T.Dict, T.List, T.Tuple)):
        return untyped_member(pg, c, value)
    return None
  if spec.frozen:
    return None
  if isinstance(spec, T.Dict) and spec.schema is not None and isinstance(value, dict):
    if not isinstance(value, pg.Dict) or value.value_spec is None:
      return ''
    for k, v in value.sym_items():
      f = spec.schema.get_field(k)
      if f is not None:
        r = untyped_member(pg, f.value, v)
        if r is not None:
          return '%s.%s' % (k, r)
  elif isinstance(spec, T.List) and isinstance(value, list):
    if not isinstance(value, pg.List) or value.value_spec is None:
      return ''
    for i, v in enumerate(value.sym_values()):
      r = untyped_member(pg, spec.element.value, v)
      if r is not None:
        return '[%d]%s' % (i, r)
  elif isinstance(spec, T.Tuple) and isinstance(value, tuple):
    for i, v in enumerate(value):
      es = spec.elements[i if spec.fixed_length and i < len(spec.elements) else 0].value
      r = untyped_member(pg, es, v)
      if r is not None:
        return '[%d]%s' % (i, r)
  return None


def member_ok(value_spec, wire, partial):
  """The stored member (wire form), JSON-round-tripped, is accepted by its spec and mapped to itself."""
  try:
    y = value_spec.apply(tv.to_py(wire), allow_partial=partial)
  except (TypeError, ValueError, KeyError):
    return False
  return canon(tv.from_py(y)) == canon(wire)


class C03(Prop):
  id = 'C03'
  props_modules = ['PgProps.C03']
  driver = 'drv_c03'
  translators = [t_c03.run]
  case_timeout_s = 20
  rule = ('three streams: typed pg.List over List(elem, min_size, max_size) with atom element specs (int/float '
          'ranges, str, bool, enum; flags) and histories over 15 list write paths (append, insert, item and slice '
          'assignment, item and slice deletion, pop, remove, extend, +=, *=, clear, sort, reverse, rebind with '
          'Insertion / MISSING / past-the-end keys); typed pg.Dict and pg.Object over schemas of 1-3 const keys '
          '(+ optional dynamic StrKey for Dict) whose field specs come from the whole C04 vocabulary (nesting depth '
          '<= 1: list / tuple / dict / union / object fields, noneable / default / frozen), constructed with '
          'allow_partial on or off, histories over setitem / setattr / delitem / pop / setdefault / update / |= / '
          'rebind (MISSING included) / clear / popitem under optional pg.allow_partial scopes; about half of the '
          'written values invalid (wrong type, out of range, unknown key, too long / short). Non-trivial: construction '
          'succeeds, at least one call succeeds and at least one is rejected; distinct: by the whole case.')
  trusted_base = [
      'modelled, not verified: construction and the write paths of typed pg.List / pg.Dict / pg.Object listed in '
      'PgModel/SymTyped.lean (tied by correspondence), on top of the value-spec model of C04',
      'translator translate/t_c03.py (ast): which list mutators consult max_size / min_size and route through the '
      'write primitive; obligations PgGen/C03Obligations discharged by decide',
      'outside the model: type-check off, nested key paths in rebind, sealed / accessor_writable (C08), '
      'notification (C09), re-parenting (C01)',
  ]
  assumptions = ['typed lists are exercised with allow_partial off; list element values are atoms',
                 'the field specs of the Dict/Object theorems are idempotent under apply (proved for the C04 fragment)']

  # -- generation --------------------------------------------------------------------------
  def generate(self, rng, tier):
    self.setup_impl()
    n = 360 if tier == 'quick' else 9000
    g = tv.SpecGen(rng)
    for i in range(n):
      if i % 2 == 0:
        yield self.gen_list(rng, g)
      else:
        yield self.gen_dict(rng, g, 'dict' if i % 4 == 1 else 'object')

  def gen_list(self, rng, g):
    while True:
      elem = g.spec(0)
      if rng.chance(0.12):
        elem = {'k': 'obj', 'cls': 4, 'n': 0}       # elements are symbolic objects with nested children
      elif rng.chance(0.08):
        elem = self.conv_union(rng, g)
      elif elem['k'] not in ATOM_KINDS:
        continue
      elif rng.chance(0.1):
        self.freeze_optional(g, elem)
      mn, mx = g.sizes()
      spec = {'k': 'list', 'elem': elem, 'mn': mn, 'mx': mx, 'n': 0}
      try:
        tv.build(spec)
      except (TypeError, ValueError, KeyError):
        continue
      break
    lo = mn or 0
    hi = mx if mx is not None else lo + 3
    size = rng.randint(lo, max(lo, hi))
    if rng.chance(0.08):
      size = rng.choice([max(0, lo - 1), hi + 1])
    items = [g.valid(elem) for _ in range(size)]
    if rng.chance(0.08) and items:
      items[rng.below(len(items))] = g.near_miss(elem)
    sortable = elem['k'] in ('int', 'float', 'str', 'bool') and not elem.get('n')
    ops = []
    length = size

    def val():
      if elem['k'] == 'obj' and elem['cls'] == 4 and rng.chance(0.8):
        return ['o'] + rng.choice(tv.SYM_POOL)
      if elem.get('fz') and elem.get('n') and rng.chance(0.4):
        return ['N']
      return g.valid(elem) if rng.chance(0.6) else g.near_miss(elem)

    for _ in range(rng.randint(1, 8)):
      k = rng.weighted([(3, 'append'), (2, 'insert'), (3, 'setitem'), (3, 'setslice'), (2, 'delitem'), (2, 'delslice'),
                        (2, 'pop'), (1, 'remove'), (2, 'extend'), (1, 'iadd'), (1, 'imul'), (1, 'clear'),
                        (1, 'sort'), (1, 'reverse'), (3, 'rebind')])
      if k == 'append':
        ops.append(['append', val()])
      elif k == 'insert':
        ops.append(['insert', rng.randint(-length - 1, length + 1), val()])
      elif k == 'setitem':
        ops.append(['setitem', rng.randint(-length - 1, length), val()])
      elif k == 'setslice':
        a, b = rng.randint(-length - 1, length + 1), rng.randint(-length - 1, length + 1)
        c = rng.weighted([(5, 1), (2, 2), (2, -1)])
        ops.append(['setslice', a, b, c, [g.valid(elem) if rng.chance(0.85) else g.near_miss(elem) for _ in range(rng.randint(0, 3))]])
      elif k in ('delitem', 'pop'):
        ops.append([k, rng.randint(-length - 1, length)])
      elif k == 'delslice':
        ops.append(['delslice', rng.randint(-length - 1, length + 1), rng.randint(-length - 1, length + 1), rng.weighted([(5, 1), (2, 2), (2, -1)])])
      elif k == 'remove':
        ops.append(['remove', copy.deepcopy(rng.choice(items)) if items and rng.chance(0.7) else val()])
      elif k in ('extend', 'iadd'):
        if rng.chance(0.4):
          k = k + '_iter'      # an unsized iterable (iterator / generator) as argument
        ops.append([k, [g.valid(elem) if rng.chance(0.8) else g.near_miss(elem) for _ in range(rng.randint(0, 3))]])
      elif k == 'imul':
        ops.append(['imul', rng.randint(-1, 2)])
      elif k == 'sort':
        if sortable:
          ops.append(['sort'])
      elif k == 'rebind':
        keys = rng.sample(list(range(0, length + 2)), rng.randint(1, min(3, length + 2)))
        ent = []
        for kk in keys:
          c = rng.below(10)
          if c < 5:
            ent.append([kk, False, val()])
          elif c < 8:
            ent.append([kk, True, val()])
          else:
            ent.append([kk, False, ['M']])
        ops.append(['rebind', ent])
      else:
        ops.append([k])
    case = {'kind': 'list', 'spec': spec, 'items': items, 'ops': ops}
    if rng.chance(0.08):
      case['bind'] = True                      # pg.List(items).use_value_spec(spec)
      if items and rng.chance(0.5):
        items[rng.below(len(items))] = g.near_miss(elem)
    return case

  def conv_union(self, rng, g):
    """Union[Float(range), ..., Callable()]: the candidate without value type switches the Union's own type
    check off, so an int reaches the Float candidate only through the converter fallback of
    `Union._apply` (which must still run that candidate's range check)."""
    lo, hi = g.bounds(-2, 6)
    if lo is None and hi is None:
      hi = rng.randint(0, 3)
    fc = {'k': 'float', 'lo': None if lo is None else tv.fl(lo, 0)[1:], 'hi': None if hi is None else tv.fl(hi, 0)[1:], 'n': 0}
    cands = [fc, {'k': 'callable', 'n': 0}]
    if rng.chance(0.5):
      cands.insert(rng.below(3), {'k': 'str', 'rx': None, 'n': 0})
    return {'k': 'union', 'cands': cands, 'n': 0}

  def freeze_optional(self, g, fd):
    """Makes an atom field both noneable and frozen at a non-None value (`Str().noneable().freeze('a')`)."""
    fd['n'] = 0
    fd.pop('fz', None)
    fd.pop('d', None)
    v = g.valid(fd)
    if v in (['N'], ['M']):
      return
    fd['d'] = v
    fd['fz'] = True
    fd['n'] = 2 if fd['k'] == 'enum' else g.r.choice([1, 2])

  def frozen_outer(self, rng):
    """A field frozen at a container value where the FIELD spec is not the container spec itself: `Any`,
    a Union frozen as a whole, or a noneable List / Dict -- its content is as immutable as the field."""
    lst = ['l', [['i', 1], ['i', 2]]]
    dct = ['d', [['q', ['i', 1]]]]
    dspec = {'k': 'dict', 'fields': [[['c', 'q'], {'k': 'int', 'lo': None, 'hi': None, 'n': 0}]], 'n': 0}
    lspec = {'k': 'list', 'elem': {'k': 'int', 'lo': None, 'hi': None, 'n': 0}, 'mn': None, 'mx': None, 'n': 0}
    # (a NONEABLE List / Dict spec frozen at a container cannot be used at all: `ensure_value_spec` refuses it
    # with TypeError at construction -- fail-safe, outside the property)
    c = rng.below(2)
    if c == 0:
      return {'k': 'any', 'n': 2, 'd': copy.deepcopy(rng.choice([lst, dct])), 'fz': True}
    v, sp = rng.choice([(lst, lspec), (dct, dspec)])
    cands = [copy.deepcopy(sp), {'k': rng.choice(['int', 'str']), 'lo': None, 'hi': None, 'rx': None, 'n': 0}]
    if rng.chance(0.4):
      cands.reverse()
    return {'k': 'union', 'cands': cands, 'n': 0, 'd': copy.deepcopy(v), 'fz': True}

  def sub_paths(self, fd, depth=0):
    """(path suffix, spec description of the addressed member or None) below a container spec."""
    out = []
    if fd.get('fz') and fd.get('d') and fd['k'] in ('any', 'union') and fd['d'][0] in ('l', 'd'):
      if fd['d'][0] == 'l':
        return [([i], None) for i in (0, 1, 5)]
      return [([k], None) for k, _ in fd['d'][1]] + [(['zz'], None)]
    if fd['k'] == 'union':
      for c in fd['cands']:
        if c['k'] in ('list', 'dict'):
          return self.sub_paths(c, depth)
      return out
    if fd['k'] == 'dict' and fd.get('fields'):
      for key, sub in fd['fields']:
        names = [key[1]] if key[0] == 'c' else {None: ['p', 'q'], 0: ['ab', 'abc'], 1: ['b', 'xb']}[key[1]]
        for nm in names:
          out.append(([nm], sub))
          if depth < 2:
            out += [([nm] + sfx, m) for sfx, m in self.sub_paths(sub, depth + 1)]
      out.append((['zz'], None))
    elif fd['k'] == 'list':
      for i in range(0, 4):
        out.append(([i], fd['elem']))
        if depth < 2 and i < 2:
          out += [([i] + sfx, m) for sfx, m in self.sub_paths(fd['elem'], depth + 1)]
    return out

  def tidy_inner(self, d, top=False):
    """Nested containers are neither noneable nor carry a default unless frozen (a noneable / defaulted
    nested container re-applies its symbolic default through CustomTyping, outside the model)."""
    if d['k'] in ('list', 'dict', 'tuple', 'union'):
      d['n'] = 0
      if not top and not d.get('fz'):
        d.pop('d', None)
    for sub in ([d['elem']] if 'elem' in d else []) + d.get('elems', []) + d.get('cands', []) + [f for _, f in (d.get('fields') or [])]:
      self.tidy_inner(sub)

  def gen_nested(self, rng, g, kind):
    """Dict / Object whose container-typed fields are rewritten through nested key paths
    (`rebind({'z.y': v, 'w[0]': v})`): allow_partial off, plain values only."""
    while True:
      names = rng.sample(['x', 'y', 'z', 'w'], rng.randint(1, 3))
      fields = []
      for nm in names:
        fd = g.spec(0)
        if rng.chance(0.12):
          fields.append([['c', nm], self.frozen_outer(rng)])
          continue
        if rng.chance(0.75):
          for _try in range(30):
            c = g.spec(rng.choice([1, 1, 2]))
            if c['k'] == 'list' or (c['k'] == 'dict' and c.get('fields')):
              c['n'] = 0
              if c.get('d') == ['N'] or not rng.chance(0.3):
                c.pop('d', None)
                c.pop('fz', None)
              self.tidy_inner(c, top=True)
              if c.get('d') is None and rng.chance(0.2):
                v = g.valid(c)
                if v not in (['N'], ['M']):
                  c['d'], c['fz'] = v, True       # a frozen container field: its content is sealed
              fd = c if rng.chance(0.8) else {'k': 'union', 'cands': [c, {'k': 'str', 'rx': None, 'n': 0}], 'n': 0}
              break
        fields.append([['c', nm], fd])
      spec = {'k': 'dict', 'fields': fields, 'n': 0}
      if 'obj' in json.dumps(spec) and '"cls": 4' in json.dumps(spec):
        continue
      try:
        tv.build(spec)
      except (TypeError, ValueError, KeyError):
        continue
      break
    # the frozen defaults as the real spec holds them (key order included)
    state = tv.readback(tv.build(spec))
    frozen_default = {}
    for key, st in state[1]:
      if st[-1][2]:
        frozen_default.setdefault(key[1], []).append(st[-1][1])
      if st[0] == 'union':
        for cst in st[1]:
          if cst[-1][2]:                          # a frozen Union candidate
            frozen_default.setdefault(key[1], []).append(cst[-1][1])

    def norm(k, v):
      # stated assumption: equal dicts come in equal key order where a frozen default is compared
      for fdv in frozen_default.get(k, []):
        same = canon(v) == canon(fdv)
        if not same and v and v[0] == 'd' and fdv and fdv[0] == 'd':
          try:
            same = tv.to_py(v) == tv.to_py(fdv)       # Python equality: key order and 1 == 1.0 do not matter
          except Exception:   # pylint: disable=broad-except
            same = False
        if same:
          return copy.deepcopy(fdv)
      return v
    items = [[f[0][1], norm(f[0][1], g.valid(f[1]))] for f in fields if not (f[1].get('d') is not None and rng.chance(0.3))]
    ops = []
    for _ in range(rng.randint(1, 7)):
      if rng.chance(0.25):
        k = rng.choice(names)
        fd = [f[1] for f in fields if f[0][1] == k][0]
        v = g.valid(fd) if rng.chance(0.7) else g.near_miss(fd)
        v = norm(k, v)
        ops.append([[('setattr' if kind == 'object' else 'setitem'), k, v], None])
        continue
      entries = []
      for _e in range(rng.weighted([(6, 1), (3, 2), (1, 3)])):
        k = rng.choice(names + (['nope'] if rng.chance(0.05) else []))
        fd = ([f[1] for f in fields if f[0][1] == k] or [None])[0]
        subs = self.sub_paths(fd) if fd is not None else []
        if not subs or rng.chance(0.1):
          # a direct key, or a step below a member that is no container (key kinds always match the
          # container kind: a str key on a list trips an `assert` in list.py, outside the property)
          cont = fd
          if fd is not None and fd['k'] == 'union':
            cont = ([c for c in fd['cands'] if c['k'] in ('list', 'dict')] or [fd])[0]
          step = 0 if (cont is not None and cont['k'] == 'list') else 'y'
          if rng.chance(0.15) and cont is not None and (
              cont['k'] == 'list' or (cont['k'] == 'dict' and cont.get('fields'))):
            # a key of the wrong kind for a TYPED container (KeyError); an untyped dict (below `Any`)
            # takes an int key as it is, and the model's dicts have string keys only
            step = 'y' if step == 0 else 0
          path, m = [k] + ([step] if rng.chance(0.5) else []), (fd if fd is not None else None)
          if len(path) > 1:
            m = None
        else:
          sfx, m = rng.choice(subs)
          path = [k] + sfx
        c = rng.below(20)
        if m is None:
          v = copy.deepcopy(rng.choice(tv.ATOMS[:10]))
        elif c < 11:
          v = g.valid(m)
        elif c < 18:
          v = g.near_miss(m)
        else:
          v = ['M']
        # (an Insertion marker is only meaningful for a list position; on an untyped dict pyglove stores
        # the marker object itself, which is a C02 matter)
        ins = isinstance(path[-1], int) and v != ['M'] and m is not None and rng.chance(0.25)
        if [e for e in entries if e[0] == path]:
          continue
        entries.append([path, ins, v])
      if entries:
        ops.append([['rebind_paths', entries], None])
    return {'kind': kind, 'spec': spec, 'partial': False, 'items': items, 'ops': ops}

  def gen_typed_into_union(self, rng, g, kind):
    """An already typed pg.List (or pg.Dict) bound to a WIDER spec, written into a Union[container, Str]
    field: the Union hands it to the candidate of its type, whose compatibility verdict decides."""
    lo = rng.choice([0, 0, 1, -1])
    mx = rng.choice([1, 2, 2, 3])
    if rng.chance(0.75):
      inner = {'k': 'list', 'elem': {'k': 'int', 'lo': lo, 'hi': None, 'n': 0}, 'mn': None, 'mx': mx, 'n': 0}
      wide = {'k': 'list', 'elem': {'k': 'int', 'lo': None, 'hi': None, 'n': 0}, 'mn': None,
              'mx': rng.choice([None, mx + 2]), 'n': 0}
      contents = [['l', [['i', lo - 1]]], ['l', [['i', lo + 1] for _ in range(mx + 1)]], ['l', [['i', lo]]], ['l', []]]
      start = ['l', [['i', lo]]]
    else:
      inner = {'k': 'dict', 'fields': [[['c', 'q'], {'k': 'int', 'lo': lo, 'hi': None, 'n': 0}]], 'n': 0}
      wide = {'k': 'dict', 'fields': [[['c', 'q'], {'k': 'int', 'lo': None, 'hi': None, 'n': 0}]], 'n': 0}
      contents = [['d', [['q', ['i', lo - 1]]]], ['d', [['q', ['i', lo + 2]]]]]
      start = ['d', [['q', ['i', lo]]]]
    fd = {'k': 'union', 'cands': [inner, {'k': 'str', 'rx': None, 'n': 0}], 'n': 0}
    if rng.chance(0.3):
      fd['cands'].reverse()
    spec = {'k': 'dict', 'fields': [[['c', 'u'], fd]], 'n': 0}
    ops = []
    for _ in range(rng.randint(1, 3)):
      a = ['typed', wide, False, copy.deepcopy(rng.choice(contents))]
      c = rng.choice(['setattr' if kind == 'object' else 'setitem', 'rebind', 'rebind' if kind == 'object' else 'update'])
      if c in ('rebind', 'update'):
        ops.append([[c, [['u', a]]], None])
      else:
        ops.append([[c, 'u', a], None])
      if rng.chance(0.3):
        ops.append([[('setattr' if kind == 'object' else 'setitem'), 'u', ['s', 'ab']], None])
    return {'kind': kind, 'spec': spec, 'partial': False, 'items': [['u', start if rng.chance(0.6) else ['s', 'a']]], 'ops': ops}

  def gen_ext_schema(self, rng, g):
    """A Dict whose schema comes from an EXTENSION with two overlapping dynamic keys (inherited first):
    per-key writes must be validated by the same field (the first that matches) as the constructor."""
    spec_a = {'k': 'int', 'lo': rng.choice([0, 0, 1]), 'hi': None, 'n': 0}
    spec_b = {'k': 'str', 'rx': None, 'n': 0}
    rx = rng.choice([0, 1])
    if rng.chance(0.6):
      base, own = [['k', rx], spec_a], [['k', None], spec_b]       # inherited specific, own general
    else:
      base, own = [['k', None], spec_b], [['k', rx], spec_a]       # inherited general, own specific
    fields = [own]
    if rng.chance(0.5):
      fields.insert(0, [['c', 'x'], g.spec(0)])
    spec = {'k': 'dict', 'fields': fields, 'n': 0, 'ext': {'k': 'dict', 'fields': [base], 'n': 0}}
    both = {0: ['ab', 'abc', 'a'], 1: ['b', 'xb', 'ab']}[rx]
    vals = [['s', 'lots'], ['i', 3], ['i', -2], ['s', 'a'], ['f', 1, 1]]
    items = []
    xf = [f for f in fields if f[0][0] == 'c']
    if xf:
      items.append(['x', g.valid(xf[0][1])])
    if rng.chance(0.4):
      items.append([rng.choice(both), copy.deepcopy(rng.choice(vals))])
    ops = []
    for _ in range(rng.randint(1, 4)):
      k = rng.choice(both + ['q'])
      v = copy.deepcopy(rng.choice(vals))
      c = rng.choice(['setitem', 'rebind', 'update', 'setdefault', 'ior'])
      ops.append([[c, [[k, v]]] if c in ('rebind', 'update', 'ior') else [c, k, v], None])
    return {'kind': 'dict', 'spec': spec, 'partial': False, 'items': items, 'ops': ops}

  def gen_dict(self, rng, g, kind):
    if rng.chance(0.05):
      return self.gen_typed_into_union(rng, g, kind)
    if kind == 'dict' and rng.chance(0.08):
      return self.gen_ext_schema(rng, g)
    if rng.chance(0.3):
      return self.gen_nested(rng, g, kind)
    while True:
      names = rng.sample(['x', 'y', 'z', 'w'], rng.randint(1, 3))
      fields = []
      for nm in names:
        # field kinds: atoms (some frozen + optional), Object-typed, and a guaranteed share of
        # container-typed fields (list / dict with schema / Union[container, Str])
        shape = rng.weighted([(30, 'any'), (8, 'frozen-optional'), (14, 'object'), (16, 'list'), (16, 'dict'), (16, 'union'),
                              (8, 'conv-union'), (8, 'tuple-of-containers')])
        fd = g.spec(rng.weighted([(3, 0), (3, 1)]))
        if shape == 'conv-union':
          fd = self.conv_union(rng, g)
        if shape == 'tuple-of-containers':
          inner = None
          for _try in range(20):
            c = g.spec(1)
            if c['k'] == 'list' or (c['k'] == 'dict' and c.get('fields')):
              inner = c
              break
          if inner is not None:
            inner['n'] = 0
            inner.pop('d', None)
            inner.pop('fz', None)
            self.tidy_inner(inner, top=True)
            if rng.chance(0.65):
              mn = rng.choice([None, 0, 1])
              fd = {'k': 'tuple', 'elem': inner, 'mn': mn, 'mx': (mn or 0) + rng.randint(1, 2), 'n': 0}
            else:
              fd = {'k': 'tuple', 'elems': [inner] + [g.spec(0) for _ in range(rng.below(2))], 'n': 0}
        if shape in ('list', 'dict', 'union'):
          inner = None
          for _try in range(20):
            c = g.spec(1)
            want = 'list' if shape == 'list' else 'dict' if shape == 'dict' else rng.choice(['list', 'dict'])
            if c['k'] == want and (c['k'] != 'dict' or c.get('fields')):
              inner = c
              break
          if inner is not None:
            inner['n'] = 0
            inner.pop('d', None)
            inner.pop('fz', None)
            fd = inner if shape != 'union' else {'k': 'union', 'cands': [inner, {'k': 'str', 'rx': None, 'n': 0}], 'n': 0}
        elif shape == 'object':
          fd = {'k': 'obj', 'cls': 4, 'n': rng.choice([0, 0, 1])}    # Object-typed field (nested symbolic object)
        elif shape == 'frozen-optional':
          while fd['k'] not in ATOM_KINDS:
            fd = g.spec(0)
          self.freeze_optional(g, fd)
        if fd['k'] in ('list', 'tuple', 'dict', 'union'):
          # a noneable container field re-applies its (symbolic) default through CustomTyping,
          # which is outside the value-spec model
          fd['n'] = 0
          if fd.get('d') == ['N']:
            fd.pop('d')
            fd.pop('fz', None)
        fields.append([['c', nm], fd])
      ext = None
      if kind == 'dict' and rng.chance(0.35):
        fields.append([['k', rng.choice([None, 0, 1])], g.spec(0)])
        if rng.chance(0.35):
          # the schema is obtained by EXTENSION of a base with an overlapping dynamic key: an inherited
          # specific key spec before the own general one, or the other way round
          own = fields[-1][0][1]
          brx = rng.choice([r for r in (None, 0, 1) if r != own])
          ext = {'k': 'dict', 'fields': [[['k', brx], g.spec(0)]], 'n': 0}
      spec = {'k': 'dict', 'fields': fields, 'n': 0}
      if ext is not None:
        spec['ext'] = ext
      try:
        tv.build(spec)
      except (TypeError, ValueError, KeyError):
        continue
      break
    partial = rng.chance(0.25)
    if ext is not None:
      fields = ext['fields'] + fields            # the merged schema: inherited fields first
    import re as _re
    dyn = [f for f in fields if f[0][0] == 'k']
    pool = ['p', 'ab', 'b', 'q', 'abc', 'a', 'xb']

    def dyn_field(key):
      for f in dyn:
        if f[0][1] is None or _re.match(tv.REGEX_POOL[f[0][1]], key):
          return f
      return None
    dyn_names = [n for n in pool if n not in names and dyn_field(n) is not None]
    if len(dyn) > 1:
      both = [n for n in dyn_names if all(f[0][1] is None or _re.match(tv.REGEX_POOL[f[0][1]], n) for f in dyn)]
      dyn_names = both + [n for n in dyn_names if n not in both]   # keys matched by BOTH dynamic fields first
      dyn_names = dyn_names[:max(len(both), 1) + 1]

    def field_of(key):
      for f in fields:
        if f[0][0] == 'c' and f[0][1] == key:
          return f[1]
      f = dyn_field(key) if key in dyn_names else None
      return f[1] if f is not None else None

    def container_desc(fd):
      if fd['k'] == 'list' or (fd['k'] == 'dict' and fd.get('fields')):
        return fd
      if fd['k'] == 'union':
        cs = [c for c in fd['cands'] if c['k'] == 'list' or (c['k'] == 'dict' and c.get('fields'))]
        return rng.choice(cs) if cs else None
      return None

    def typed_arg(fd):
      """An already typed pg.List / pg.Dict bound to a spec related to the field's."""
      import pyglove as pg
      cd = container_desc(fd)
      if cd is None:
        return None
      src = copy.deepcopy(cd)
      for _ in range(rng.below(3)):
        m = g.mutate(src)
        if m['k'] == cd['k'] and (m['k'] != 'dict' or m.get('fields')):
          src = m
      src.pop('d', None)
      src.pop('fz', None)
      src['n'] = 0
      sp = rng.chance(0.3)
      wider = src['k'] == 'dict' and not any(f[0][0] == 'k' for f in src['fields']) and rng.chance(0.35)
      if wider:
        # bound to a WIDER schema (an extra dynamic StrKey field) and actually holding extra keys
        src['fields'] = src['fields'] + [[['k', None], g.spec(0)]]
      content = g.valid(src)
      if wider and not any(k not in [f[0][1] for f in src['fields'] if f[0][0] == 'c'] for k, _ in content[1]):
        content = ['d', content[1] + [['p', g.valid(src['fields'][-1][1])]]]
      if sp and content[0] == 'd' and content[1] and rng.chance(0.6):
        content = ['d', content[1][1:]]
      a = ['typed', src, sp, content]
      try:
        c = arg_py(pg, a)
      except (TypeError, ValueError, KeyError):
        return None
      a[3] = tv.from_py(c)
      if not sp and rng.chance(0.25):
        return ['held', src, a[3]]
      return a

    def val(key):
      fd = field_of(key)
      if fd is None:
        return copy.deepcopy(rng.choice(tv.ATOMS[:10]))
      if fd['k'] == 'obj' and fd['cls'] == 4 and rng.chance(0.8):
        return ['o'] + rng.choice(tv.SYM_POOL)
      if fd.get('fz') and fd.get('n') and rng.chance(0.45):
        return ['N']
      if rng.chance(0.5):
        a = typed_arg(fd)
        if a is not None:
          return a
      if container_desc(fd) is not None and rng.chance(0.25):
        cd = container_desc(fd)
        v = g.valid(cd) if rng.chance(0.5) else g.near_miss(cd)
        if v and v[0] in ('l', 'd'):
          return ['untyped', v]
      c = rng.below(20)
      if c < 11:
        return g.valid(fd)
      if c < 18:
        return g.near_miss(fd)
      return ['M']

    def key():
      c = rng.below(10)
      if c < 6:
        return rng.choice(names)
      if c < 8 and dyn_names:
        return rng.choice(dyn_names)
      return rng.choice(['zz', 'q', 'extra'] + names)

    items = []
    for f in fields:
      if f[0][0] == 'c':
        has_default = f[1].get('d') is not None
        if has_default and rng.chance(0.4):
          continue
        if rng.chance(0.07):
          continue
        items.append([f[0][1], g.valid(f[1]) if rng.chance(0.93) else g.near_miss(f[1])])
    for nm in rng.sample(dyn_names, rng.below(min(3, len(dyn_names) + 1))) if dyn_names else []:
      items.append([nm, g.valid(dyn[0][1])])
    if rng.chance(0.05):
      items.append(['zz', ['i', 1]])
    ops = []
    for _ in range(rng.randint(1, 7)):
      scope = rng.weighted([(8, None), (1, True), (1, False)])
      if kind == 'object':
        c = rng.below(10)
        if c < 5:
          k = rng.choice(names)      # an undeclared name is a plain Python attribute, not a symbolic write
          op = ['setattr', k, val(k)]
        else:
          ks = rng.sample(names + (['zz'] if rng.chance(0.1) else []), rng.randint(1, min(2, len(names))))
          op = ['rebind', [[kk, val(kk)] for kk in ks]]
      else:
        c = rng.weighted([(4, 'setitem'), (2, 'delitem'), (1, 'pop'), (1, 'setdefault'), (2, 'update'), (1, 'ior'),
                          (3, 'rebind'), (1, 'clear'), (1, 'popitem')])
        if c in ('setitem', 'setdefault'):
          k = key()
          op = [c, k, val(k)]
        elif c in ('delitem', 'pop'):
          op = [c, key()]
        elif c in ('update', 'ior', 'rebind'):
          ks = []
          for _ in range(rng.randint(1, 3)):
            k = key()
            if k not in ks:
              ks.append(k)
          kvs = [[kk, val(kk)] for kk in ks]
          if c != 'rebind':
            kvs = [[kk, v if v != ['M'] else g.valid(field_of(kk)) if field_of(kk) else ['i', 1]] for kk, v in kvs]
          op = [c, kvs]
        else:
          op = [c]
      if (partial or scope) and '"untyped"' in json.dumps(op):
        # (an untyped pg.Dict keeps its own allow_partial=False while the partial parent fills in
        # MISSING_VALUE for its required keys: outside the model, which validates it like the plain value)
        def plain(x):
          if isinstance(x, list):
            if x and x[0] == 'untyped':
              return x[1]
            return [plain(y) for y in x]
          return x
        op = plain(op)
      ops.append([op, scope])
      if '"typed"' in json.dumps(op) and rng.chance(0.35):
        ops.append([copy.deepcopy(op), scope])      # the same write retried (a rejected write must stay rejected)
    case = {'kind': kind, 'spec': spec, 'partial': partial, 'items': items, 'ops': ops}
    if rng.chance(0.2):
      # built INSIDE a pg.allow_partial scope; all the steps run after the scope was left
      case['build_scope'] = rng.chance(0.7)
      if case['build_scope'] and not partial:
        req = [f[0][1] for f in fields if f[0][0] == 'c' and f[1].get('d') is None]
        for nm in rng.sample(req, min(len(req), rng.randint(1, 2))):
          c = rng.choice(['setattr' if kind == 'object' else 'setitem', 'rebind', 'delitem' if kind == 'dict' else 'rebind'])
          op = [c, [[nm, ['M']]]] if c == 'rebind' else ([c, nm] if c == 'delitem' else [c, nm, ['M']])
          ops.insert(rng.below(len(ops) + 1), [op, None])
      return case
    if kind == 'dict' and not partial and rng.chance(0.1):
      case['bind'] = True                      # pg.Dict(items).use_value_spec(spec)
      plain = [it for it in items if not (it[1] and it[1][0] in ('typed', 'untyped'))]
      if plain and rng.chance(0.5):
        it = rng.choice(plain)
        fd = field_of(it[0])
        if fd is not None:
          it[1] = g.near_miss(fd)
    return case

  # -- execution ---------------------------------------------------------------------------
  def all_values(self, case):
    vals = []

    def walk(x):
      if isinstance(x, list):
        if x and isinstance(x[0], str) and x[0] in ('M', 'N', 'b', 'i', 'f', 's', 'l', 't', 'd', 'o'):
          vals.append(x)
        else:
          for y in x:
            walk(y)
    walk(case['items'])
    walk(case['ops'])
    return vals

  def model_request(self, case):
    self.setup_impl()
    case = self.normalise(case)
    try:
      st = tv.readback(tv.build(case['spec']))
    except (TypeError, ValueError, KeyError):
      return None
    states = [st]

    def conv(x):
      if isinstance(x, list):
        if x and x[0] == 'typed':
          sst = tv.readback(tv.build(x[1]))
          states.append(sst)
          return ['typed', sst, x[2], x[3]]
        if x and x[0] == 'held':
          sst = tv.readback(tv.build(x[1]))
          states.append(sst)
          return ['typed', sst, False, x[2]]      # the model: a typed container (the receiver copies it)
        if x and x[0] == 'untyped':
          return x[1]                 # the model: validated exactly like the plain value
        return [conv(y) for y in x]
      return x
    ops = conv(case['ops'])
    req = {'op': case['kind'], 'spec': st, 'items': case['items'], 'ops': ops,
           'env': tv.env_for(states, self.atom_values(case))}
    if case['kind'] != 'list':
      req['partial'] = case['partial']
      if case.get('build_scope') is not None:
        req['construct_partial'] = bool(case['build_scope'])
    return req

  def atom_values(self, case):
    out = []
    for v in self.all_values(case):
      try:
        tv.strings_in(v, set())
        out.append(v)
      except Exception:   # not a value
        pass
    return out

  def normalise(self, case):
    if 'kind' not in case:
      case = dict(case, kind='list')
    return case

  def impl(self, case):
    import pyglove as pg
    case = self.normalise(case)
    spec = tv.build(case['spec'])
    st = tv.readback(spec)
    out = {'state': st}
    if case['kind'] == 'list':
      return self.impl_list(pg, case, spec, out)
    return self.impl_dict(pg, case, spec, out)

  def impl_list(self, pg, case, spec, out):
    why = out.setdefault('why', [])

    def conforms(lst):
      ok = True
      for x in lst.sym_values():
        if not frozen_ok(spec.element.value, x):
          ok = False
          why.append('frozen-value-differs')
        elif tv.deep_missing(x):
          ok = False
          why.append('nested-required-field-missing')
        elif not member_ok(spec.element.value, tv.from_py(x), False):
          ok = False
      if len(lst) < spec.min_size or (spec.max_size is not None and len(lst) > spec.max_size):
        ok = False
      return ok

    try:
      if case.get('bind'):
        # an untyped pg.List adopts the spec afterwards (`use_value_spec`): the same validation as
        # construction, and a refused spec must not stay bound
        lst = pg.List([tv.to_py(v) for v in case['items']])
        try:
          lst.use_value_spec(spec)
        except (TypeError, ValueError, KeyError):
          out['bound_after_reject'] = lst.value_spec is not None
          raise
      else:
        lst = pg.List([tv.to_py(v) for v in case['items']], value_spec=spec)
    except (TypeError, ValueError, KeyError) as e:
      out['model'] = {'construct': type(e).__name__, 'steps': []}
      return out
    m = {'construct': tv.from_py(lst)[1], 'conforms': conforms(lst), 'steps': []}
    for op in case['ops']:
      err = None
      try:
        run_list_op(pg, lst, op)
      except (TypeError, ValueError, KeyError, IndexError, pg.WritePermissionError) as e:
        err = type(e).__name__
      n0 = len(why)
      m['steps'].append({'err': err, 'items': tv.from_py(lst)[1], 'conforms': conforms(lst)})
      out.setdefault('why_steps', []).append(why[n0:])
    out['model'] = m
    out['typed'] = lst.value_spec is not None
    return out

  def impl_dict(self, pg, case, spec, out):
    is_object = case['kind'] == 'object'
    schema = spec.schema

    why = out.setdefault('why', [])

    def content(target):
      return sorted([[k, canon(tv.from_py(v))] for k, v in target.sym_items()])

    def conforms(target, partial):
      for k, v in target.sym_items():
        field = schema.get_field(k)
        if field is not None and not frozen_ok(field.value, v):
          why.append('frozen-value-differs')
          return False
        if field is None or not member_ok(field.value, tv.from_py(v), partial):
          return False
        if not partial and tv.deep_missing(v):
          why.append('nested-required-field-missing')
          return False       # required fields are present at EVERY depth (raw members, no memoised state)
      keys = set(target.sym_keys())
      for ks in schema.keys():
        if ks.is_const and str(ks) not in keys:
          return False
      return True

    kwargs = {k: tv.to_py(v) for k, v in case['items']}
    # construction may happen inside a `pg.allow_partial(x)` scope; every later step runs after it was left
    bscope = case.get('build_scope')
    bctx = pg.allow_partial(bscope) if bscope is not None else contextlib.nullcontext()
    try:
     with bctx:
      if is_object:
        _CLS_COUNTER[0] += 1
        cls = pg.members([(f.key, f.value) for f in schema.values()])(
            type('C03Obj%d' % _CLS_COUNTER[0], (pg.Object,), {}))
        target = cls(allow_partial=case['partial'], **kwargs)
      elif case.get('bind'):
        target = pg.Dict(kwargs)
        try:
          target.use_value_spec(spec, allow_partial=case['partial'])
        except (TypeError, ValueError, KeyError):
          out['bound_after_reject'] = target.value_spec is not None
          raise
      else:
        target = pg.Dict(kwargs, value_spec=spec, allow_partial=case['partial'])
    except (TypeError, ValueError, KeyError) as e:
      out['model'] = {'construct': type(e).__name__, 'steps': []}
      return out
    m = {'construct': content(target), 'conforms': conforms(target, True), 'complete': conforms(target, False), 'steps': []}
    attr_dict = target._sym_attributes if is_object else target
    out['untyped_member'] = [untyped_member(pg, spec, attr_dict)]
    typed = []
    for op, scope in case['ops']:
      err = None
      ctx = pg.allow_partial(scope) if scope is not None else contextlib.nullcontext()
      del _UNTYPED[:]
      del _HELD[:]
      pyop = prebuild(pg, op)
      try:
        with ctx:
          run_dict_op(pg, target, pyop, is_object)
      except (TypeError, ValueError, KeyError, IndexError, pg.WritePermissionError) as e:
        err = type(e).__name__
      # a container offered untyped and refused must not come back bound to the spec that refused it
      stale = False
      for c in _UNTYPED:
        if c.value_spec is not None and c.sym_parent is None and err is not None:
          try:
            c.value_spec.apply(tv.to_py(tv.from_py(c)))
          except (TypeError, ValueError, KeyError):
            stale = True
      out.setdefault('stale_bound', []).append(stale)
      out.setdefault('held_changed', []).append(
          any(c.allow_partial or h.sym_getattr('h') is not c for h, c in _HELD))
      # every symbolic member still knows its place (parent and key), also after a rejected write
      att = True
      for k, v in target.sym_items():
        if isinstance(v, pg.Symbolic):
          if v.sym_parent is not target or v.sym_path.key != k:
            att = False
      out.setdefault('attached', []).append(att)
      # derived state is queried between the steps, as a user program would (and memoised by pyglove)
      out.setdefault('derived', []).append([bool(target.is_partial), len(target.sym_missing())])
      n0 = len(why)
      m['steps'].append({'err': err, 'items': content(target), 'conforms': conforms(target, True),
                         'complete': conforms(target, False)})
      out.setdefault('why_steps', []).append(why[n0:])
      typed.append(is_object or target.value_spec is not None)
      out['untyped_member'].append(untyped_member(pg, spec, attr_dict))
    out['model'] = m
    out['typed'] = all(typed) if typed else True
    return out

  def compare(self, case, impl_out, model_out):
    case = self.normalise(case)
    if case['kind'] != 'list':
      model_out = copy.deepcopy(model_out)
      if isinstance(model_out.get('construct'), list):
        model_out['construct'] = sorted([[k, canon(v)] for k, v in model_out['construct']])
      for s in model_out.get('steps', []):
        s['items'] = sorted([[k, canon(v)] for k, v in s['items']])
    return super().compare(case, impl_out, model_out)

  # -- the property itself --------------------------------------------------------------------
  _known = None

  def known_signatures(self):
    if C03._known is None:
      from harness.common import framework
      sigs = set()
      for e in framework.load_findings(self.id):
        if e.get('status') == 'known':
          sigs.update(e.get('signature', '').split('|'))
      C03._known = sigs
    return C03._known

  def oracle(self, case, out):
    """All failing steps are collected; the first failure that is not a listed finding is reported
    (a known defect early in a history cannot mask a new one later), else the first listed one."""
    fails = []
    self.oracle_all(case, out, fails)
    if not fails:
      return None
    known = self.known_signatures()
    for f in fails:
      if f['signature'] not in known:
        return f
    return fails[0]

  def oracle_all(self, case, out, fails):
    case = self.normalise(case)
    m = out['model']
    kind = case['kind']

    def add(sig, what):
      if len(fails) < 24 and sig not in [f['signature'] for f in fails]:
        fails.append({'signature': sig, 'what': what})

    if isinstance(m['construct'], str):
      if out.get('bound_after_reject'):
        add('bound-to-rejected-spec:use_value_spec',
            'use_value_spec raised %s, yet the %s stays bound to the spec its content %s violates' % (
                m['construct'], kind, json.dumps(case['items'])))
      if m['construct'] not in SCHEMA_ERRS:
        add('construct-error-class:' + m['construct'], 'constructor raised ' + m['construct'])
      return
    st = out['state']
    if not m['conforms']:
      add('construct-nonconforming:' + kind,
          'constructed %s %s violates its spec %s' % (kind, json.dumps(m['construct']), json.dumps(st)))
    if not out.get('typed', True):
      add('value-spec-lost:' + kind, 'the container is no longer bound to its value spec')
    um = [u for u in (out.get('untyped_member') or []) if u is not None]
    if um:
      add('untyped-member:' + kind,
          'the member at %r is a plain / unbound container although its spec is a Dict with schema or a List: '
          'writes into it are not validated' % um[0])
    # `partial_allowed`: the container's own mode, or it HAS been made partial under a permission
    # (its constructor argument / an enclosing pg.allow_partial(True) scope) -- a scope that was merely
    # active while a complete value was written gives no permission for later
    partial_allowed = kind != 'list' and bool(case['partial'])
    if kind != 'list' and not m['complete'] and case.get('build_scope'):
      partial_allowed = True
    if kind != 'list' and not partial_allowed and not m['complete']:
      add('construct-partial:' + kind, 'constructed without allow_partial but a required field is missing: %s' % json.dumps(m['construct']))
    prev = m['construct']
    bad_before = not m['conforms']
    ops = case['ops'] if kind == 'list' else [o for o, _ in case['ops']]
    scopes = [None] * len(ops) if kind == 'list' else [s for _, s in case['ops']]
    why_steps = out.get('why_steps') or [[]] * len(ops)
    for i, (op, scope, s) in enumerate(zip(ops, scopes, m['steps'])):
      if scope and not s['complete']:
        partial_allowed = True
      why = why_steps[i] if i < len(why_steps) else []
      if kind != 'list' and not out.get('attached', [True] * len(ops))[i]:
        add('member-detached:%s:%s' % (kind, op[0]),
            'after %s (%s) a symbolic member of the %s no longer has it as parent / its key as path' % (
                json.dumps(op), s['err'] or 'ok', kind))
      if kind != 'list' and (out.get('held_changed') or [False] * len(ops))[i]:
        add('shared-original-mode-changed:assignment',
            '%s: the container offered is a member of another (non-partial) tree; the receiver stored a copy, yet the '
            'original now has allow_partial=True (or left its holder)' % json.dumps(op))
      if kind != 'list' and (out.get('stale_bound') or [False] * len(ops))[i]:
        add('bound-to-rejected-spec:assignment',
            '%s raised %s, yet the untyped container offered stays bound to the field spec that rejected its content' % (
                json.dumps(op), s['err']))
      incomplete = kind != 'list' and not partial_allowed and not s['complete']
      bad = (not s['conforms']) or incomplete
      # a violation is attributed to the step that introduces it (the state stays bad afterwards)
      if bad and not bad_before:
        if not s['conforms'] and 'frozen-value-differs' in why:
          add('frozen-value-differs:%s:%s' % (kind, op[0]),
              'after %s a frozen member of the %s does not hold its frozen value: %s (spec %s)' % (
                  json.dumps(op), kind, json.dumps(s['items']), json.dumps(st)))
        elif 'nested-required-field-missing' in why:
          add('nested-required-field-missing:%s:%s' % (kind, op[0]),
              'after %s the %s (never made partial) holds a member with a missing required field at depth >= 2: %s' % (
                  json.dumps(op), kind, json.dumps(s['items'])))
        elif not s['conforms']:
          if kind == 'list':
            mn, mx = st[2], st[3]
            size_bad = len(s['items']) < mn or (mx is not None and len(s['items']) > mx)
            sig = ('size-out-of-bounds:' if size_bad else 'member-rejected-by-spec:') + op[0]
          else:
            sig = 'member-rejected-by-spec:%s:%s' % (kind, op[0])
            t = self.typed_cause(case, op, s)
            if t:
              sig = 'typed-container-trusted:' + t
          add(sig, 'after %s the %s %s violates its spec %s' % (
              json.dumps(op), kind, json.dumps(s['items']), json.dumps(st)))
        elif op[0] == 'rebind_paths' and (case.get('build_scope') or any(sc for sc in scopes[:i])):
          # written through a NESTED container that was created while a pg.allow_partial(True) scope was active
          add('scope-partial-mode-kept:%s' % kind,
              'after %s (outside any scope) a nested container created inside a pg.allow_partial(True) scope still '
              'accepts MISSING_VALUE: %s' % (json.dumps(op), json.dumps(s['items'])))
        else:
          add('required-field-missing:%s:%s' % (kind, op[0]),
              'after %s (never partial) a required field is missing: %s' % (json.dumps(op), json.dumps(s['items'])))
      bad_before = bad
      if (kind == 'list' and op[0] in ('extend', 'iadd', 'extend_iter', 'iadd_iter') and s['err'] == 'ValueError'
          and s['items'] != prev and self.all_elements_ok(case, op[1])):
        # every offered element is acceptable, so the call was refused for the size: nothing may be stored
        add('rejected-write-stored:list:' + op[0],
            '%s raised %s for the size (every offered element is acceptable) but the list changed from %s to %s' % (
                json.dumps(op), s['err'], json.dumps(prev), json.dumps(s['items'])))
      if s['err'] in SCHEMA_ERRS + ('WritePermissionError',):
        batch = op[0] in ('extend', 'iadd', 'extend_iter', 'iadd_iter', 'imul', 'setslice', 'rebind', 'update', 'ior', 'rebind_paths')
        if not batch and s['items'] != prev:
          add('rejected-write-stored:%s:%s' % (kind, op[0]),
              '%s raised %s but the %s changed from %s to %s' % (
                  json.dumps(op), s['err'], kind, json.dumps(prev), json.dumps(s['items'])))
      prev = s['items']

  def all_elements_ok(self, case, values):
    try:
      elem = tv.build(case['spec']).element.value
    except Exception:   # pylint: disable=broad-except
      return False
    return all(v != ['M'] and member_ok(elem, canon(self.norm_elem(elem, v)), False) for v in values)

  @staticmethod
  def norm_elem(elem, v):
    """The element as `apply` stores it (int -> float conversion), so that member_ok compares like with like."""
    try:
      return tv.from_py(elem.apply(tv.to_py(v)))
    except (TypeError, ValueError, KeyError):
      return v

  def typed_cause(self, case, op, step):
    """If the violating member was written as an already typed container whose spec the field
    declared compatible, the C04 class of that (unsound) compatibility verdict."""
    from harness import c04
    args = []
    if op[0] in ('setitem', 'setattr', 'setdefault'):
      args = [(op[1], op[2])]
    elif op[0] in ('update', 'ior', 'rebind'):
      args = [(k, v) for k, v in op[1]]
    fields = {f[0][1]: f[1] for f in case['spec']['fields'] if f[0][0] == 'c'}
    for k, a in args:
      if a and a[0] == 'held':
        a = ['typed', a[1], False, a[2]]
      if a and a[0] == 'typed' and k in fields:
        dst = tv.readback(tv.build(fields[k]))
        src = tv.readback(tv.build(a[1]))
        cands = [dst] + (dst[1] if dst[0] == 'union' else [])
        for d in cands:
          if d[0] == src[0]:
            cls = c04.PROP.classify(d, src, a[3])
            if ('<-' in cls or cls == 'missing-into-frozen') and (c04.dict_default_gap(d, src) or c04.dict_default_gap(src, d)):
              cls = 'dict-field-default-ignored'   # compatibility does not look at field defaults (C04 F42)
            if ('<-' in cls or cls == 'missing-into-frozen') and member_ok(tv.build(c04.strip_rx(fields[k])), canon(a[3]), True):
              cls = 'str-regex-ignored'      # is_compatible documents that it ignores Str regexes
            return cls
    return None

  def nontrivial(self, case, out):
    m = out['model']
    if isinstance(m['construct'], str):
      return False
    errs = [s['err'] for s in m['steps']]
    return any(e is None for e in errs) and any(e is not None for e in errs)

  def describe(self, case, out):
    case = self.normalise(case)
    m = out['model']
    kind = case['kind']
    h = ['kind:' + kind]
    if kind == 'list':
      h.append('elem:' + case['spec']['elem']['k'])
    else:
      for _, fd in case['spec']['fields']:
        h.append('field:' + tv.kind_path(fd))
      h.append('partial:%s' % case['partial'])
    if isinstance(m['construct'], str):
      return h + ['construct:' + m['construct']]
    h.append('construct:ok')
    ops = case['ops'] if kind == 'list' else [o for o, _ in case['ops']]
    for op, s in zip(ops, m['steps']):
      h.append('%s.%s:%s' % (kind, op[0], s['err'] or 'ok'))
    return h

  def shrink_candidates(self, case):
    ops = case['ops']
    for i in range(len(ops)):
      yield dict(case, ops=ops[:i] + ops[i + 1:])
    if len(ops) > 1:
      yield dict(case, ops=ops[:len(ops) // 2])
    for i in range(len(case['items'])):
      yield dict(case, items=case['items'][:i] + case['items'][i + 1:])


PROP = C03()
