"""C03 — schema invariant of a typed pg.List: generator, implementation runner, oracle.

Case shape: {"spec": <list spec description (harness/typing_vocab.py)>, "items": [<value>...],
             "ops": [["append", v] | ["insert", i, v] | ["setitem", i, v] | ["delitem", i] | ["pop", i]
                     | ["remove", v] | ["extend", [v...]] | ["clear"]]}

Implementation observables (public API only): pg.List(items, value_spec=...) or its exception class,
after every mutating call the exception class (if any) and the list content; the element spec
re-applied to every stored member; len(list) against the spec bounds.
"""

import copy
import json

from harness.common.framework import Prop
from harness import typing_vocab as tv

SCHEMA_ERRS = ('TypeError', 'ValueError', 'KeyError')


def run_op(lst, op):
  k = op[0]
  if k == 'append':
    lst.append(tv.to_py(op[1]))
  elif k == 'insert':
    lst.insert(op[1], tv.to_py(op[2]))
  elif k == 'setitem':
    lst[op[1]] = tv.to_py(op[2])
  elif k == 'delitem':
    del lst[op[1]]
  elif k == 'pop':
    lst.pop(op[1])
  elif k == 'remove':
    lst.remove(tv.to_py(op[1]))
  elif k == 'extend':
    lst.extend([tv.to_py(v) for v in op[1]])
  elif k == 'clear':
    lst.clear()
  else:
    raise ValueError(k)


class C03(Prop):
  id = 'C03'
  props_modules = ['PgProps.C03']
  driver = 'drv_c03'
  translators = []
  case_timeout_s = 20
  rule = ('typed pg.List over List(elem, min_size, max_size) with elem from int/float ranges, str, bool, enum '
          '(noneable / default / frozen flags); initial items valid by construction (10 % invalid); histories of '
          '1-8 mutating calls (append, insert, setitem, delitem, pop, remove, extend, clear), about half of '
          'the written values invalid (wrong type, out of range) and sizes steered to the bounds. '
          'Non-trivial: construction succeeds and at least one call succeeds and one is rejected or hits a bound; '
          'distinct: by the whole case.')
  trusted_base = [
      'modelled, not verified: construction and 8 mutators of a typed pg.List (tied by correspondence); the '
      'value-spec model of C04 underneath',
      'outside the model: typed pg.Dict / pg.Object, slice assignment, rebind, symbolic element values, '
      'allow_partial scopes, type-check off',
  ]
  assumptions = ['element values are atoms (no nested symbolic values); int indices']

  def generate(self, rng, tier):
    self.setup_impl()
    n = 500 if tier == 'quick' else 12000
    g = tv.SpecGen(rng)
    made = 0
    while made < n:
      elem = None
      while elem is None or elem['k'] not in ('int', 'float', 'str', 'bool', 'enum'):
        elem = g.spec(0)
      mn, mx = g.sizes()
      spec = {'k': 'list', 'elem': elem, 'mn': mn, 'mx': mx, 'n': 0}
      try:
        tv.build(spec)
      except (TypeError, ValueError, KeyError):
        continue
      lo = mn or 0
      hi = mx if mx is not None else lo + 3
      size = rng.randint(lo, max(lo, hi))
      if rng.chance(0.1):
        size = rng.choice([max(0, lo - 1), hi + 1])
      items = [g.valid(elem) for _ in range(size)]
      if rng.chance(0.1) and items:
        items[rng.below(len(items))] = g.near_miss(elem)
      ops = []
      length = size
      for _ in range(rng.randint(1, 8)):
        v = g.valid(elem) if rng.chance(0.55) else g.near_miss(elem)
        k = rng.weighted([(3, 'append'), (2, 'insert'), (3, 'setitem'), (2, 'delitem'), (2, 'pop'), (1, 'remove'),
                          (2, 'extend'), (1, 'clear')])
        if k == 'append':
          ops.append(['append', v])
        elif k == 'insert':
          ops.append(['insert', rng.randint(0, max(length, 0)), v])
        elif k == 'setitem':
          ops.append(['setitem', rng.randint(-length - 1, length), v])
        elif k in ('delitem', 'pop'):
          ops.append([k, rng.randint(-length - 1, length)])
        elif k == 'remove':
          ops.append(['remove', copy.deepcopy(rng.choice(items)) if items and rng.chance(0.7) else v])
        elif k == 'extend':
          ops.append(['extend', [g.valid(elem) if rng.chance(0.8) else g.near_miss(elem) for _ in range(rng.randint(0, 3))]])
        else:
          ops.append(['clear'])
      made += 1
      yield {'spec': spec, 'items': items, 'ops': ops}

  def model_request(self, case):
    self.setup_impl()
    try:
      st = tv.readback(tv.build(case['spec']))
    except (TypeError, ValueError, KeyError):
      return None
    vals = list(case['items'])
    for op in case['ops']:
      for a in op[1:]:
        if isinstance(a, list) and a and isinstance(a[0], str):
          vals.append(a)
        elif isinstance(a, list):
          vals += a
    return {'op': 'list', 'spec': st, 'items': case['items'], 'ops': case['ops'],
            'env': tv.env_for([st], vals)}

  def impl(self, case):
    import pyglove as pg
    spec = tv.build(case['spec'])
    st = tv.readback(spec)
    out = {'state': st}

    def conforms(lst):
      ok = True
      for x in lst:
        try:
          y = spec.element.value.apply(copy.deepcopy(x))
          if tv.from_py(y) != tv.from_py(x):
            ok = False
        except (TypeError, ValueError, KeyError):
          ok = False
      if len(lst) < spec.min_size or (spec.max_size is not None and len(lst) > spec.max_size):
        ok = False
      return ok

    try:
      lst = pg.List([tv.to_py(v) for v in case['items']], value_spec=spec)
    except (TypeError, ValueError, KeyError) as e:
      out['model'] = {'construct': type(e).__name__, 'steps': []}
      return out
    m = {'construct': tv.from_py(lst)[1], 'conforms': conforms(lst), 'steps': []}
    for op in case['ops']:
      err = None
      try:
        run_op(lst, op)
      except (TypeError, ValueError, KeyError, IndexError) as e:
        err = type(e).__name__
      m['steps'].append({'err': err, 'items': tv.from_py(lst)[1], 'conforms': conforms(lst)})
    out['model'] = m
    return out

  def oracle(self, case, out):
    m = out['model']
    if isinstance(m['construct'], str):
      if m['construct'] not in SCHEMA_ERRS:
        return {'signature': 'construct-error-class:' + m['construct'], 'what': 'constructor raised ' + m['construct']}
      return None
    st = out['state']
    mn, mx = st[2], st[3]
    if not m['conforms']:
      return {'signature': 'construct-nonconforming', 'what': 'constructed list %s violates %s' % (json.dumps(m['construct']), json.dumps(st))}
    prev = m['construct']
    for op, s in zip(case['ops'], m['steps']):
      if not s['conforms']:
        size_bad = len(s['items']) < mn or (mx is not None and len(s['items']) > mx)
        sig = ('size-out-of-bounds:' if size_bad else 'member-rejected-by-spec:') + op[0]
        return {'signature': sig, 'what': 'after %s the list %s violates its spec %s' % (
            json.dumps(op), json.dumps(s['items']), json.dumps(st))}
      if s['err'] in SCHEMA_ERRS:
        if op[0] == 'extend':
          k = len(s['items']) - len(prev)
          if k < 0 or s['items'][:len(prev)] != prev:
            return {'signature': 'rejected-batch-changed-prefix', 'what': 'failed extend changed existing items'}
        elif s['items'] != prev:
          return {'signature': 'rejected-write-stored:' + op[0], 'what': '%s raised %s but the list changed from %s to %s' % (
              json.dumps(op), s['err'], json.dumps(prev), json.dumps(s['items']))}
      prev = s['items']
    return None

  def nontrivial(self, case, out):
    m = out['model']
    if isinstance(m['construct'], str):
      return False
    errs = [s['err'] for s in m['steps']]
    return any(e is None for e in errs) and any(e is not None for e in errs)

  def describe(self, case, out):
    m = out['model']
    h = ['elem:' + case['spec']['elem']['k']]
    if isinstance(m['construct'], str):
      return h + ['construct:' + m['construct']]
    h.append('construct:ok')
    for op, s in zip(case['ops'], m['steps']):
      h.append('%s:%s' % (op[0], s['err'] or 'ok'))
    return h

  def shrink_candidates(self, case):
    ops = case['ops']
    for i in range(len(ops)):
      yield dict(case, ops=ops[:i] + ops[i + 1:])
    if len(ops) > 1:
      yield dict(case, ops=ops[:len(ops) // 2])
    for i in range(len(case['items'])):
      yield dict(case, items=case['items'][:i] + case['items'][i + 1:])


PROP = C03()
