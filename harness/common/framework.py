"""The check pipeline shared by all properties (DESIGN.md §4).

A property module (harness/cXX.py) defines a subclass of `Prop`; `run_check` then performs
  0. replay of the witnesses of known / fixed findings on the real code,
  1. translate (regenerate lean/PgGen tables from /repo's working tree),
  2. prove  (lake build of the property theorems and of the driver),
  3. audit  (axioms of every property theorem, forbidden tokens),
  4. correspond (model driver vs. implementation on corpus + generated cases),
  5. oracle (the property itself on the implementation's outputs),
  6. classify / search (on a broken proof or tie: look for a concrete failing input),
  7. verdict + evidence.
Exit codes: 0 held, 1 violation (a `VIOLATION property=… replay=…` line is printed),
2 infrastructure failure (never a verdict).
"""

import fcntl
import json
import multiprocessing
import os
import re
import signal
import subprocess
import sys
import time
import traceback

from . import prng

VERIF = os.path.dirname(os.path.dirname(os.path.dirname(os.path.abspath(__file__))))
REPO = os.environ.get('VERIF_REPO', '/repo')
LEAN_DIR = os.path.join(VERIF, 'lean')
ALLOWED_AXIOMS = {'propext', 'Classical.choice', 'Quot.sound'}
FORBIDDEN = re.compile(
    r'\b(sorry|admit|native_decide|bv_decide|implemented_by|unsafe)\b|^\s*axiom\s|maxHeartbeats\s+0\b')

os.environ.setdefault('PYGLOVE_VERIF', '1')     # the guard named in MANIFEST.hooks (no hook uses it yet)


class InfraError(Exception):
  """Infrastructure failure: exit 2, never a verdict."""


class CaseTimeout(BaseException):
  """Raised by the per-case watchdog. A BaseException so that a harness's own `except Exception`
  around library calls cannot mistake it for an outcome of the library."""


# ------------------------------------------------------------------------------------------
# Property interface
# ------------------------------------------------------------------------------------------

class Prop:
  """Interface of a property module. Cases and outputs are JSON-serialisable values."""

  id = 'C00'
  props_modules = []        # Lean modules holding the property theorems, e.g. ['PgProps.C19']
  driver = None             # lake exe name of the model driver, e.g. 'drv_c19'
  translators = []          # callables () -> dict ; raise translate.common.TranslatorError
  case_timeout_s = 20
  jobs_quick = 4
  jobs_thorough = 14
  trusted_base = []         # property-specific entries appended to the evidence
  assumptions = []

  # -- generation -------------------------------------------------------------------------
  def corpus(self):
    """Minimised past disagreements / failures; always run first."""
    path = os.path.join(VERIF, 'harness', 'corpus', self.id + '.jsonl')
    out = []
    if os.path.exists(path):
      with open(path) as f:
        for line in f:
          line = line.strip()
          if line and not line.startswith('#'):
            out.append(json.loads(line))
    return out

  def generate(self, rng, tier):
    """Yields cases (dicts). Deterministic in rng."""
    raise NotImplementedError

  def search_cases(self, rng, tier, broken):
    """Cases for the failing-input search after a broken proof/tie (bigger budget, biased by
    the names in `broken`). Default: a fresh, larger sample of the ordinary generator."""
    for _ in range(4 if tier == 'quick' else 2):
      yield from self.generate(rng.fork(), tier)

  # -- execution --------------------------------------------------------------------------
  def setup_impl(self):
    """Called once per worker process before impl() (imports pyglove from REPO)."""
    if REPO not in sys.path:
      sys.path.insert(0, REPO)

  def impl(self, case):
    """Runs the real implementation on `case`; returns its canonicalised observables."""
    raise NotImplementedError

  def model_request(self, case):
    """The JSON value sent to the Lean driver for this case (None: case has no model part)."""
    return case

  def model_request_with_impl(self, case, impl_out):
    """Model request when it needs the implementation's output (e.g. a recorded randomness
    oracle). Default: model_request(case)."""
    return self.model_request(case)

  def compare(self, case, impl_out, model_out):
    """None if model and implementation agree on this case, else a short description."""
    a = self.project_impl(case, impl_out)
    if a is None:
      return None
    if a != model_out:
      return 'impl=%s model=%s' % (json.dumps(a, sort_keys=True)[:400],
                                   json.dumps(model_out, sort_keys=True)[:400])
    return None

  def project_impl(self, case, impl_out):
    """The part of impl_out that the model predicts (default: impl_out['model'] if present)."""
    if isinstance(impl_out, dict) and 'model' in impl_out:
      return impl_out['model']
    return impl_out

  def oracle(self, case, impl_out):
    """The property itself on the implementation's output. None if it holds; else
    {'signature': str, 'what': str, ...}."""
    return None

  def nontrivial(self, case, impl_out):
    """Is this case non-trivial (counted in distinct_nontrivial)?"""
    return True

  def shrink_candidates(self, case):
    """Yields smaller variants of a failing case (greedy delta debugging)."""
    return []

  def describe(self, case, impl_out):
    """Histogram keys this case contributes to (input distribution in the evidence)."""
    return []

  def extra_checks(self, ctx):
    """Hook for property-specific steps (e.g. translator cross-checks against behaviour).
    May append to ctx.broken / ctx.violations / ctx.coverage."""


# ------------------------------------------------------------------------------------------
# Lean side
# ------------------------------------------------------------------------------------------

class BuildLock:
  def __enter__(self):
    self.f = open(os.path.join(LEAN_DIR, '.build.lock'), 'w')
    fcntl.flock(self.f, fcntl.LOCK_EX)
    return self

  def __exit__(self, *a):
    fcntl.flock(self.f, fcntl.LOCK_UN)
    self.f.close()


def _run(cmd, cwd=None, timeout=3600, input_text=None):
  env = dict(os.environ)
  p = subprocess.run(cmd, cwd=cwd, env=env, input=input_text, capture_output=True, text=True,
                     timeout=timeout)
  return p.returncode, p.stdout, p.stderr


def lake_build(targets, timeout=3000):
  """Returns (ok, errors) where errors is a list of {'file','line','msg','decl'}."""
  if not targets:
    return True, [], ''
  try:
    rc, out, err = _run(['lake', 'build'] + list(targets), cwd=LEAN_DIR, timeout=timeout)
  except FileNotFoundError as e:
    raise InfraError('lake not found: %s' % e)
  except subprocess.TimeoutExpired:
    raise InfraError('lake build timed out')
  text = out + '\n' + err
  errors = []
  if rc != 0:
    for m in re.finditer(r'^error: ([\w/\.]+\.lean):(\d+):(\d+): (.*(?:\n(?!error:|warning:|✖|✔|ℹ|⚠|info:|trace:|Some required).*)*)',
                         text, re.M):
      f, line, _, msg = m.group(1), int(m.group(2)), m.group(3), m.group(4)
      errors.append({'file': f, 'line': line, 'msg': msg.strip()[:600],
                     'decl': enclosing_decl(os.path.join(LEAN_DIR, f), line)})
    if not errors:
      # Could not attribute: infrastructure trouble (missing toolchain, lock, ...).
      tail = '\n'.join(text.strip().splitlines()[-15:])
      if 'error' not in text:
        raise InfraError('lake build failed without a Lean error:\n' + tail)
      errors.append({'file': '?', 'line': 0, 'msg': tail[:800], 'decl': '?'})
  return rc == 0, errors, text


_DECL = re.compile(r'^\s*(?:@\[[^\]]*\]\s*)*(?:private\s+|protected\s+)?(theorem|lemma|def|example|instance|abbrev|inductive|structure)\s+([^\s:(\[{]+)?')


def enclosing_decl(path, line):
  try:
    with open(path, encoding='utf-8') as f:
      lines = f.read().split('\n')
  except OSError:
    return '?'
  for i in range(min(line, len(lines)) - 1, -1, -1):
    m = _DECL.match(lines[i])
    if m:
      return '%s %s' % (m.group(1), m.group(2) or '<anonymous>')
  return '?'


def strip_lean_comments(src):
  """Removes /- -/ (nested) and -- comments and string literals."""
  out = []
  i, n, depth = 0, len(src), 0
  while i < n:
    if src.startswith('/-', i):
      depth += 1
      i += 2
    elif depth and src.startswith('-/', i):
      depth -= 1
      i += 2
    elif depth:
      if src[i] == '\n':
        out.append('\n')
      i += 1
    elif src.startswith('--', i):
      while i < n and src[i] != '\n':
        i += 1
    elif src[i] == '"':
      i += 1
      while i < n and src[i] != '"':
        i += 2 if src[i] == '\\' else 1
      i += 1
      out.append('""')
    else:
      out.append(src[i])
      i += 1
  return ''.join(out)


def forbidden_tokens(modules):
  """Greps the sources of the given modules and everything they import from this project."""
  hits = []
  seen = set()
  todo = list(modules)
  while todo:
    m = todo.pop()
    if m in seen:
      continue
    seen.add(m)
    path = os.path.join(LEAN_DIR, m.replace('.', '/') + '.lean')
    if not os.path.exists(path):
      continue
    with open(path, encoding='utf-8') as f:
      src = f.read()
    for imp in re.findall(r'^import\s+(\S+)', src, re.M):
      if imp.split('.')[0] in ('PgModel', 'PgGen', 'PgProofs', 'PgProps'):
        todo.append(imp)
    for ln, text in enumerate(strip_lean_comments(src).split('\n'), 1):
      mm = FORBIDDEN.search(text)
      if mm:
        hits.append('%s:%d: %s' % (os.path.relpath(path, LEAN_DIR), ln, mm.group(0).strip()))
  return hits, sorted(seen)


def audit(modules):
  """Runs `#audit_module` for every props module. Returns list of (theorem, axioms)."""
  os.makedirs(os.path.join(LEAN_DIR, '.audit'), exist_ok=True)
  results = []
  for m in modules:
    path = os.path.join(LEAN_DIR, '.audit', m.replace('.', '_') + '.lean')
    with open(path, 'w') as f:
      f.write('import PgAudit.Tool\nimport %s\n#audit_module %s\n' % (m, m))
    rc, out, err = _run(['lake', 'env', 'lean', path], cwd=LEAN_DIR, timeout=1200)
    text = out + err
    if rc != 0 and 'AUDIT-COUNT' not in text:
      raise InfraError('audit of %s failed:\n%s' % (m, text[-1500:]))
    count = None
    for line in text.split('\n'):
      mm = re.search(r'AUDIT ([^\s]+) : \[(.*)\]', line)
      if mm:
        axs = [a.strip() for a in mm.group(2).split(',') if a.strip()]
        results.append((mm.group(1), axs))
      mm = re.search(r'AUDIT-COUNT (\d+)', line)
      if mm:
        count = int(mm.group(1))
    if count is None:
      raise InfraError('audit of %s produced no count:\n%s' % (m, text[-1500:]))
  return results


def count_theorems_in_source(modules):
  """Theorems declared in the props sources (used when the build is broken)."""
  names = []
  for m in modules:
    path = os.path.join(LEAN_DIR, m.replace('.', '/') + '.lean')
    with open(path, encoding='utf-8') as f:
      src = strip_lean_comments(f.read())
    names += re.findall(r'^\s*(?:private\s+)?theorem\s+([^\s:(\[{]+)', src, re.M)
  return names


class Driver:
  """A Lean model driver process (JSON lines in, JSON lines out)."""

  def __init__(self, exe):
    self.path = os.path.join(LEAN_DIR, '.lake', 'build', 'bin', exe)

  def run(self, requests, timeout=3000):
    if not requests:
      return []
    data = '\n'.join(json.dumps(r, ensure_ascii=True) for r in requests) + '\n'
    try:
      p = subprocess.run([self.path], input=data, capture_output=True, text=True, timeout=timeout)
    except (OSError, subprocess.TimeoutExpired) as e:
      raise InfraError('driver %s: %s' % (self.path, e))
    lines = [l for l in p.stdout.split('\n') if l.strip()]
    if p.returncode != 0 or len(lines) != len(requests):
      raise InfraError('driver %s: rc=%s, %d answers for %d requests; stderr: %s' % (
          self.path, p.returncode, len(lines), len(requests), p.stderr[-800:]))
    outs = []
    for l in lines:
      o = json.loads(l)
      if isinstance(o, dict) and ('driver_error' in o or 'bad_request' in o):
        raise InfraError('driver %s rejected a request: %s' % (self.path, l[:300]))
      outs.append(o)
    return outs


# ------------------------------------------------------------------------------------------
# Implementation side (worker pool with per-case watchdog)
# ------------------------------------------------------------------------------------------

_WORKER_PROP = None


def _alarm(signum, frame):
  raise CaseTimeout()


def _worker_init(prop):
  global _WORKER_PROP
  _WORKER_PROP = prop
  prop.setup_impl()


_TAINTED = False      # this worker aborted a case asynchronously: its process state is suspect


def _run_one_retry(case):
  return _run_one(case, scale=5)


def _run_one(case, scale=1):
  global _TAINTED
  prop = _WORKER_PROP
  if _TAINTED:
    # The time-out signal interrupted an earlier case at an arbitrary point (possibly inside a
    # context manager of the library): nothing this process observes afterwards is believed.
    # The case is handed back and run again in a fresh worker.
    return {'timeout': True, 'tainted': True}
  # The watchdog counts CPU time of this process (ITIMER_PROF), so that a loaded machine cannot
  # turn a slow case into a spurious time-out; a much longer wall-clock limit catches blocking.
  signal.signal(signal.SIGPROF, _alarm)
  signal.signal(signal.SIGALRM, _alarm)
  signal.setitimer(signal.ITIMER_PROF, prop.case_timeout_s * scale)
  signal.setitimer(signal.ITIMER_REAL, max(20 * prop.case_timeout_s, 300) * scale)
  try:
    out = prop.impl(case)
  except CaseTimeout:
    _TAINTED = True
    out = {'timeout': True}
  except Exception as e:
    frames = traceback.extract_tb(e.__traceback__)
    lib = [f for f in frames if f.filename.startswith(os.path.join(REPO, 'pyglove'))]
    if lib:
      # raised inside the library and not anticipated by the harness: an implementation outcome
      # (reported by the oracle step as a failure of the property), not an infrastructure error
      out = {'impl_exception': type(e).__name__, 'message': str(e)[:300],
             'where': '%s:%d' % (os.path.relpath(lib[-1].filename, REPO), lib[-1].lineno)}
    else:                    # a harness bug, not an implementation outcome
      out = {'harness_exception': '%s: %s' % (type(e).__name__, e),
             'trace': traceback.format_exc()[-1500:]}
  finally:
    signal.setitimer(signal.ITIMER_PROF, 0)
    signal.setitimer(signal.ITIMER_REAL, 0)
  return out


def run_impl(prop, cases, jobs):
  global _TAINTED
  if jobs <= 1 or len(cases) < 32:
    _worker_init(prop)
    _TAINTED = False
    outs = []
    for c in cases:
      outs.append(_run_one(c))
      _TAINTED = False        # sequential mode (replays, shrinking): one process, best effort
    return outs
  ctx = multiprocessing.get_context('fork')
  with ctx.Pool(jobs, initializer=_worker_init, initargs=(prop,)) as pool:
    outs = pool.map(_run_one, cases, chunksize=max(1, len(cases) // (jobs * 8)))
  # A time-out is only believed after a second, unhurried attempt: the first case of a worker pays
  # for the library import, a heavily loaded machine inflates CPU time as well, and whatever a
  # worker ran AFTER a time-out is not believed at all (see _TAINTED). Cases handed back by a
  # tainted worker are run again in fresh workers; cases that really timed out are run again,
  # each in a process of its own, with five times the budget. A genuine hang still times out.
  for _ in range(4):
    tainted = [i for i, o in enumerate(outs) if isinstance(o, dict) and o.get('tainted')]
    if not tainted:
      break
    with ctx.Pool(min(jobs, len(tainted)), initializer=_worker_init, initargs=(prop,)) as pool:
      redo = pool.map(_run_one, [cases[i] for i in tainted],
                      chunksize=max(1, len(tainted) // (jobs * 8)))
    for i, o in zip(tainted, redo):
      outs[i] = o
  late = [i for i, o in enumerate(outs) if isinstance(o, dict) and o.get('timeout')]
  if 0 < len(late) <= 200:
    with ctx.Pool(min(jobs, len(late), 4), initializer=_worker_init, initargs=(prop,),
                  maxtasksperchild=1) as pool:
      redo = pool.map(_run_one_retry, [cases[i] for i in late], chunksize=1)
    for i, o in zip(late, redo):
      outs[i] = o
  return outs


# ------------------------------------------------------------------------------------------
# Findings
# ------------------------------------------------------------------------------------------

def load_findings(prop_id):
  """findings/known_findings.json plus (while a property is under construction) findings/<id>.json."""
  entries = []
  for name in ('known_findings.json', prop_id + '.json'):
    path = os.path.join(VERIF, 'findings', name)
    if os.path.exists(path):
      with open(path) as f:
        entries += json.load(f)['findings']
  return [e for e in entries if e['property'] == prop_id]


def signature_matches(entry, sig):
  pats = entry.get('signature', '')
  return any(sig == p for p in pats.split('|'))


# ------------------------------------------------------------------------------------------
# The run
# ------------------------------------------------------------------------------------------

class Ctx:
  def __init__(self, prop, tier, seed):
    self.prop, self.tier, self.seed = prop, tier, seed
    self.broken = []          # [{'kind': 'theorem'|'translator'|'audit'|'correspondence', 'name', 'detail'}]
    self.violations = []      # [{'case', 'failure', 'impl_out', 'model_out'}]
    self.known_hits = {}      # finding id -> count of generated cases that hit it
    self.coverage = {}
    self.notices = []
    self.lines = []

  def say(self, s):
    print(s, flush=True)


def _replay_path(prop_id, seed, n):
  os.makedirs(os.path.join(VERIF, 'replays'), exist_ok=True)
  return os.path.join('replays', '%s-%s-%d.json' % (prop_id, seed, n))


def check_case(prop, case):
  """Runs one case on the implementation and evaluates the oracle. Returns (impl_out, failure)."""
  _worker_init(prop)
  out = _run_one(case)
  if isinstance(out, dict) and out.get('harness_exception'):
    raise InfraError('harness exception on witness: %s\n%s' % (out['harness_exception'], out.get('trace')))
  if isinstance(out, dict) and out.get('timeout'):
    return out, {'signature': 'timeout', 'what': 'implementation did not return within %ss' % prop.case_timeout_s}
  if isinstance(out, dict) and out.get('impl_exception'):
    return out, {'signature': 'unexpected-exception:%s' % out['impl_exception'],
                 'what': 'the library raised %s (%s) at %s' % (out['impl_exception'], out.get('message'), out.get('where'))}
  return out, prop.oracle(case, out)


def shrink(prop, case, sig, budget=200, wall_s=30):
  """Greedy shrinking: keep a candidate if it still fails with the same signature."""
  cur = case
  improved = True
  t_end = time.time() + wall_s
  while improved and budget > 0 and time.time() < t_end:
    improved = False
    for cand in prop.shrink_candidates(cur):
      budget -= 1
      if budget <= 0 or time.time() > t_end:
        break
      try:
        _, fail = check_case(prop, cand)
      except InfraError:
        continue
      if fail and fail.get('signature') == sig:
        cur = cand
        improved = True
        break
  return cur


def run_check(prop, tier, seed):
  t0 = time.time()
  ctx = Ctx(prop, tier, seed)
  rng = prng.Rng(seed)
  findings = load_findings(prop.id)
  known = [f for f in findings if f.get('status') == 'known']
  fixed = [f for f in findings if f.get('status') == 'fixed']

  # 1-3. translate, prove, audit ---------------------------------------------------------
  theorems, discharged = [], 0
  driver_ok = prop.driver is None
  with BuildLock():
    from translate.common import TranslatorError
    tr_info = []
    for tr in prop.translators:
      try:
        info = tr()
        tr_info.append({'translator': tr.__module__, 'sources': info.get('sidecar', {}).get('sources', {})})
      except TranslatorError as e:
        ctx.broken.append({'kind': 'translator', 'name': tr.__module__, 'detail': str(e)})
    ok, errors, _ = lake_build(prop.props_modules)
    if not ok:
      for e in errors:
        ctx.broken.append({'kind': 'theorem', 'name': e['decl'],
                           'detail': '%s:%s: %s' % (e['file'], e['line'], e['msg'])})
    if prop.driver:
      dok, derrors, _ = lake_build([prop.driver])
      driver_ok = dok
      if not dok and ok:
        for e in derrors:
          ctx.broken.append({'kind': 'driver', 'name': e['decl'],
                             'detail': '%s:%s: %s' % (e['file'], e['line'], e['msg'])})
    if ok:
      res = audit(prop.props_modules)
      theorems = [n for n, _ in res]
      for name, axs in res:
        bad = [a for a in axs if a not in ALLOWED_AXIOMS]
        if bad:
          ctx.broken.append({'kind': 'audit', 'name': name, 'detail': 'axioms: %s' % bad})
        else:
          discharged += 1
    else:
      theorems = count_theorems_in_source(prop.props_modules)
      broken_names = {b['name'].split(' ', 1)[-1] for b in ctx.broken if b['kind'] == 'theorem'}
      # Lean recovers after an error, so the other theorems of the module were still elaborated
      # and kernel-checked in this run; count those, not the broken ones.
      discharged = max(0, len(theorems) - len(broken_names))
      ctx.coverage['broken_declarations'] = sorted(broken_names)
    if ok and tier == 'thorough':
      # independent re-check of the compiled property modules
      rc, out, err = _run(['lake', 'env', 'leanchecker'] + list(prop.props_modules), cwd=LEAN_DIR, timeout=3000)
      ctx.coverage['leanchecker'] = 'exit %d' % rc
      if rc != 0:
        ctx.broken.append({'kind': 'audit', 'name': 'leanchecker', 'detail': (out + err)[-600:]})
    hits, modules_seen = forbidden_tokens(prop.props_modules)
    for h in hits:
      ctx.broken.append({'kind': 'audit', 'name': 'forbidden-token', 'detail': h})

  # 0. replay the witnesses of all listed findings --------------------------------------
  for f in findings:
    if 'witness' not in f:
      continue
    out, fail = check_case(prop, f['witness'])
    if f['status'] == 'known':
      if fail and signature_matches(f, fail['signature']):
        ctx.say('KNOWN-FINDING: property=%s %s: %s' % (prop.id, f['id'], f['what_fails']))
      elif fail:
        ctx.violations.append({'case': f['witness'], 'failure': fail, 'impl_out': out,
                               'note': 'witness of %s now fails differently' % f['id']})
      else:
        ctx.notices.append('NOTICE: witness of known finding %s no longer fails; the defect seems '
                           'repaired — move the entry to fixed' % f['id'])
    elif f['status'] == 'fixed' and fail:
      fail = dict(fail)
      fail['what'] = 'REGRESSION of %s (fixed in %s): %s' % (f['id'], f.get('commit', '?'), fail.get('what'))
      ctx.violations.append({'case': f['witness'], 'failure': fail, 'impl_out': out})

  # 4-5. correspondence and oracle --------------------------------------------------------
  jobs = prop.jobs_quick if tier == 'quick' else prop.jobs_thorough
  jobs = int(os.environ.get('VERIF_JOBS', jobs))
  corpus = prop.corpus()
  cases = corpus + list(prop.generate(rng.fork(), tier))
  stats = _evaluate(ctx, prop, cases, jobs, driver_ok, known)

  ctx.stats = stats
  prop.extra_checks(ctx)

  # 6. failing-input search after a broken proof / tie -----------------------------------
  searched = 0
  if ctx.broken and not ctx.violations:
    extra = list(prop.search_cases(rng.fork(), tier, ctx.broken))
    searched = len(extra)
    s2 = _evaluate(ctx, prop, extra, max(jobs, 8), driver_ok, known, search=True)
    for k in ('evaluations',):
      stats[k] += s2[k]

  # 7. verdict --------------------------------------------------------------------------
  for n in ctx.notices:
    ctx.say(n)
  exit_code = 0
  n_replay = 0
  reported = set()
  for v in ctx.violations:
    sig = v['failure'].get('signature')
    if sig in reported:
      continue
    reported.add(sig)
    case = v['case']
    if not v.get('no_shrink'):
      case = shrink(prop, case, sig)
    path = _replay_path(prop.id, seed, n_replay)
    n_replay += 1
    out, fail = check_case(prop, case)
    with open(os.path.join(VERIF, path), 'w') as f:
      json.dump({'property': prop.id, 'kind': 'failing-input', 'seed': seed, 'tier': tier,
                 'input': case, 'signature': sig, 'failure': fail or v['failure'],
                 'observed': out, 'model_output': v.get('model_out'),
                 'broken': ctx.broken,
                 'replay_cmd': './check %s --replay %s' % (prop.id, path)}, f, indent=1, default=str)
    ctx.say('VIOLATION property=%s replay=%s' % (prop.id, path))
    exit_code = 1
  if ctx.broken and not ctx.violations:
    path = _replay_path(prop.id, seed, n_replay)
    with open(os.path.join(VERIF, path), 'w') as f:
      json.dump({'property': prop.id, 'kind': 'broken-' + ctx.broken[0]['kind'], 'seed': seed, 'tier': tier,
                 'broken': ctx.broken, 'searched_cases': searched + len(cases),
                 'first_disagreement': ctx.coverage.get('first_disagreement'),
                 'replay_cmd': './check %s --replay %s' % (prop.id, path)}, f, indent=1, default=str)
    for b in ctx.broken[:6]:
      ctx.say('BROKEN %s %s: %s' % (b['kind'], b['name'], b['detail'][:300].replace('\n', ' ')))
    ctx.say('VIOLATION property=%s replay=%s no-failing-input-found' % (prop.id, path))
    exit_code = 1

  # evidence --------------------------------------------------------------------------
  wall = time.time() - t0
  all_axioms = sorted({a for _, axs in (res if ok else []) for a in axs}) if ok else []
  cov = {
      'obligations': len(theorems),
      'discharged': discharged,
      'checker_cmd': 'cd lean && lake build %s && lake env lean .audit/<module>.lean  # #audit_module: axioms of every theorem' % ' '.join(prop.props_modules),
      'trusted_base': [
          'Lean 4.33.0 kernel',
          'axioms used by the property theorems: %s' % (all_axioms or 'none'),
          'no sorry/admit/native_decide/bv_decide/own axioms (grep over %d project modules + #audit_module)' % len(modules_seen),
      ] + ['translator %s (sources %s)' % (t['translator'], t['sources']) for t in tr_info]
        + list(prop.trusted_base),
      'theorems': theorems,
      'evaluations': stats['evaluations'],
      'distinct_nontrivial': stats['distinct_nontrivial'],
      'rule': getattr(prop, 'rule', ''),
      'samples': stats['samples'],
      'disagreements_checked': stats['compared'],
      'disagreements_found': stats['disagreements'],
      'corpus_cases': len(corpus),
      'known_finding_hits': ctx.known_hits,
      'input_distribution': stats['histogram'],
      'timeouts': stats['timeouts'],
      'broken': ctx.broken,
      'search_cases': searched,
  }
  cov.update(ctx.coverage)
  ev = {
      'property_id': prop.id, 'tier': tier, 'seed': seed, 'level': 'proof',
      'coverage': cov,
      'assumptions': list(prop.assumptions),
      'wall_s': round(wall, 2),
      'violations': len(reported) + (1 if (ctx.broken and not ctx.violations) else 0),
  }
  os.makedirs(os.path.join(VERIF, 'evidence'), exist_ok=True)
  with open(os.path.join(VERIF, 'evidence', prop.id + '.json'), 'w') as f:
    json.dump(ev, f, indent=1, default=str)
    f.write('\n')
  ctx.say('%s %s tier=%s seed=%s: obligations=%d discharged=%d cases=%d compared=%d disagreements=%d '
          'violations=%d wall=%.1fs' % (
              'OK' if exit_code == 0 else 'FAIL', prop.id, tier, seed, cov['obligations'], cov['discharged'],
              stats['evaluations'], stats['compared'], stats['disagreements'], ev['violations'], wall))
  return exit_code


def _evaluate(ctx, prop, cases, jobs, driver_ok, known, search=False):
  stats = {'evaluations': 0, 'distinct_nontrivial': 0, 'samples': [], 'compared': 0,
           'disagreements': 0, 'histogram': {}, 'timeouts': 0}
  if not cases:
    return stats
  impl_outs = run_impl(prop, cases, jobs)
  for c, o in zip(cases, impl_outs):
    if isinstance(o, dict) and o.get('harness_exception'):
      raise InfraError('harness exception: %s\ncase: %s\n%s' % (
          o['harness_exception'], json.dumps(c)[:600], o.get('trace')))
  model_outs = [None] * len(cases)
  if prop.driver and driver_ok:
    reqs, idx = [], []
    for i, c in enumerate(cases):
      io_i = impl_outs[i]
      if isinstance(io_i, dict) and (io_i.get('timeout') or io_i.get('impl_exception')):
        continue
      r = prop.model_request_with_impl(c, io_i)
      if r is not None:
        reqs.append(r)
        idx.append(i)
    outs = Driver(prop.driver).run(reqs)
    for i, o in zip(idx, outs):
      model_outs[i] = o
  seen = set()
  for c, io, mo in zip(cases, impl_outs, model_outs):
    stats['evaluations'] += 1
    if isinstance(io, dict) and io.get('timeout'):
      stats['timeouts'] += 1
      fail = {'signature': 'timeout', 'what': 'implementation did not return within %ss' % prop.case_timeout_s}
    elif isinstance(io, dict) and io.get('impl_exception'):
      fail = {'signature': 'unexpected-exception:%s' % io['impl_exception'],
              'what': 'the library raised %s (%s) at %s on an input the harness expects it to handle' % (
                  io['impl_exception'], io.get('message'), io.get('where'))}
    else:
      fail = prop.oracle(c, io)
      if mo is not None:
        stats['compared'] += 1
        d = prop.compare(c, io, mo)
        if d:
          stats['disagreements'] += 1
          if not any(b['kind'] == 'correspondence' for b in ctx.broken):
            ctx.broken.append({'kind': 'correspondence', 'name': '%s model vs implementation' % prop.id,
                               'detail': d})
            ctx.coverage['first_disagreement'] = {'case': c, 'impl': io, 'model': mo}
    abnormal = isinstance(io, dict) and (io.get('timeout') or io.get('impl_exception'))
    key = json.dumps(c, sort_keys=True)
    if not abnormal:
      if key not in seen:
        seen.add(key)
        if prop.nontrivial(c, io):
          stats['distinct_nontrivial'] += 1
      for h in prop.describe(c, io):
        stats['histogram'][h] = stats['histogram'].get(h, 0) + 1
      if len(stats['samples']) < 3 and prop.nontrivial(c, io):
        stats['samples'].append({'case': c, 'impl': io, 'model': mo})
    else:
      stats['histogram']['abnormal:' + ('timeout' if io.get('timeout') else io['impl_exception'])] = \
          stats['histogram'].get('abnormal:' + ('timeout' if io.get('timeout') else io['impl_exception']), 0) + 1
    if fail:
      matched = [f for f in known if signature_matches(f, fail['signature'])]
      if matched:
        ctx.known_hits[matched[0]['id']] = ctx.known_hits.get(matched[0]['id'], 0) + 1
      else:
        ctx.violations.append({'case': c, 'failure': fail, 'impl_out': io, 'model_out': mo})
  return stats


def run_replay(prop, path):
  with open(os.path.join(VERIF, path) if not os.path.isabs(path) else path) as f:
    rep = json.load(f)
  known = [f for f in load_findings(prop.id) if f.get('status') == 'known']

  def model_of(case, out=None):
    if not (prop.driver and os.path.exists(Driver(prop.driver).path)):
      return None
    try:
      r = prop.model_request_with_impl(case, out) if out is not None else prop.model_request(case)
      return None if r is None else Driver(prop.driver).run([r])[0]
    except InfraError as e:
      print('model   : unavailable (%s)' % e)
      return None

  if rep.get('kind') == 'failing-input':
    out, fail = check_case(prop, rep['input'])
    print('input   :', json.dumps(rep['input'])[:2000])
    print('observed:', json.dumps(out, default=str)[:2000])
    mo = model_of(rep['input'], out)
    if mo is not None:
      print('model   :', json.dumps(mo)[:2000])
    if fail:
      matched = [f for f in known if signature_matches(f, fail['signature'])]
      if matched:
        print('KNOWN-FINDING: property=%s %s: %s' % (prop.id, matched[0]['id'], matched[0]['what_fails']))
        print('oracle  : fails only in the way listed as known finding %s' % matched[0]['id'])
        return 0
      print('oracle  : FAILS — %s' % fail.get('what'))
      print('VIOLATION property=%s replay=%s' % (prop.id, path))
      return 1
    print('oracle  : holds on this input now')
    return 0
  # broken theorem / tie: re-run translate + build, and the first disagreeing input if recorded
  with BuildLock():
    from translate.common import TranslatorError
    broken = []
    for tr in prop.translators:
      try:
        tr()
      except TranslatorError as e:
        broken.append('translator %s: %s' % (tr.__module__, e))
    ok, errors, _ = lake_build(prop.props_modules + ([prop.driver] if prop.driver else []))
    broken += ['%s (%s:%s)' % (e['decl'], e['file'], e['line']) for e in errors]
  fd = rep.get('first_disagreement')
  if fd and not broken:
    out, fail = check_case(prop, fd['case'])
    mo = model_of(fd['case'], out)
    print('input   :', json.dumps(fd['case'])[:2000])
    print('observed:', json.dumps(out, default=str)[:1500])
    print('model   :', json.dumps(mo)[:1500])
    if mo is not None:
      d = prop.compare(fd['case'], out, mo)
      if d:
        broken.append('correspondence: %s' % d[:300])
  if broken:
    print('still broken:', '; '.join(broken))
    print('VIOLATION property=%s replay=%s no-failing-input-found' % (prop.id, path))
    return 1
  print('proofs, translators and correspondence check again (recorded: %s)' % [b['name'] for b in rep.get('broken', [])])
  return 0
