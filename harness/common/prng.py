"""SplitMix64: the single source of randomness of every check (seeded from VERIF_SEED)."""

MASK = (1 << 64) - 1


class Rng:
  """Deterministic PRNG; every random choice of a run derives from one state."""

  def __init__(self, seed: int):
    self.state = (seed * 0x9E3779B97F4A7C15 + 0x1234567) & MASK

  def next(self) -> int:
    self.state = (self.state + 0x9E3779B97F4A7C15) & MASK
    z = self.state
    z = ((z ^ (z >> 30)) * 0xBF58476D1CE4E5B9) & MASK
    z = ((z ^ (z >> 27)) * 0x94D049BB133111EB) & MASK
    return z ^ (z >> 31)

  def below(self, n: int) -> int:
    """Uniform integer in [0, n)."""
    assert n > 0
    return self.next() % n

  def randint(self, lo: int, hi: int) -> int:
    """Uniform integer in [lo, hi] (inclusive)."""
    return lo + self.below(hi - lo + 1)

  def chance(self, p: float) -> bool:
    return self.next() / float(1 << 64) < p

  def choice(self, xs):
    return xs[self.below(len(xs))]

  def weighted(self, pairs):
    """pairs: list of (weight, value)."""
    total = sum(w for w, _ in pairs)
    r = self.below(total)
    for w, v in pairs:
      if r < w:
        return v
      r -= w
    return pairs[-1][1]

  def shuffle(self, xs):
    xs = list(xs)
    for i in range(len(xs) - 1, 0, -1):
      j = self.below(i + 1)
      xs[i], xs[j] = xs[j], xs[i]
    return xs

  def sample(self, xs, k):
    return self.shuffle(xs)[:k]

  def fork(self) -> 'Rng':
    return Rng(self.next())
